"""bin/check <ID> [quick|thorough]   |   bin/check setup"""
from __future__ import annotations

import importlib
import os
import sys
import traceback

from . import coq
from .core import Ctx


def main(argv: list[str]) -> int:
    if not argv:
        print(__doc__)
        return 2
    if argv[0] == "setup":
        ok, out = coq.build_lib()
        print(out[-3000:])
        print("setup:", "ok" if ok else "FAILED")
        return 0 if ok else 1
    pid = argv[0].upper()
    tier = argv[1] if len(argv) > 1 else os.environ.get("VERIF_TIER", "quick")
    if tier not in ("quick", "thorough"):
        tier = "quick"
    # two invocations for the same property (quick and thorough, or the same command twice) share work/<ID> and the evidence file:
    # the second waits for the first
    import fcntl
    from .core import VERIF
    (VERIF / "work").mkdir(exist_ok=True)
    lock = open(VERIF / "work" / f".{pid}.lock", "w")
    fcntl.flock(lock, fcntl.LOCK_EX)
    ctx = Ctx(pid, tier)
    try:
        ok, out = coq.build_lib()
        if not ok:
            ctx.obligation("coq/Lib builds", False, out[-1500:])
            ctx.report("lib-build", "hand-written Coq library does not build", {"log": out[-3000:]},
                       found_input=False)
            return ctx.finish()
        mod = importlib.import_module(f"vf.props.{pid.lower()}")
        mod.run(ctx)
    except Exception:
        tb = traceback.format_exc()
        print(tb)
        ctx.obligation("check machinery ran to completion", False, tb[-1500:])
        ctx.report("harness-exception", "the check itself failed: " + tb.strip().splitlines()[-1],
                   {"traceback": tb}, found_input=False)
    return ctx.finish()


if __name__ == "__main__":
    sys.exit(main(sys.argv[1:]))
