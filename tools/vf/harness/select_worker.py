"""Run run_refurb for one (files, selection) job in a fresh process each (module-level
state of checks must not leak between jobs).  Jobs on stdin as JSON lines."""
import json
import os
import sys
import tempfile


def job(files, mode, codes, extra):
    from refurb.error import ErrorCode
    from refurb.main import run_refurb
    from refurb.settings import Settings
    sel = {ErrorCode(int(c[4:]), c[:4]) for c in codes}
    if mode == "all":
        st = Settings(files=files, enable_all=True, quiet=True)
    elif mode == "only":
        st = Settings(files=files, disable_all=True, enable=sel, quiet=True)
    elif mode == "all-but":
        st = Settings(files=files, enable_all=True, disable=sel, quiet=True)
    elif mode == "all-ignore":
        st = Settings(files=files, enable_all=True, ignore=sel, quiet=True)
    else:
        raise ValueError(mode)
    for k, v in (extra or {}).items():
        setattr(st, k, v)
    out = run_refurb(st)
    return [[e.filename, e.line, e.column, f"{e.prefix}{e.code}", e.msg] if not isinstance(e, str) else ["<str>", 0, 0, "", e] for e in out]


def main():
    jobs = [json.loads(l) for l in sys.stdin if l.strip()]
    wd = tempfile.mkdtemp(prefix="selw-")
    os.chdir(wd)
    for j in jobs:
        r, w = os.pipe()
        pid = os.fork()
        if pid == 0:
            os.close(r)
            try:
                res = {"id": j["id"], "out": job(j["files"], j["mode"], j.get("codes", []), j.get("extra"))}
            except BaseException as e:  # noqa: BLE001
                res = {"id": j["id"], "error": f"{type(e).__name__}: {e}"}
            with os.fdopen(w, "w") as f:
                f.write(json.dumps(res))
            os._exit(0)
        os.close(w)
        with os.fdopen(r) as f:
            data = f.read()
        os.waitpid(pid, 0)
        print(data, flush=True)
    import shutil
    os.chdir("/")
    shutil.rmtree(wd, ignore_errors=True)


if __name__ == "__main__":
    main()
