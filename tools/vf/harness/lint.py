"""Parallel front-end for lint_worker and single CLI runs."""
from __future__ import annotations

import json
import os
import shutil
import subprocess
import tempfile
from concurrent.futures import ThreadPoolExecutor

from ..core import PY, REPO, VERIF

ENV = {"PYTHONPATH": f"{VERIF / 'tools'}:{REPO}", "PYTHONHASHSEED": "0", "PATH": "/usr/bin:/bin",
       "PYTHONDONTWRITEBYTECODE": "1", "HOME": "/tmp", "NO_COLOR": "1"}


def lint_batches(batches: list[list[str]], extra: list[str], workers: int = 12, timeout: int = 1800) -> list[dict]:
    groups = [batches[i::workers] for i in range(workers)]
    groups = [g for g in groups if g]

    def one(g):
        p = subprocess.run([PY, "-m", "vf.harness.lint_worker"], input=json.dumps({"batches": g, "extra": extra}),
                           capture_output=True, text=True, env=ENV, timeout=timeout)
        res = [json.loads(l) for l in p.stdout.splitlines() if l.startswith("{")]
        if p.returncode != 0 and not res:
            res.append({"files": [f for b in g for f in b], "rc": None, "tb": p.stderr[-2000:], "ok": False, "exc": "worker"})
        return res

    with ThreadPoolExecutor(max_workers=len(groups) or 1) as ex:
        return [r for rs in ex.map(one, groups) for r in rs]


def cli(args: list[str], cwd: str | None = None, env_extra: dict | None = None, timeout: int = 600, stdin: str | None = None):
    """python -m refurb ARGS -> (rc, stdout, stderr)"""
    own = cwd is None
    if own:
        cwd = tempfile.mkdtemp(prefix="cli-")
    try:
        env = dict(ENV)
        env.update(env_extra or {})
        p = subprocess.run([PY, "-m", "refurb", *args], cwd=cwd, capture_output=True, text=True, env=env,
                           timeout=timeout, input=stdin, errors="replace")
        return p.returncode, p.stdout, p.stderr
    finally:
        if own:
            shutil.rmtree(cwd, ignore_errors=True)


def clean_verdict(rc, out, err) -> bool:
    return rc in (0, 1) and "Traceback (most recent call last)" not in out + err
