"""Run the real RefurbVisitor over real mypy trees with a recorder subscribed to every
node type, and serialise the trees as terms of Lib/Tree.v."""
from __future__ import annotations

from collections import Counter, defaultdict

from ..translate.visitor_model import VisitorModel, children


def record_visits(files: list[str], python_version=None):
    """-> (errors/strings from run_refurb, [(MypyFile tree, path)], calls)
    calls: list of (subscribed_type_name, node) in call order, through the real
    build_visitor wrappers / run_check / accept."""
    import refurb.main as rmain
    from refurb.settings import Settings
    from refurb.visitor.mapping import METHOD_NODE_MAPPINGS
    import mypy.nodes

    calls: list = []
    trees: list = []

    def make(ty):
        def rec(node, errors):  # two annotations-free parameters -> 2-argument call
            calls.append((ty.__name__, node))
            if isinstance(node, mypy.nodes.MypyFile) and ty is mypy.nodes.MypyFile:
                trees.append(node)
        return rec

    checks = defaultdict(list)
    for ty in set(METHOD_NODE_MAPPINGS.values()):
        checks[ty].append(make(ty))
    orig = rmain.load_checks
    rmain.load_checks = lambda settings: checks
    try:
        out = rmain.run_refurb(Settings(files=files, quiet=True, python_version=python_version))
    finally:
        rmain.load_checks = orig
    return out, trees, calls


class Serializer:
    def __init__(self, vm: VisitorModel):
        self.vm = vm
        self.kidx = {k: i for i, k in enumerate(vm.kinds)}
        self.order: list = []          # nodes in the order of Tree.nodes (structural preorder)
        self.unknown: Counter = Counter()

    def term(self, node) -> str:
        cls = type(node).__name__
        if cls not in self.kidx:
            self.unknown[cls] += 1
            self.order.append(node)
            return "(Node 9999 [])"
        self.order.append(node)
        fs = []
        for path in self.vm.kind_info[cls]["fields"]:
            try:
                cs = children(node, path)
            except AttributeError:
                cs = []
            fs.append("[" + ";".join(self.term(c) for c in cs) + "]")
        return f"(Node {self.kidx[cls]} [" + ";".join(fs) + "])"


def mypy_reference_nodes(tree, vm: VisitorModel) -> list:
    """Syntactic nodes of a real tree: the children mypy's own TraverserVisitor visits
    (its visit_* bodies as translated from the installed mypy sources), not descending
    into derived `analyzed` nodes.  (mypy's compiled visitor cannot be subclassed from
    interpreted code, so its translated schedules are walked instead.)"""
    seen: list = []
    stack = [tree]
    while stack:
        n = stack.pop()
        seen.append(n)
        info = vm.kind_info.get(type(n).__name__)
        if info is None:
            continue
        for s in info["full_spec"]:
            try:
                stack.extend(children(n, s.path))
            except AttributeError:
                pass
    return seen
