"""Grammar-directed generator of Python expressions (as `ast` nodes) and single-edit
mutants.  All randomness comes from the rng passed in."""
from __future__ import annotations

import ast
import copy

NAMES = ["a", "b", "c", "xs", "d", "s", "f", "g", "obj", "os", "n"]
ATTRS = ["x", "y", "name", "real", "path", "append"]
STRS = ["", "a", "it's", 'say "hi"', "back\\slash", "tab\there", "nl\nx", "café", "中文", "\U0001f600",
        "{brace}", "%d", "'\"", "\\n", "\x00\x7f", " "]
# every ordered pair of the characters an escaping routine has to treat specially (a backslash before a quote,
# a quote before a backslash, doubled backslashes, ...), and a few triples
_SPECIAL = ["\\", "'", '"', "{", "}", "\n", "a", "é"]
STRS += [x + y for x in _SPECIAL for y in _SPECIAL if x + y not in STRS]
# text that looks like pieces of mypy's own node rendering (`NameExpr(x)`, `:12` line tags): sameness that falls back on a rendering must not be fooled by it
STRS += ["host:80", "12:30", "a:1:b", ":7", "x:-3", "NameExpr(a)", "IntExpr(1)", "[a]:2"]
STRS += ["\\\\'", "C:\\'quoted'", "\\'\\\"", "'\\", "x\\\\\"y", "\\\\n"]
INTS = [0, 1, 2, 7, 10, 255, 1000, 10**20]
FLOATS = [0.0, 1.5, 2.0, 1e10, 1e-07, 1e22, 3.14]
BINOPS = [ast.Add, ast.Sub, ast.Mult, ast.Div, ast.FloorDiv, ast.Mod, ast.Pow, ast.MatMult, ast.BitOr, ast.BitAnd,
          ast.BitXor, ast.LShift, ast.RShift]
CMPOPS = [ast.Eq, ast.NotEq, ast.Lt, ast.LtE, ast.Gt, ast.GtE, ast.Is, ast.IsNot, ast.In, ast.NotIn]
UNOPS = [ast.USub, ast.UAdd, ast.Invert, ast.Not]

PRELUDE = """\
import os
import os as o2
import os.path
import posixpath
import posixpath as pp2
from os import path as ospath
from typing import Any
a: int = 1
b: int = 2
c: int = 3
n: int = 4
xs: list[int] = [1, 2, 3]
d: dict[str, int] = {}
s: str = ""
obj: Any = None
def f(*args: Any, **kw: Any) -> Any: ...
def g(*args: Any, **kw: Any) -> Any: ...
"""


class Gen:
    def __init__(self, rng, kinds: set[str] | None = None):
        self.rng = rng
        self.kinds = kinds      # restrict to these node kinds if given

    def name(self):
        return ast.Name(id=self.rng.choice(NAMES), ctx=ast.Load())

    def leaf(self):
        r = self.rng.random()
        if r < 0.45:
            return self.name()
        if r < 0.6:
            return ast.Constant(value=self.rng.choice(INTS))
        if r < 0.7:
            return ast.Constant(value=self.rng.choice(STRS))
        if r < 0.76:
            return ast.Constant(value=self.rng.choice(FLOATS))
        if r < 0.8:
            return ast.Constant(value=self.rng.choice([2j, 1.5j]))
        if r < 0.85:
            return ast.Constant(value=self.rng.choice([b"", b"ab", b"\x00\xff", b'q"uote']))
        if r < 0.9:
            return ast.Constant(value=self.rng.choice([True, False, None]))
        if r < 0.93:
            return ast.Constant(value=...)
        return ast.Attribute(value=self.name(), attr=self.rng.choice(ATTRS), ctx=ast.Load())

    def expr(self, depth: int):
        rng = self.rng
        if depth <= 0 or rng.random() < 0.12:
            return self.leaf()
        k = rng.choice(["attr", "call", "call", "index", "slice", "binop", "binop", "boolop", "cmp", "unary", "ifexp",
                        "lambda", "list", "tuple", "set", "dict", "walrus", "await", "comp", "fstring", "starred-list",
                        "tuple-index"])
        e = lambda: self.expr(depth - 1)  # noqa: E731
        if k == "attr":
            return ast.Attribute(value=e(), attr=rng.choice(ATTRS), ctx=ast.Load())
        if k == "call":
            args, kws = [], []
            for _ in range(rng.randrange(0, 4)):
                m = rng.random()
                if m < 0.6:
                    args.append(e())
                elif m < 0.7:
                    args.append(ast.Starred(value=e(), ctx=ast.Load()))
                elif m < 0.9:
                    kws.append(ast.keyword(arg=rng.choice(["key", "sep", "end", "k"]), value=e()))
                else:
                    kws.append(ast.keyword(arg=None, value=e()))
            return ast.Call(func=e() if rng.random() < 0.4 else self.name(), args=args, keywords=kws)
        if k == "index":
            return ast.Subscript(value=e(), slice=e(), ctx=ast.Load())
        if k == "slice":
            parts = [e() if rng.random() < 0.5 else None for _ in range(3)]
            return ast.Subscript(value=e(), slice=ast.Slice(lower=parts[0], upper=parts[1], step=parts[2]), ctx=ast.Load())
        if k == "tuple-index":
            return ast.Subscript(value=e(), slice=ast.Tuple(elts=[e(), ast.Slice(lower=e(), upper=None, step=None)], ctx=ast.Load()),
                                 ctx=ast.Load())
        if k == "binop":
            return ast.BinOp(left=e(), op=rng.choice(BINOPS)(), right=e())
        if k == "boolop":
            return ast.BoolOp(op=rng.choice([ast.And, ast.Or])(), values=[e() for _ in range(rng.choice([2, 2, 3]))])
        if k == "cmp":
            m = rng.choice([1, 1, 2])
            return ast.Compare(left=e(), ops=[rng.choice(CMPOPS)() for _ in range(m)], comparators=[e() for _ in range(m)])
        if k == "unary":
            return ast.UnaryOp(op=rng.choice(UNOPS)(), operand=e())
        if k == "ifexp":
            return ast.IfExp(test=e(), body=e(), orelse=e())
        if k == "lambda":
            names = rng.sample(["p", "q", "r"], rng.randrange(0, 3))
            a = ast.arguments(posonlyargs=[], args=[ast.arg(arg=x) for x in names], vararg=None, kwonlyargs=[],
                              kw_defaults=[], kwarg=None, defaults=[])
            if rng.random() < 0.15 and names:
                a.defaults = [ast.Constant(value=1)]
            if rng.random() < 0.1:
                a.vararg = ast.arg(arg="va")
            # every kind of parameter a lambda can have: positional-only, keyword-only after `*` or `*va`, `**kw`, defaults
            if rng.random() < 0.2:
                a.kwonlyargs = [ast.arg(arg=x) for x in rng.sample(["k1", "k2"], rng.randrange(1, 3))]
                a.kw_defaults = [ast.Constant(value=0) if rng.random() < 0.4 else None for _ in a.kwonlyargs]
            if rng.random() < 0.1:
                a.kwarg = ast.arg(arg="kw")
            if rng.random() < 0.1 and names:
                a.posonlyargs, a.args = a.args[:1], a.args[1:]
                a.defaults = a.defaults[: len(a.args)]
            return ast.Lambda(args=a, body=e())
        if k == "list":
            return ast.List(elts=[e() for _ in range(rng.randrange(0, 3))], ctx=ast.Load())
        if k == "starred-list":
            return ast.List(elts=[ast.Starred(value=e(), ctx=ast.Load()), e()], ctx=ast.Load())
        if k == "tuple":
            return ast.Tuple(elts=[e() for _ in range(rng.randrange(0, 3))], ctx=ast.Load())
        if k == "set":
            return ast.Set(elts=[e() for _ in range(rng.randrange(1, 3))])
        if k == "dict":
            n = rng.randrange(0, 3)
            keys = [None if rng.random() < 0.2 else e() for _ in range(n)]
            return ast.Dict(keys=keys, values=[e() for _ in range(n)])
        if k == "walrus":
            return ast.NamedExpr(target=ast.Name(id=rng.choice(["w", "v"]), ctx=ast.Store()), value=e())
        if k == "await":
            return ast.Await(value=e())
        if k == "comp":
            return ast.ListComp(elt=e(), generators=[ast.comprehension(target=ast.Name(id="i", ctx=ast.Store()), iter=e(),
                                                                       ifs=[], is_async=0)])
        if k == "fstring":
            vals = []
            for _ in range(rng.randrange(1, 4)):
                if rng.random() < 0.5:
                    vals.append(ast.Constant(value=rng.choice(["", "x", "a b", "{", "q'\"", "\\"])))
                else:
                    # every combination of the parts a field can have: conversion flag, format spec (plain or with a nested field)
                    r_spec = rng.random()
                    spec = (ast.JoinedStr(values=[ast.Constant(value=rng.choice([">10", ".2f", "x", "^8", "05", "s"]))]) if r_spec < 0.35 else
                            ast.JoinedStr(values=[ast.Constant(value=">"), ast.FormattedValue(value=self.name(), conversion=-1, format_spec=None)]) if r_spec < 0.45 else None)
                    conv = rng.choice([-1, -1, -1, ord("r"), ord("s"), ord("a")])
                    vals.append(ast.FormattedValue(value=e(), conversion=conv, format_spec=spec))
            return ast.JoinedStr(values=vals)
        return self.leaf()


def unparse(node) -> str | None:
    try:
        src = ast.unparse(ast.fix_missing_locations(copy.deepcopy(node)))
        ast.parse(src, mode="eval")
        return src
    except Exception:  # noqa: BLE001
        return None


def norm_dump(src: str) -> str | None:
    """Canonical tree of an expression's source (ctx-free)."""
    try:
        t = ast.parse(src.strip(), mode="eval").body
    except SyntaxError:
        return None
    return ast.dump(t, annotate_fields=True, include_attributes=False)


def mutants(rng, node, n: int = 3) -> list[tuple[str, ast.AST]]:
    """Single-edit mutants: (kind-of-edit, new tree)."""
    out = []
    sites = [x for x in ast.walk(node)]
    for _ in range(n * 4):
        if len(out) >= n:
            break
        t = copy.deepcopy(node)
        nodes = [x for x in ast.walk(t)]
        x = rng.choice(nodes)
        kind = None
        if isinstance(x, ast.Name) and isinstance(x.ctx, ast.Load):
            x.id = rng.choice([v for v in NAMES if v != x.id]); kind = "name"
        elif isinstance(x, ast.Attribute):
            x.attr = rng.choice([v for v in ATTRS if v != x.attr]); kind = "attribute"
        elif isinstance(x, ast.BinOp) and isinstance(x.left, ast.BinOp) and type(x.left.op) is type(x.op) and rng.random() < 0.5:
            # (a op b) op c  ->  a op (b op c): the same operands in the same order, grouped the other way
            a_, b_, c_ = x.left.left, x.left.right, x.right
            x.left, x.right = a_, ast.BinOp(left=b_, op=type(x.op)(), right=c_); kind = "regrouped"
        elif isinstance(x, ast.BinOp) and isinstance(x.right, ast.BinOp) and type(x.right.op) is type(x.op) and rng.random() < 0.5:
            a_, b_, c_ = x.left, x.right.left, x.right.right
            x.left, x.right = ast.BinOp(left=a_, op=type(x.op)(), right=b_), c_; kind = "regrouped"
        elif isinstance(x, ast.BinOp):
            x.op = rng.choice([o for o in BINOPS if not isinstance(x.op, o)])(); kind = "operator"
        elif isinstance(x, ast.BoolOp):
            x.op = ast.Or() if isinstance(x.op, ast.And) else ast.And(); kind = "boolop"
        elif isinstance(x, ast.UnaryOp):
            x.op = rng.choice([o for o in UNOPS if not isinstance(x.op, o)])(); kind = "unary-op"
        elif isinstance(x, ast.Compare):
            i = rng.randrange(len(x.ops))
            x.ops[i] = rng.choice([o for o in CMPOPS if not isinstance(x.ops[i], o)])(); kind = "cmp-op"
        elif isinstance(x, ast.Constant) and isinstance(x.value, int) and not isinstance(x.value, bool):
            x.value = x.value + 1 if rng.random() < 0.5 else float(x.value); kind = "literal"
        elif isinstance(x, ast.Constant) and isinstance(x.value, (str, bytes)) and any(c in "0123456789" for c in (x.value if isinstance(x.value, str) else x.value.decode("latin1"))) \
                and rng.random() < 0.6:
            # the same text with one more digit in its first run of digits
            txt = x.value if isinstance(x.value, str) else x.value.decode("latin1")
            i = next(k for k, c in enumerate(txt) if c in "0123456789")
            txt = txt[:i + 1] + rng.choice("0123456789") + txt[i + 1:]
            x.value = txt if isinstance(x.value, str) else txt.encode("latin1"); kind = "literal-digit"
        elif isinstance(x, ast.Constant) and isinstance(x.value, str):
            x.value = x.value + "!" if rng.random() < 0.7 else x.value.encode("utf8", "replace"); kind = "literal"
        elif isinstance(x, ast.Constant) and isinstance(x.value, bytes):
            x.value = x.value + b"!" if rng.random() < 0.7 else x.value.decode("latin1"); kind = "literal"
        elif isinstance(x, ast.Call):
            m = rng.randrange(5)
            if m == 0:
                x.args.append(ast.Constant(value=0)); kind = "arity+"
            elif m == 1 and x.args:
                x.args.pop(); kind = "arity-"
            elif m == 2 and x.args and not isinstance(x.args[-1], ast.Starred):
                x.keywords.insert(0, ast.keyword(arg="key", value=x.args.pop())); kind = "argkind"
            elif m == 3 and x.keywords and x.keywords[0].arg:
                x.keywords[0].arg = x.keywords[0].arg + "2"; kind = "keyword-name"
            elif m == 4 and x.args and not isinstance(x.args[0], ast.Starred):
                x.args[0] = ast.Starred(value=x.args[0], ctx=ast.Load()); kind = "star"
        elif isinstance(x, ast.Slice):
            if x.lower is None:
                x.lower = ast.Constant(value=0)
            else:
                x.lower = None
            kind = "slice-part"
        elif isinstance(x, (ast.List, ast.Tuple, ast.Set)) and x.elts:
            x.elts.pop(); kind = "arity-"
        elif isinstance(x, ast.Dict) and x.keys:
            x.keys.pop(); x.values.pop(); kind = "arity-"
        if kind and unparse(t) and norm_dump(unparse(t)) != norm_dump(unparse(node) or ""):
            out.append((kind, t))
    return out
