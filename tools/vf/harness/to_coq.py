"""Serialise real mypy expression nodes as terms of Lib/PyAst.v:expr."""
from __future__ import annotations

from ..coq import coq_str as S

KINDS = ["ARG_POS", "ARG_OPT", "ARG_STAR", "ARG_NAMED", "ARG_STAR2", "ARG_NAMED_OPT"]


def cps(s: str) -> str:
    return "[" + ";".join(f"{ord(c)}%N" for c in s) + "]"


def z(v: int) -> str:
    return f"({v})%Z"


def opt(x, f) -> str:
    return "None" if x is None else f"(Some {f(x)})"


def lst(xs) -> str:
    return "[" + "; ".join(xs) + "]"


def expr(n, opaque_structured: bool = False) -> str:
    """opaque_structured: hand ConditionalExpr/LambdaExpr/AwaitExpr/AssignmentExpr over as
    EOpaque (what is_equivalent sees: no explicit case) instead of structurally."""
    import mypy.nodes as N
    e = lambda x: expr(x, opaque_structured)  # noqa: E731
    if isinstance(n, N.NameExpr):
        return f"(EName {S(n.name)} {S(n.fullname or '')})"
    if isinstance(n, N.MemberExpr):
        return f"(EMember {e(n.expr)} {S(n.name)} {S(n.fullname or '')})"
    if isinstance(n, N.IntExpr):
        return f"(EInt {z(n.value)})"
    if isinstance(n, N.FloatExpr):
        return f"(EFloat {S(str(n.value))})"
    if isinstance(n, N.ComplexExpr):
        return f"(EComplex {S(str(n.value))})"
    if isinstance(n, N.StrExpr):
        return f"(EStr {cps(n.value)})"
    if isinstance(n, N.BytesExpr):
        return f"(EBytes {S(n.value)})"
    if isinstance(n, N.ListExpr):
        return f"(EList {lst(e(x) for x in n.items)})"
    if isinstance(n, N.TupleExpr):
        return f"(ETuple {lst(e(x) for x in n.items)})"
    if isinstance(n, N.SetExpr):
        return f"(ESet {lst(e(x) for x in n.items)})"
    if isinstance(n, N.DictExpr):
        return f"(EDict {lst('(%s, %s)' % (opt(k, e), e(v)) for k, v in n.items)})"
    if isinstance(n, N.CallExpr):
        args = [f"({KINDS[int(k.value)]}, {opt(nm, S)}, {e(a)})" for k, nm, a in zip(n.arg_kinds, n.arg_names, n.args)]
        return f"(ECall {e(n.callee)} {lst(args)})"
    if isinstance(n, N.IndexExpr):
        return f"(EIndex {e(n.base)} {e(n.index)})"
    if isinstance(n, N.SliceExpr):
        return f"(ESlice {opt(n.begin_index, e)} {opt(n.end_index, e)} {opt(n.stride, e)})"
    if isinstance(n, N.OpExpr):
        return f"(EOp {S(n.op)} {e(n.left)} {e(n.right)})"
    if isinstance(n, N.ComparisonExpr):
        return f"(ECmp {lst(S(o) for o in n.operators)} {lst(e(x) for x in n.operands)})"
    if isinstance(n, N.UnaryExpr):
        return f"(EUnary {S(n.op)} {e(n.expr)})"
    if isinstance(n, N.StarExpr):
        return f"(EStar {e(n.expr)})"
    if not opaque_structured:
        if isinstance(n, N.ConditionalExpr):
            return f"(ECond {e(n.cond)} {e(n.if_expr)} {e(n.else_expr)})"
        if isinstance(n, N.LambdaExpr):
            body = None
            if len(n.body.body) == 1 and isinstance(n.body.body[0], N.ReturnStmt) and n.body.body[0].expr is not None:
                body = n.body.body[0].expr
            ps = [f"({KINDS[int(k.value)]}, {opt(nm, S)})" for k, nm in zip(n.arg_kinds, n.arg_names)]
            return f"(ELambda {lst(ps)} {opt(body, e)})"
        if isinstance(n, N.AwaitExpr):
            return f"(EAwait {e(n.expr)})"
        if isinstance(n, N.AssignmentExpr):
            return f"(EWalrus {e(n.target)} {e(n.value)})"
    return f"(EOpaque {S(type(n).__name__)} {max(n.line, 0)}%N {S(str(n))})"


def harvest(source_files: dict[str, str], python_version=None):
    """Lint the given sources with a recorder on AssignmentStmt; return
    {(file, 'P_12'): rvalue node} for every `P_<n> = ...` statement, plus mypy errors."""
    import re
    import tempfile
    from collections import defaultdict
    from pathlib import Path

    import mypy.nodes as N
    import refurb.main as rmain
    from refurb.settings import Settings

    found: dict = {}
    cur = {"file": None}

    def rec_file(node, errors):
        cur["file"] = node.path

    def rec(node, errors):
        if len(node.lvalues) == 1 and isinstance(node.lvalues[0], N.NameExpr) and re.fullmatch(r"P_\d+", node.lvalues[0].name):
            found[(Path(cur["file"]).name, node.lvalues[0].name)] = node.rvalue

    checks = defaultdict(list)
    checks[N.AssignmentStmt].append(rec)
    checks[N.MypyFile].append(rec_file)
    td = tempfile.mkdtemp(prefix="harvest-")
    paths = []
    for name, src in source_files.items():
        p = Path(td) / name
        p.write_text(src, "utf8")
        paths.append(str(p))
    orig = rmain.load_checks
    rmain.load_checks = lambda settings: checks
    skipped: list[str] = []
    try:
        out = _run_tolerant(rmain, Settings, paths, python_version, skipped)
    finally:
        rmain.load_checks = orig
    harvest.skipped = skipped            # statements mypy itself cannot analyse (its INTERNAL ERROR), removed from the programs
    return found, [e for e in out if isinstance(e, str)], td


def _run_tolerant(rmain, Settings, paths, python_version, skipped, depth=0):
    """run_refurb, surviving mypy's own INTERNAL ERROR (it calls sys.exit(2)): the statement mypy
    names is blanked out and the run repeated, so one bad generated statement does not lose a batch."""
    import contextlib
    import io
    import re
    from pathlib import Path
    err = io.StringIO()
    try:
        with contextlib.redirect_stderr(err), contextlib.redirect_stdout(err):
            return rmain.run_refurb(Settings(files=paths, quiet=True, python_version=python_version))
    except SystemExit:
        m = re.search(r"^(.*?):(\d+): error: INTERNAL ERROR", err.getvalue(), flags=re.M)
        if not m or depth > 25:
            raise
        f, ln = Path(m.group(1)), int(m.group(2))
        lines = f.read_text("utf8").split("\n")
        skipped.append(lines[ln - 1])
        lines[ln - 1] = "pass" if not lines[ln - 1].startswith((" ", "\t")) else lines[ln - 1][: len(lines[ln - 1]) - len(lines[ln - 1].lstrip())] + "pass"
        f.write_text("\n".join(lines), "utf8")
        return _run_tolerant(rmain, Settings, paths, python_version, skipped, depth + 1)
