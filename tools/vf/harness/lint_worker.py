"""Run refurb.main.main in-process on batches of files; bisect crashing batches.
stdin: JSON {"batches": [[files...]], "extra": [args]} ; stdout: JSON lines."""
import contextlib
import io
import json
import os
import sys
import tempfile
import traceback


def run(files, extra):
    from refurb.main import main
    import refurb.main as rm
    rm.get_source_lines.cache_clear()
    out = io.StringIO()
    try:
        with contextlib.redirect_stdout(out), contextlib.redirect_stderr(out):
            rc = main([*files, *extra])
        return {"rc": rc, "tb": None, "out": out.getvalue()[-2000:]}
    except BaseException as e:  # noqa: BLE001
        if isinstance(e, SystemExit):
            return {"rc": e.code, "tb": None, "out": out.getvalue()[-2000:], "systemexit": True}
        return {"rc": None, "tb": traceback.format_exc()[-3000:], "exc": type(e).__name__, "out": out.getvalue()[-500:]}


def solve(files, extra, emit):
    r = run(files, extra)
    ok = r["tb"] is None and r["rc"] in (0, 1) and "Traceback (most recent call last)" not in r["out"]
    if ok or len(files) <= 1:
        emit({"files": files, **r, "ok": ok})
        return
    mid = len(files) // 2
    solve(files[:mid], extra, emit)
    solve(files[mid:], extra, emit)


def main():
    job = json.load(sys.stdin)
    import shutil
    wd = tempfile.mkdtemp(prefix="lintw-")
    os.chdir(wd)
    try:
        for batch in job["batches"]:
            solve(batch, job.get("extra", []), lambda d: print(json.dumps(d), flush=True))
    finally:
        os.chdir("/")
        shutil.rmtree(wd, ignore_errors=True)


if __name__ == "__main__":
    main()
