"""Shared run context for every property check.

A check module (vf/props/cNN.py) exposes ``run(ctx)``.  The context records
proof obligations (Coq theorems compiled on this run against the model that was
regenerated from /repo), correspondence cases (model vs. real code), search
results (real code vs. the property's own oracle), prints the VIOLATION /
KNOWN-FINDING lines and writes evidence/<ID>.json.
"""
from __future__ import annotations

import json
import os
import random
import sys
import time
from pathlib import Path

VERIF = Path(__file__).resolve().parents[2]
REPO = Path(os.environ.get("VERIF_REPO", "/repo"))
PY = "/venv/bin/python"


class Ctx:
    def __init__(self, pid: str, tier: str) -> None:
        self.pid = pid
        self.tier = tier
        self.seed = int(os.environ.get("VERIF_SEED", "0") or 0)
        self.rng = random.Random(f"{pid}:{self.seed}")
        self.t0 = time.time()
        self.obligations: list[dict] = []
        self.samples: list = []
        self.evaluations = 0
        self.nontrivial: set = set()
        self.rule_parts: list[str] = []
        self.distribution: dict[str, int] = {}
        self.assumptions: list[str] = []
        self.trusted_base: list[str] = []
        self.violations: list[dict] = []
        self.known_hits: list[dict] = []
        self.notes: list[str] = []
        self.extra: dict = {}
        self.checker_cmd = ""
        self.level = "proof"
        self.exhaustive: bool | None = None
        kf = VERIF / "known_findings.json"
        self.known = [
            e for e in json.loads(kf.read_text())["findings"] if e["property"] == pid
        ] if kf.exists() else []
        self.work = VERIF / "work" / pid
        self.work.mkdir(parents=True, exist_ok=True)
        for old in (VERIF / "replays").glob(f"{pid}-*"):
            try:
                old.unlink()
            except OSError:
                pass

    # ---- budgets -------------------------------------------------------
    def budget(self, quick: int, thorough: int) -> int:
        return thorough if self.tier == "thorough" else quick

    # ---- recording -----------------------------------------------------
    def log(self, *a) -> None:
        print(*a, flush=True)

    def obligation(self, name: str, ok: bool, detail: str = "", axioms: str = "") -> None:
        self.obligations.append(
            {"name": name, "discharged": bool(ok), "detail": detail[:2000], "axioms": axioms}
        )

    def count(self, bucket: str, n: int = 1) -> None:
        self.distribution[bucket] = self.distribution.get(bucket, 0) + n

    def case(self, key, nontrivial: bool = True, sample=None) -> None:
        """One explored case. `key` identifies it for distinctness."""
        self.evaluations += 1
        if nontrivial:
            self.nontrivial.add(key if isinstance(key, (str, int, tuple)) else repr(key))
        if sample is not None and len(self.samples) < 12:
            self.samples.append(sample)

    def rule(self, text: str) -> None:
        self.rule_parts.append(text)

    # ---- findings ------------------------------------------------------
    def _known(self, key: str):
        for e in self.known:
            if e["key"] == key:
                return e
        return None

    def report(self, key: str, what: str, replay: dict, found_input: bool = True) -> None:
        """A property failure observed on the real code (found_input) or a broken
        proof obligation / correspondence with no failing input (found_input=False).
        `key` names the specific input / call site / history."""
        for v in self.violations + self.known_hits:
            if v["key"] == key:
                return
        e = self._known(key)
        if e is not None and e.get("status") == "open" and found_input:
            self.known_hits.append({"key": key, "what": what})
            print(f"KNOWN-FINDING: property={self.pid} {key}: {what}", flush=True)
            return
        rp = VERIF / "replays"
        rp.mkdir(exist_ok=True)
        path = rp / f"{self.pid}-{len(self.violations) + 1}.json"
        replay = dict(replay)
        replay.update({"property": self.pid, "key": key, "what": what,
                       "failing_input_found": found_input})
        if e is not None and e.get("status") == "fixed":
            replay["regression_of_fixed_finding"] = e.get("commit")
        path.write_text(json.dumps(replay, indent=1, default=str))
        self.violations.append({"key": key, "what": what, "replay": str(path)})
        tail = "" if found_input else " no-failing-input-found"
        print(f"VIOLATION property={self.pid} replay={path}{tail}", flush=True)
        print(f"  ({key}: {what})", flush=True)

    def resolve_broken(self, explained: dict[str, str] | None = None, error: str = "") -> None:
        """Every undischarged obligation must be explained by a concrete failing input
        found on the real code (a violation or known finding whose key starts with the
        given prefix); otherwise it is reported by name, no-failing-input-found."""
        explained = explained or {}
        # only a NEW violation explains a broken obligation: a listed finding was there while the
        # obligation still checked, so it cannot be the reason it stopped checking
        keys = [v["key"] for v in self.violations]
        for o in self.obligations:
            if o["discharged"]:
                continue
            pre = explained.get(o["name"])
            if pre is not None and any(k.startswith(pre) for k in keys):
                continue
            self.report("obligation:" + o["name"],
                        f"proof obligation / correspondence '{o['name']}' no longer checks",
                        {"obligation": o, "error": error[-2000:]}, found_input=False)

    def known_not_reproduced(self) -> None:
        hit = {h["key"] for h in self.known_hits}
        for e in self.known:
            if e.get("status") == "open" and e["key"] not in hit:
                self.notes.append(f"known finding {e['key']} was not reproduced on this run")
                print(f"note: known finding {e['key']} not reproduced on this run", flush=True)

    # ---- finish --------------------------------------------------------
    def finish(self) -> int:
        self.known_not_reproduced()
        n_ob = len(self.obligations)
        n_ok = sum(1 for o in self.obligations if o["discharged"])
        cov: dict = {
            "obligations": n_ob,
            "discharged": n_ok,
            "checker_cmd": self.checker_cmd or "coqc (Coq 8.16.1), full .vo build, Print Assumptions parsed",
            "trusted_base": self.trusted_base,
            "evaluations": self.evaluations,
            "distinct_nontrivial": len(self.nontrivial),
            "rule": " | ".join(self.rule_parts),
            "samples": self.samples or [o["name"] for o in self.obligations[:5]],
            "obligation_list": self.obligations,
            "input_distribution": self.distribution,
            "known_findings_reproduced": self.known_hits,
            "notes": self.notes,
        }
        if self.exhaustive is not None:
            cov["exhaustive"] = self.exhaustive
        cov.update(self.extra)
        ev = {
            "property_id": self.pid,
            "tier": self.tier,
            "seed": self.seed,
            "level": self.level,
            "coverage": cov,
            "assumptions": self.assumptions,
            "wall_s": round(time.time() - self.t0, 2),
            "violations": len(self.violations),
        }
        out = VERIF / "evidence"
        out.mkdir(exist_ok=True)
        (out / f"{self.pid}.json").write_text(json.dumps(ev, indent=1, default=str) + "\n")
        print(
            f"[{self.pid} {self.tier}] obligations {n_ok}/{n_ob}, cases {self.evaluations} "
            f"({len(self.nontrivial)} distinct non-trivial), known findings {len(self.known_hits)}, "
            f"violations {len(self.violations)}, {ev['wall_s']}s",
            flush=True,
        )
        return 1 if self.violations else 0
