"""C16 — plugin contract: checks load once, obey selection, bad ones fail cleanly."""
from __future__ import annotations

import json
import re
import shutil
import tempfile
from pathlib import Path

from .. import coq
from ..core import REPO, Ctx
from ..harness import lint as L

S = coq.coq_str

CHECK_TPL = '''from dataclasses import dataclass
from mypy.nodes import {imports}
from refurb.error import Error
from refurb.settings import Settings
import json, os

@dataclass
class ErrorInfo(Error):
    """doc"""
    prefix = "{prefix}"
    code = {code}
    name = "plug-{code}"
    enabled = {enabled}
    categories = ("plugcat",)
    msg: str = "plugin {prefix}{code}"

def _log(kind, node, extra=None):
    with open(os.environ["C16_LOG"], "a") as f:
        f.write(json.dumps([__name__, "{prefix}{code}", kind, type(node).__name__, node.line, extra]) + "\\n")

{check_def}
'''

SIGS = {
    # name: (def text, valid?, takes settings?)
    "two": ("def check(node: {T}, errors: list[Error]) -> None:\n    _log('call', node)\n    errors.append(ErrorInfo.from_node(node))", True, False),
    "three": ("def check(node: {T}, errors: list[Error], settings: Settings) -> None:\n    _log('call', node, settings.verbose)\n    errors.append(ErrorInfo.from_node(node))", True, True),
    "two-noreturn": ("def check(node: {T}, errors: list[Error]):\n    _log('call', node)\n    errors.append(ErrorInfo.from_node(node))", True, False),
    "three-noreturn": ("def check(node: {T}, errors: list[Error], settings: Settings):\n    _log('call', node, settings.verbose)\n    errors.append(ErrorInfo.from_node(node))", True, True),
    # what the body does with its own local names is the check's business: locals called like a service, closures, defaults
    "two-local-named-settings": ("def check(node: {T}, errors: list[Error]) -> None:\n    settings = {'verbose': 1}\n    _log('call', node, settings['verbose'])\n    errors.append(ErrorInfo.from_node(node))", True, False),
    "two-locals-and-closure": ("def check(node: {T}, errors: list[Error]) -> None:\n    config = 1\n    def helper(settings=None):\n        return config\n    _log('call', node, helper())\n    errors.append(ErrorInfo.from_node(node))", True, False),
    "three-with-locals": ("def check(node: {T}, errors: list[Error], settings: Settings) -> None:\n    extra = settings.verbose\n    more = [extra]\n    _log('call', node, more[0])\n    errors.append(ErrorInfo.from_node(node))", True, True),
    "union": ("def check(node: {T} | StrExpr, errors: list[Error]) -> None:\n    _log('call', node)\n    errors.append(ErrorInfo.from_node(node))", True, False),
    "one-param": ("def check(node: {T}) -> None:\n    pass", False, False),
    "four-params": ("def check(node: {T}, errors: list[Error], settings: Settings, more: int) -> None:\n    pass", False, False),
    "bad-node-type": ("def check(node: int, errors: list[Error]) -> None:\n    pass", False, False),
    "bad-union": ("def check(node: {T} | int, errors: list[Error]) -> None:\n    pass", False, False),
    "bad-errors": ("def check(node: {T}, errors: list[str]) -> None:\n    pass", False, False),
    "bad-service": ("def check(node: {T}, errors: list[Error], config: Settings) -> None:\n    pass", False, False),
    "bad-service-type": ("def check(node: {T}, errors: list[Error], settings: int) -> None:\n    pass", False, False),
    "unannotated": ("def check(node, errors):\n    pass", False, False),
    # node classes the visitor has no visit method for: a check annotated with one can never be called
    "abstract-refexpr": ("def check(node: RefExpr, errors: list[Error]) -> None:\n    _log('call', node)", False, False),
    "abstract-expression": ("def check(node: Expression, errors: list[Error]) -> None:\n    _log('call', node)", False, False),
    "abstract-node": ("def check(node: Node, errors: list[Error]) -> None:\n    _log('call', node)", False, False),
    "abstract-in-union": ("def check(node: {T} | Statement, errors: list[Error]) -> None:\n    _log('call', node)", False, False),
    "str-annotation": ("def check(node: 'NoSuchNode', errors: list[Error]) -> None:\n    pass", False, False),
    "optional-node": ("def check(node: {T} | None, errors: list[Error]) -> None:\n    pass", False, False),
    "not-callable": ("check = 5", False, False),
}


def make_module(path: Path, prefix: str, code: int, sig: str, node_type: str = "IntExpr", enabled: bool = True) -> None:
    path.parent.mkdir(parents=True, exist_ok=True)
    path.write_text(CHECK_TPL.format(imports=f"{node_type}, StrExpr, RefExpr, Expression, Node, Statement", prefix=prefix, code=code, enabled=enabled,
                                     check_def=SIGS[sig][0].replace("{T}", node_type)))



def translate_nodes(repo: Path) -> tuple[str, list[str]]:
    """The classes a check may be annotated with: loader.VALID_NODE_TYPES must still be the set of
    METHOD_NODE_MAPPINGS' values, and extract_function_types / run_check must keep their recognised tests."""
    import ast
    from ..translate.catalogue import TranslateError
    from ..translate.schedule import mapping
    src = (repo / "refurb" / "loader.py").read_text("utf8")
    need = ["VALID_NODE_TYPES = set(METHOD_NODE_MAPPINGS.values())", 'VALID_OPTIONAL_ARGS = (("settings", Settings),)', "if ty not in VALID_NODE_TYPES:",
            "case ty if ty in VALID_NODE_TYPES:", "if len(params) not in {2, 3}:", "(param.name, param.annotation) not in VALID_OPTIONAL_ARGS",
            "isinstance(error_param, GenericAlias)", "error_param.__origin__ is list", "error_param.__args__[0] is Error"]
    for n in need:
        if n not in src:
            raise TranslateError(f"refurb/loader.py no longer contains `{n}`")
    vis = (repo / "refurb" / "visitor" / "visitor.py").read_text("utf8")
    if "if check.__code__.co_argcount == 3:" not in vis or "check(node, self.errors, self.settings)" not in vis or "check(node, self.errors)" not in vis:
        raise TranslateError("RefurbVisitor.run_check no longer dispatches on co_argcount == 3")
    nodes = sorted(set(mapping(repo / "refurb" / "visitor" / "mapping.py").values()))
    return ("From Lib Require Import Base.\nOpen Scope list_scope.\n"
            f"Definition valid_nodes : list string := {coq.coq_list([S(x) for x in nodes])}.\n"), nodes


def signature_tie(ctx: Ctx, nodes: list[str], built: bool) -> None:
    """Synthesised functions through the real extract_function_types vs Lib/Signature.v validate."""
    import mypy.nodes as N
    from refurb.error import Error
    from refurb.loader import extract_function_types
    from refurb.settings import Settings
    rng = ctx.rng
    pool_node = [("ACls", n, getattr(N, n, None)) for n in ("IntExpr", "NameExpr", "CallExpr", "ForStmt", "MypyFile", "RefExpr", "Expression", "Node", "Statement", "SymbolNode", "FuncItem")]
    pool_node = [(k, n, o) for k, n, o in pool_node if o is not None]
    others = [("AOther", "str-annotation", "IntExpr"), ("AOther", "None", None), ("AOther", "int", int), ("AOther", "list-of-str", list[str]), ("ASettings", "", Settings),
              ("AListError", "", list[Error]), ("AOther", "list-bare", list), ("AOther", "empty", None)]

    concrete = [x for x in pool_node if x[1] in nodes]

    def pick_node():
        r = rng.random()
        if r < 0.5:
            return rng.choice(concrete)
        if r < 0.62:
            return rng.choice(pool_node)
        if r < 0.85:
            items = [rng.choice(concrete * 3 + pool_node + [("AOther", "int", int)]) for _ in range(rng.choice([2, 2, 3]))]
            objs = []
            for it in items:
                if it[2] not in objs:
                    objs.append(it[2])
            if len(objs) < 2:
                return items[0]
            u = objs[0]
            for o in objs[1:]:
                u = u | o
            terms = [it for i, it in enumerate(items) if it[2] not in [x[2] for x in items[:i]]]
            return ("AUnion", terms, u)
        return rng.choice(others)

    def coq_ann(a) -> str:
        k, d, _ = a
        if k == "ACls":
            return f"(ACls {S(d)})"
        if k == "AUnion":
            return "(AUnion [" + "; ".join(coq_ann(x) if x[0] == "ACls" else f"(AOther {S(str(x[1]))})" for x in d) + "])"
        if k in ("AListError", "ASettings"):
            return k
        return f"(AOther {S(str(d))})"
    rows, descr = [], []
    for t in range(ctx.budget(600, 6000)):
        n = rng.choice([0, 1, 2, 2, 2, 2, 3, 3, 3, 3, 4])
        anns = []
        for i in range(n):
            if i == 0:
                anns.append(pick_node())
            elif i == 1:
                anns.append(("AListError", "", list[Error]) if rng.random() < 0.9 else rng.choice(others))
            else:
                anns.append(("ASettings", "", Settings) if rng.random() < 0.8 else rng.choice(others + pool_node[:2]))
        names = ["node", "errors"] + [rng.choice(["settings", "settings", "settings", "config"]) + ("" if i == 0 else str(i)) for i in range(max(0, n - 2))]
        names = names[:n]
        ns: dict = {}
        import linecache
        fsrc = "def check(" + ", ".join(names) + "):\n    pass\n"
        fname = f"<c16-synth-{t}>"
        linecache.cache[fname] = (len(fsrc), None, fsrc.splitlines(True), fname)      # so that the loader can quote file:line
        exec(compile(fsrc, fname, "exec"), ns)
        fn = ns["check"]
        fn.__annotations__ = {nm: a[2] for nm, a in zip(names, anns) if not (a[0] == "AOther" and a[1] == "empty")}
        callable_ = rng.random() > 0.03
        target = fn if callable_ else 5
        try:
            got = sorted(t.__name__ for t in extract_function_types(target))
            real = "(Accept " + coq.coq_list([S(x) for x in got]) + ")"
            real_kind = "accept"
        except TypeError:
            real, real_kind = None, "reject"
        except Exception as e:  # noqa: BLE001
            ctx.report(f"signature:crash:{type(e).__name__}", f"extract_function_types raised {type(e).__name__}: {e} on a function annotated {[(nm, str(a[1])) for nm, a in zip(names, anns)]}",
                       {"annotations": [(nm, str(a[1])) for nm, a in zip(names, anns)]})
            continue
        ctx.case(("sig", t), nontrivial=True)
        ctx.count(f"synthesised-signature-{real_kind}")
        ps = "; ".join(f"({S(nm)}, {coq_ann(a)})" for nm, a in zip(names, anns))
        sigt = f"{{| is_callable := {coq.coq_bool(callable_)}; params := [{ps}] |}}"
        if real is None:
            rows.append(f"match validate valid_nodes {sigt} with Reject _ => true | Accept _ => false end")
        else:
            rows.append(f"match validate valid_nodes {sigt} with Accept cs => list_eqb String.eqb (isort str_leb cs) (isort str_leb {got and coq.coq_list([S(x) for x in got]) or '[]'}) | Reject _ => false end")
        descr.append(f"{'callable' if callable_ else 'not callable'} {[(nm, a[0], str(a[1])[:40]) for nm, a in zip(names, anns)]} -> {real_kind}")
    if not built:
        return
    hdr = ("From Lib Require Import Base Signature.\nFrom P Require Import GenNodes.\nOpen Scope list_scope.\nOpen Scope string_scope.\nSet Printing Width 100000.\n"
           "Definition bad (l : list bool) := (fix go (i : nat) (l : list bool) : list nat := match l with [] => [] | b :: q => if b then go (S i) q else i :: go (S i) q end) 0%nat l.\n")
    shards = ["Eval vm_compute in bad [\n" + ";\n".join(rows[k:k + 600]) + "].\n" for k in range(0, len(rows), 600)]
    outs = coq.eval_shards(ctx, "sigs", hdr, shards)
    bad, err = [], ""
    for k, (rc, o, e) in enumerate(outs):
        vals = coq.parse_eval_values(o)
        if rc != 0 or not vals:
            err = (e or o)[-300:]
            continue
        bad += [k * 600 + int(j) for j in re.findall(r"\d+", vals[0].split(":")[0])]
    ctx.obligation("correspondence: Lib/Signature.v validate = refurb.loader.extract_function_types on synthesised check functions (accepted classes / rejection)",
                   not bad and not err, err or "; ".join(descr[i] for i in bad[:4]))


def run(ctx: Ctx) -> None:
    ctx.trusted_base += [
        "Coq 8.16.1 kernel",
        "Lib/Loader.v: hand-written model of get_modules with module identity = import name; tied by the correspondence below",
        "the call log written by the generated plugin checks as the oracle of 'called exactly once / never'",
    ]
    ctx.assumptions += ["two import names for one file (aliasing through sys.path) are outside the model: execution only"]
    ctx.rule("generated plugin packages: every list of load targets over {package, its sub-module, second module, built-in package, duplicates} up to length 3, "
             "every signature class (5 valid incl. union / optional settings / no return annotation, 9 invalid), selections by code/category/enable-all/disable-all/ignore; "
             "oracle = call log + CLI output; distinct by (targets, selection) / signature")
    gens, order, nodes = {}, ["C16"], []
    try:
        gens["GenNodes"], nodes = translate_nodes(REPO)
        order = ["C16", "GenNodes", "C16Sig"]
    except Exception as e:  # noqa: BLE001
        ctx.obligation("translate the check-function contract (loader.py, visitor.py, mapping.py)", False, f"{type(e).__name__}: {e}")
        try:                # the search needs no model: the node classes as the running code has them
            from refurb.visitor import METHOD_NODE_MAPPINGS
            nodes = sorted({v.__name__ for v in METHOD_NODE_MAPPINGS.values()})
        except Exception:  # noqa: BLE001
            nodes = ["IntExpr", "NameExpr", "CallExpr", "ForStmt", "MypyFile"]
    b = coq.compile_props(ctx, gens, order)
    coq.record_build(ctx, b)
    signature_tie(ctx, nodes, bool(gens) and b.files.get("C16Sig", {}).get("rc") == 0)
    td = Path(tempfile.mkdtemp(prefix="c16-"))
    try:
        # plugin tree
        (td / "plug").mkdir()
        (td / "plug" / "__init__.py").write_text("")
        make_module(td / "plug" / "x.py", "PLG", 100, "two")
        make_module(td / "plug" / "y.py", "PLG", 101, "three", node_type="NameExpr")
        (td / "plug" / "sub").mkdir()
        (td / "plug" / "sub" / "__init__.py").write_text("")
        make_module(td / "plug" / "sub" / "z.py", "PLG", 102, "union", enabled=False)
        make_module(td / "solo.py", "SOL", 100, "two")
        # an opt-in check whose module also holds OTHER checks' error classes under other names (shared bases, re-exports):
        # the module is judged by its own ErrorInfo, whatever else it imports
        make_module(td / "plug" / "w.py", "PLG", 103, "two", enabled=False)
        with open(td / "plug" / "w.py", "a") as fh:
            fh.write("\nfrom plug.x import ErrorInfo as AaaBaseError\nfrom plug.y import ErrorInfo as ZzzOtherError\nfrom refurb.error import Error as BaseError\n")
        # namespace packages: plain directories of check modules, no __init__.py (their __file__ is None)
        (td / "nsa").mkdir()
        make_module(td / "nsa" / "m.py", "NSA", 100, "two")
        (td / "nsb").mkdir()
        make_module(td / "nsb" / "m.py", "NSB", 100, "two")
        # names that merely begin like another target: a module `plug_strict` next to package `plug`, a package `sol` next to module `solo`
        make_module(td / "plug_strict.py", "PLS", 100, "two")
        (td / "sol").mkdir()
        (td / "sol" / "__init__.py").write_text("")
        make_module(td / "sol" / "m.py", "SLP", 100, "two")
        (td / "t.py").write_text("a = 1\nb = a\nc = 'x'\n")
        log = td / "calls.log"
        env = {"C16_LOG": str(log), "PYTHONPATH": f"{td}:{L.ENV['PYTHONPATH']}"}
        names = {"plug": ["plug.sub.z", "plug.w", "plug.x", "plug.y"], "plug.x": None, "plug.sub": ["plug.sub.z"], "solo": None, "refurb.checks": "builtin", "nsa": ["nsa.m"], "nsb": ["nsb.m"],
                 "plug_strict": None, "sol": ["sol.m"]}
        tl = list(names)
        target_lists = [[]] + [[a] for a in tl] + [[a, b2] for a in tl for b2 in tl]
        if ctx.tier == "thorough":
            target_lists += [[a, b2, c] for a in tl for b2 in tl for c in tl]
        else:
            target_lists += [[ctx.rng.choice(tl) for _ in range(3)] for _ in range(10)]
        expected_per_module = {"plug.x": ("PLG100", ["IntExpr"]), "plug.y": ("PLG101", ["NameExpr"]), "plug.sub.z": ("PLG102", ["IntExpr", "StrExpr"]), "plug.w": ("PLG103", ["IntExpr"]), "solo": ("SOL100", ["IntExpr"]), "nsa.m": ("NSA100", ["IntExpr"]), "nsb.m": ("NSB100", ["IntExpr"]),
                               "plug_strict": ("PLS100", ["IntExpr"]), "sol.m": ("SLP100", ["IntExpr"])}
        node_counts = {"IntExpr": 1, "NameExpr": 4, "StrExpr": 1}
        model_rows = []
        from concurrent.futures import ThreadPoolExecutor
        todo = target_lists[: ctx.budget(130, 700)]

        def one(job):
            k, tlist = job
            argv = ["t.py", "--enable-all", "--quiet"]
            for t in tlist:
                argv += ["--load", t]
            lg = td / f"calls_{k}.log"
            rc, out, err = L.cli(argv, cwd=str(td), env_extra=dict(env, C16_LOG=str(lg)))
            calls = [json.loads(l) for l in lg.read_text().splitlines()] if lg.exists() else []
            return argv, rc, out, err, calls
        with ThreadPoolExecutor(max_workers=12) as ex:
            results = list(ex.map(one, enumerate(todo)))
        for tlist, (argv, rc, out, err, calls) in zip(todo, results):
            loaded = set()
            for t in tlist:
                if names[t] == "builtin":
                    continue
                loaded |= set(names[t]) if names[t] else {t}
            ctx.case(("targets", tuple(tlist)), nontrivial=len(tlist) > 1, sample={"load": tlist, "calls": len(calls)} if len(tlist) == 2 and ctx.rng.random() < 0.2 else None)
            ctx.count("target-lists")
            if not L.clean_verdict(rc, out, err):
                ctx.report("load:crash", f"--load {tlist}: exit {rc}: " + (err.strip().splitlines() or ["?"])[-1][:150], {"argv": argv, "stderr": err[-1000:]})
                continue
            for mod, (code, kinds) in expected_per_module.items():
                n_calls = sum(1 for c in calls if c[0] == mod)
                want = sum(node_counts[k] for k in kinds) if mod in loaded else 0
                n_diag = sum(1 for l in out.splitlines() if f"[{code}]" in l)
                if n_calls != want or n_diag != want:
                    ctx.report("load:multiplicity", f"--load {tlist}: check {code} of {mod} was called {n_calls} times and reported {n_diag} diagnostics, expected {want}",
                               {"argv": argv, "module": mod, "calls": n_calls, "diagnostics": n_diag, "expected": want})
            model_rows.append((tlist, sorted(loaded)))
        # ---- correspondence of get_modules itself (in-process, import names)
        if b.ok:
            import importlib
            import sys
            sys.path.insert(0, str(td))
            try:
                from refurb.loader import get_modules
                rows = []
                for tlist in target_lists[: ctx.budget(130, 500)]:
                    real = [m.__name__ for m in get_modules(list(tlist)) if not m.__name__.startswith("refurb.checks")]

                    def tgt(t):
                        if names[t] == "builtin":
                            return 'Pkg "refurb.checks" ["refurb.checks.a"]'
                        if names[t] is None:
                            return f"Mod {S(t)}"
                        return f"Pkg {S(t)} {coq.coq_list([S(x) for x in names[t]])}"
                    rows.append("(%s, %s)" % (coq.coq_list([tgt(t) for t in tlist]), coq.coq_list([S(x) for x in real])))
                hdr = "From Lib Require Import Base Loader.\nOpen Scope list_scope.\nSet Printing Width 100000.\n"
                body = ("Definition cs : list (list target * list string) := [\n" + ";\n".join(rows) + "].\n"
                        "Definition model (ts : list target) := filter (fun m => negb (String.prefix \"refurb.checks\" m)) (get_modules (Pkg \"refurb.checks\" [\"refurb.checks.a\"%string]) ts).\n"
                        "Eval vm_compute in (fix go i l := match l with [] => [] | (ts, r) :: t => if list_eqb String.eqb (model ts) r then go (S i) t else i :: go (S i) t end) 0 cs.\n")
                (rc, out, err), = coq.eval_shards(ctx, "modules", hdr, [body])
                vals = coq.parse_eval_values(out)
                ok = rc == 0 and vals and vals[0].startswith("[]")
                ctx.obligation("correspondence: Lib/Loader.v get_modules = refurb.loader.get_modules (plugin modules, order included) on every target list", bool(ok),
                               (err or "")[-300:] + (vals[0] if vals else ""))
            finally:
                sys.path.remove(str(td))
                for k in [k for k in sys.modules if k.split(".")[0] in ("plug", "solo", "nsa", "nsb", "plug_strict", "sol")]:
                    del sys.modules[k]
        selections(ctx, td, env, log)
        shared_error_class(ctx, td, env, log)
        signatures(ctx, td, env, log)
        # one file under two import names (execution only: outside the model)
        if log.exists():
            log.unlink()
        env2 = dict(env)
        env2["PYTHONPATH"] = f"{td / 'plug'}:{env['PYTHONPATH']}"
        argv = ["t.py", "--quiet", "--load", "plug.x", "--load", "x"]
        rc, out, err = L.cli(argv, cwd=str(td), env_extra=env2)
        n = sum(1 for l in out.splitlines() if "[PLG100]" in l)
        ctx.case(("alias", "plug.x+x"), nontrivial=True, sample={"load": ["plug.x", "x"], "diagnostics": n})
        ctx.count("import-alias")
        if n != 1 or not L.clean_verdict(rc, out, err):
            ctx.report("load:same-file-two-names", f"`--load plug.x --load x` (the same file under two import names) reports PLG100 {n} times",
                       {"argv": argv, "pythonpath": env2["PYTHONPATH"], "stdout": out[-400:], "stderr": err[-400:]})
    finally:
        shutil.rmtree(td, ignore_errors=True)
    ctx.resolve_broken({"modules_once": "load:multiplicity",
                        "correspondence: Lib/Loader.v get_modules = refurb.loader.get_modules (plugin modules, order included) on every target list": ("load:",), "translate the check-function contract (loader.py, visitor.py, mapping.py)": "signature:",
                        "accepted_checks_are_callable_as_registered": "signature:", "well_formed_checks_are_accepted": "signature:"}, b.first_error)


def selections(ctx: Ctx, td: Path, env, log: Path) -> None:
    """A check that is not selected is never called at all; settings are injected."""
    base = ["t.py", "--quiet", "--load", "plug", "--load", "solo"]
    cases = [([], {"PLG100", "PLG101", "SOL100"}), (["--disable", "PLG100"], {"PLG101", "SOL100"}), (["--ignore", "PLG101"], {"PLG100", "SOL100"}),
             (["--enable", "PLG102"], {"PLG100", "PLG101", "PLG102", "SOL100"}), (["--disable-all", "--enable", "SOL100"], {"SOL100"}),
             (["--enable", "PLG103"], {"PLG100", "PLG101", "PLG103", "SOL100"}), (["--disable", "PLG100", "--disable", "PLG101"], {"SOL100"}),
             (["--disable", "#plugcat"], set()), (["--disable", "#plugcat", "--enable", "PLG101"], {"PLG101"}), (["--enable-all"], {"PLG100", "PLG101", "PLG102", "PLG103", "SOL100"}),
             (["--disable-all"], set()), (["--ignore", "#plugcat"], set()), (["--verbose"], {"PLG100", "PLG101", "SOL100"}),
             # checks that are off by default (PLG102, PLG103) under the all-switches combined with their category / code
             (["--enable-all", "--disable", "#plugcat"], set()), (["--enable-all", "--disable", "PLG102"], {"PLG100", "PLG101", "PLG103", "SOL100"}),
             (["--enable-all", "--ignore", "#plugcat"], set()), (["--enable", "#plugcat"], {"PLG100", "PLG101", "PLG102", "PLG103", "SOL100"}),
             (["--disable-all", "--enable", "#plugcat"], {"PLG100", "PLG101", "PLG102", "PLG103", "SOL100"}),
             (["--enable-all", "--disable", "#plugcat", "--enable", "PLG103"], {"PLG103"}), (["--enable", "PLG102", "--disable", "#plugcat"], {"PLG102"}),
             (["--disable", "#plugcat", "--enable-all"], {"PLG100", "PLG101", "PLG102", "PLG103", "SOL100"})]     # a later --enable-all clears earlier disables (README)
    for extra, want in cases:
        if log.exists():
            log.unlink()
        rc, out, err = L.cli(base + extra, cwd=str(td), env_extra=env)
        calls = [json.loads(l) for l in log.read_text().splitlines()] if log.exists() else []
        called = {c[1] for c in calls}
        reported = set(re.findall(r"\[((?:PLG|SOL)\d+)\]", out))
        ctx.case(("selection", tuple(extra)), nontrivial=True, sample={"options": extra, "called": sorted(called)})
        ctx.count("selections")
        if not L.clean_verdict(rc, out, err):
            ctx.report("selection:crash", f"options {extra}: exit {rc}: " + (err.strip().splitlines() or ["?"])[-1][:150], {"argv": base + extra, "stderr": err[-800:]})
            continue
        if called != want or reported != want:
            ctx.report("selection:called-when-unselected" if called - want else "selection:not-called",
                       f"options {extra}: plugin checks called {sorted(called)}, reported {sorted(reported)}, expected {sorted(want)}", {"argv": base + extra})
        for c in calls:
            if c[1] == "PLG101" and c[5] != ("--verbose" in extra):
                ctx.report("settings-not-injected", f"the check with a settings parameter saw verbose={c[5]} with options {extra}", {"argv": base + extra})
                break


SHARED_SECOND = '''from mypy.nodes import StrExpr, NameExpr
from refurb.error import Error
import json, os
from {origin} import ErrorInfo{alias}

def check(node: {node}, errors: list[Error]) -> None:
    with open(os.environ["C16_LOG"], "a") as f:
        f.write(json.dumps([__name__, "SHR100", "call", type(node).__name__, node.line, None]) + "\\n")
    errors.append({cls}.from_node(node))
'''


def shared_error_class(ctx: Ctx, td: Path, env, log: Path) -> None:
    """Several check modules of one plugin that report through ONE error class (imported from a sibling, under its own name or an
    alias): every module's check is registered and called; selecting or deselecting the code acts on all of them."""
    pkg = td / "shr"
    make_module(pkg / "first.py", "SHR", 100, "two", "IntExpr")
    (pkg / "__init__.py").write_text("")
    (pkg / "second.py").write_text(SHARED_SECOND.format(origin=".first", alias="", node="StrExpr", cls="ErrorInfo"))
    (pkg / "third.py").write_text(SHARED_SECOND.format(origin="shr.first", alias=" as Shared", node="NameExpr", cls="Shared").replace("import ErrorInfo as Shared", "import ErrorInfo as Shared\nErrorInfo = Shared"))
    (td / "t_shared.py").write_text("a = 1\nb = 'text'\nc = a\n")
    want_all = {"shr.first": "IntExpr", "shr.second": "StrExpr", "shr.third": "NameExpr"}
    for extra, want in (([], want_all), (["--disable", "SHR100"], {}), (["--disable-all", "--enable", "SHR100"], want_all), (["--enable-all"], want_all), (["--ignore", "SHR100"], {})):      # an ignored check is not loaded either
        for loads in ((["shr"], ["shr.second", "shr.first", "shr.third"], ["shr.third", "shr"]) if ctx.tier == "thorough" or not extra else (["shr"],)):
            if log.exists():
                log.unlink()
            rc, out, err = L.cli(["t_shared.py", "--quiet", *[x for m_ in loads for x in ("--load", m_)], *extra], cwd=str(td), env_extra=env)
            calls = [json.loads(l) for l in log.read_text().splitlines()] if log.exists() else []
            called = {c[0]: c[3] for c in calls}
            ctx.case(("shared-error-class", tuple(extra), tuple(loads)), nontrivial=True)
            ctx.count("shared-error-class")
            n_rep = len(re.findall(r"\[SHR100\]", out))
            if not L.clean_verdict(rc, out, err) or called != want or n_rep != (len(calls) if want and extra != ['--ignore', 'SHR100'] else 0):
                ctx.report("selection:shared-error-class", f"three check modules reporting through one error class, --load {loads} {extra}: called {sorted(called)}, expected {sorted(want)}; {n_rep} diagnostics",
                           {"argv": ["t_shared.py", "--quiet", "--load", *loads, *extra], "modules": {"shr/first.py": "defines ErrorInfo SHR100, check on IntExpr", "shr/second.py": "from .first import ErrorInfo, check on StrExpr",
                                                                                                      "shr/third.py": "from shr.first import ErrorInfo as Shared; ErrorInfo = Shared, check on NameExpr"},
                            "stdout": out[-400:], "stderr": err[-400:]})
                return


def signatures(ctx: Ctx, td: Path, env, log: Path) -> None:
    # the plugin module in the working directory, and (as an installed plugin is) somewhere else on the module path
    import tempfile as _tf
    other = Path(_tf.mkdtemp(prefix="c16-elsewhere-"))
    (other / "t.py").write_text((td / "t.py").read_text())
    env_other = dict(env)
    env_other["PYTHONPATH"] = f"{env.get('PYTHONPATH', L.ENV['PYTHONPATH'])}:{td}"
    try:
        for place, cwd_, env_ in (("", td, env), (":module-outside-the-working-directory", other, env_other)):
            _signatures_at(ctx, td, env_, log, place, cwd_)
    finally:
        shutil.rmtree(other, ignore_errors=True)


def _signatures_at(ctx: Ctx, td: Path, env, log: Path, place: str, cwd_: Path) -> None:
    for i, (name, (_, valid, takes_settings)) in enumerate(SIGS.items()):
        mod = f"sig_{i}"
        make_module(td / f"{mod}.py", "SIG", 100 + i, name)
        if log.exists():
            log.unlink()
        rc, out, err = L.cli(["t.py", "--quiet", "--load", mod], cwd=str(cwd_), env_extra=env)
        calls = [json.loads(l) for l in log.read_text().splitlines()] if log.exists() else []
        ctx.case(("signature", name, place), nontrivial=True, sample={"signature": name, "rc": rc, "out": out.strip()[:140]} if not place else None)
        ctx.count("signatures" + place)
        name = name + place
        if not L.clean_verdict(rc, out, err):
            ctx.report(f"signature:crash:{name}", f"check signature `{name}`: exit {rc}: " + (err.strip().splitlines() or ["?"])[-1][:150], {"signature": SIGS[name.split(':')[0]][0], "stderr": err[-800:], "cwd": "the plugin's directory" if not place else "another directory; the plugin is found through PYTHONPATH"})
            continue
        lines = [l for l in out.splitlines() if l.strip()]
        if valid:
            n = sum(1 for c in calls if c[0] == mod)
            want = 2 if name.split(":")[0] == "union" else 1
            if n != want or rc != 1 or not any(f"[SIG{100 + i}]" in l for l in lines) or any(l.startswith("sig_") is False and "Error" in l and "[SIG" not in l for l in lines):
                ctx.report(f"signature:valid-rejected:{name}", f"a valid check ({name}) was called {n} times (expected {want}); output: {out.strip()[:200]}",
                           {"signature": SIGS[name.split(":")[0]][0], "stdout": out[-500:]})
        else:
            ok = rc == 1 and len(lines) == 1 and not calls and (re.match(rf".*{mod}\.py:\d+: ", lines[0]) or name.split(":")[0] == "not-callable")
            if not ok:
                ctx.report(f"signature:invalid-not-rejected:{name}", f"an invalid check ({name}) was not rejected with `file:line: reason` and exit 1: rc={rc} {out.strip()[:200]!r}",
                           {"signature": SIGS[name.split(":")[0]][0], "rc": rc, "stdout": out[-500:], "calls": len(calls)})
