"""C11 — output is deterministic: independent of file order, grouping and history."""
from __future__ import annotations

import ast
import itertools
import json
import re
import os
import shutil
import subprocess
import tempfile
from concurrent.futures import ThreadPoolExecutor
from pathlib import Path

from .. import coq
from ..core import PY, REPO, Ctx
from ..harness import lint as L
from ..translate.catalogue import TranslateError
from .c10 import run_jobs

S = coq.coq_str


def translate(repo: Path) -> str:
    tree = ast.parse((repo / "refurb" / "main.py").read_text("utf8"))
    fn = next((n for n in tree.body if isinstance(n, ast.FunctionDef) and n.name == "sort_errors"), None)
    if fn is None:
        raise TranslateError("sort_errors not found")
    body = [s for s in fn.body if not (isinstance(s, ast.Expr) and isinstance(s.value, ast.Constant))]
    if (len(body) != 3 or ast.unparse(body[0]) != "if isinstance(error, str):\n    return ('', error)"
            or not isinstance(body[1], ast.If) or ast.unparse(body[1].test) != "settings.sort_by == 'error'"
            or len(body[1].body) != 1 or not isinstance(body[1].body[0], ast.Return) or not isinstance(body[2], ast.Return)):
        raise TranslateError("sort_errors changed shape")

    def fields(t):
        if not isinstance(t, ast.Tuple):
            raise TranslateError("sort key is not a tuple")
        out = []
        for e in t.elts:
            s = ast.unparse(e)
            m = {"error.filename or ''": "filename", "error.line": "line", "error.column": "column", "error.prefix": "prefix", "error.code": "code"}.get(s)
            if m is None:
                raise TranslateError(f"unrecognised sort key component {s}")
            out.append(m)
        return out
    ke, kf = fields(body[1].body[0].value), fields(body[2].value)
    # the report is sorted(...) of the filtered list with this key, nothing else
    rr = next(n for n in tree.body if isinstance(n, ast.FunctionDef) and n.name == "run_refurb")
    ret = rr.body[-1]
    if (isinstance(ret, ast.Try) and not ret.handlers and not ret.orelse
            and not any(isinstance(n, ast.Return) for st in ret.finalbody for n in ast.walk(st))):
        ret = ret.body[-1]                       # try: ...; return sorted(...) finally: <cleanup that does not return>
    if not isinstance(ret, ast.Return):
        raise TranslateError('run_refurb does not end in a return')
    want = "sorted([error for error in errors if not should_ignore_error(error, settings)], key=partial(sort_errors, settings=settings))"
    if ast.unparse(ret.value) != want:
        raise TranslateError("run_refurb no longer returns sorted(filtered errors, key=sort_errors)")
    return ("From Lib Require Import Base.\nOpen Scope list_scope.\n"
            f"Definition key_filename : list string := {coq.coq_list([S(x) for x in kf])}.\n"
            f"Definition key_error : list string := {coq.coq_list([S(x) for x in ke])}.\n"
            f"Definition process_state : list string := {coq.coq_list([S(x) for x in process_state(repo)])}.\n")



def process_state(repo: Path) -> list[str]:
    """Everything in refurb (outside `refurb gen`) that outlives one run_refurb call: memoised functions and
    module-level containers that some function mutates.  `cleared` = run_refurb empties it before it builds."""
    from ..translate.effects import MUTATORS
    main_src = (repo / "refurb" / "main.py").read_text("utf8")
    mt = ast.parse(main_src)
    rr = next((n for n in mt.body if isinstance(n, ast.FunctionDef) and n.name == "run_refurb"), None)
    cleared = set()
    if rr is not None:
        for n in ast.walk(rr):
            if isinstance(n, ast.Call) and isinstance(n.func, ast.Attribute) and n.func.attr in ("cache_clear", "clear") and isinstance(n.func.value, ast.Name):
                cleared.add(n.func.value.id)
    out = []
    for p in sorted((repo / "refurb").rglob("*.py")):
        rel = str(p.relative_to(repo))
        if rel == "refurb/gen.py":
            continue
        tree = ast.parse(p.read_text("utf8"))
        for n in ast.walk(tree):
            if isinstance(n, (ast.FunctionDef, ast.AsyncFunctionDef)):
                for d in n.decorator_list:
                    name = ast.unparse(d.func if isinstance(d, ast.Call) else d).split(".")[-1]
                    if name in ("cache", "lru_cache", "cached_property"):
                        out.append(f"memo:{rel}:{n.name}:{'cleared-each-run' if n.name in cleared and rel == 'refurb/main.py' else 'never-cleared'}")
        module_names = {}
        for n in tree.body:
            if isinstance(n, (ast.Assign, ast.AnnAssign)) and n.value is not None:
                v = ast.unparse(n.value)
                if re.fullmatch(r"(set|dict|list|defaultdict|deque|Counter)(\[.*\])?\(.*\)|\[.*\]|\{.*\}", v, flags=re.S):
                    for t in (n.targets if isinstance(n, ast.Assign) else [n.target]):
                        if isinstance(t, ast.Name):
                            module_names[t.id] = v
        mutated = set()
        for fn in [x for x in ast.walk(tree) if isinstance(x, (ast.FunctionDef, ast.AsyncFunctionDef))]:
            for n in ast.walk(fn):
                if isinstance(n, ast.Call) and isinstance(n.func, ast.Attribute) and n.func.attr in MUTATORS and isinstance(n.func.value, ast.Name) and n.func.value.id in module_names:
                    mutated.add(n.func.value.id)
                tg = n.targets if isinstance(n, (ast.Assign, ast.Delete)) else [n.target] if isinstance(n, ast.AugAssign) else []
                for t in tg:
                    if isinstance(t, ast.Subscript) and isinstance(t.value, ast.Name) and t.value.id in module_names:
                        mutated.add(t.value.id)
                if isinstance(n, ast.Global):
                    mutated |= set(n.names)
        for name in sorted(mutated):
            out.append(f"container:{rel}:{name}:{'cleared-each-run' if name in cleared and rel == 'refurb/main.py' else 'never-cleared'}")
    return sorted(out)


PROGS = {
    "m_a.py": "x = int(0)\ny = not not x\nprint('')\nxs = [1]\nz = xs[:]\n",
    "m_b.py": "import itertools\nf = lambda p, q: p + q\nr = [f(a, b) for a, b in zip([1], [2])]\nw = str('')\n",
    "m_c.py": "def g(xs: list[int]) -> list[int]:\n    out = []\n    for a in xs:\n        out.append(a)\n    return out\nv = int(0)\n",
    "m_d.py": "d = {}\nd2 = {**d, 'k': 1}\nu = d.copy() | {}\nfor k in d.keys():\n    pass\ns = 'ab'\nif s.startswith('a'):\n    s = s[1:]\n",
}


def in_process(script: str, cwd: str, timeout=600):
    p = subprocess.run([PY, "-c", script], capture_output=True, text=True, env=L.ENV, cwd=cwd, timeout=timeout)
    lines = [l for l in p.stdout.splitlines() if l.startswith("RESULT ")]
    return [json.loads(l[7:]) for l in lines], p.stderr[-1500:]


PRELUDE = """
import json, sys
from refurb.main import run_refurb
from refurb.settings import Settings
def go(files, **kw):
    try:
        out = run_refurb(Settings(files=files, enable_all=True, quiet=True, **kw))
        print("RESULT " + json.dumps([str(e) for e in out]))
    except BaseException as e:
        print("RESULT " + json.dumps(["<%s: %s>" % (type(e).__name__, e)]))
"""


def run(ctx: Ctx) -> None:
    ctx.trusted_base += [
        "Coq 8.16.1 kernel",
        "tools/vf/props/c11.py translate(): the sort key tuples of sort_errors and the shape `sorted(filtered, key=...)` of run_refurb's result",
        "Python's sorted() is a stable sort by the key (modelled as insertion sort; equal for pairwise distinct keys)",
    ]
    ctx.assumptions += ["mypy does not read its on-disk cache in the configuration refurb sets (cold/warm and concurrent runs are decided by execution only: partial)",
                        "diagnostics of one run have pairwise distinct (file, line, column, code) keys"]
    ctx.rule("4 program files: all permutations of the file arguments, all 2-block partitions, both sort modes (fresh process each); "
             "histories in one process (re-run, re-run after an edit, several files in sequence); cold vs warm cache; 4 concurrent CLI runs in one directory; "
             "non-trivial = run with at least one diagnostic; distinct by scenario")
    b = None
    try:
        gen = translate(REPO)
    except TranslateError as e:
        ctx.obligation("translate sort_errors", False, str(e))
        gen = None
    if gen is not None:
        gens, order = {"GenSortKey": gen}, ["GenSortKey", "C11", "C11State"]
        # the per-path ignore test iterates a set: translated from source and proved independent of the iteration order (Props/C12/C12Amend.v)
        try:
            from ..translate.amend import translate as translate_amend
            gens["GenAmend"] = translate_amend(REPO)
            gens["C12Amend"] = (coq.PROPS / "C12" / "C12Amend.v").read_text()
            order += ["GenAmend", "C12Amend"]
        except Exception as e:  # noqa: BLE001
            ctx.obligation("translate is_ignored_via_amend (iteration over the set settings.ignore)", False, f"{type(e).__name__}: {e}")
        b = coq.compile_props(ctx, gens, order)
        coq.record_build(ctx, b)
    rng = ctx.rng
    td = tempfile.mkdtemp(prefix="c11-")
    try:
        files = []
        for name, src in PROGS.items():
            (Path(td) / name).write_text(src)
            files.append(str(Path(td) / name))
        perms = list(itertools.permutations(files))
        if ctx.tier != "thorough":
            perms = [perms[0]] + rng.sample(perms[1:], 7)
        jobs = [{"id": f"perm{i}:{sb}", "files": list(p), "mode": "all", "extra": {"sort_by": sb}} for i, p in enumerate(perms) for sb in ("filename", "error")]
        parts = [(a, [f for f in files if f not in a]) for r in (1, 2) for a in map(list, itertools.combinations(files, r))]
        for i, (a, bb) in enumerate(parts[: ctx.budget(5, 10)]):
            jobs.append({"id": f"part{i}:a", "files": a, "mode": "all", "extra": {"sort_by": "filename"}})
            jobs.append({"id": f"part{i}:b", "files": bb, "mode": "all", "extra": {"sort_by": "filename"}})
        res = run_jobs(jobs, workers=14)
        def diags(jid):  # noqa: E306
            r = res.get(jid, {})
            return r.get("out"), r.get("error")
        for sb in ("filename", "error"):
            ref, err = diags(f"perm0:{sb}")
            if ref is None:
                ctx.obligation("reference run", False, str(err))
                continue
            keyf = (lambda d: (d[0], d[1], d[2], d[3])) if sb == "filename" else (lambda d: (d[3][:4], int(d[3][4:]), d[0], d[1], d[2]))
            if ref != sorted(ref, key=keyf):
                ctx.report(f"not-sorted:{sb}", f"--sort {sb}: the report is not in the documented order", {"report": ref[:6]})
            for i in range(1, len(perms)):
                out, err = diags(f"perm{i}:{sb}")
                ctx.case(("perm", i, sb), nontrivial=bool(out), sample={"order": [Path(f).name for f in perms[i]], "sort": sb, "n": len(out or [])} if i == 1 else None)
                ctx.count("permutation")
                if out != ref:
                    ctx.report("file-order-matters", f"file order {[Path(f).name for f in perms[i]]} gives a different report than {[Path(f).name for f in perms[0]]} (--sort {sb})",
                               {"order": list(perms[i]), "sort": sb, "only_here": [d for d in (out or []) if d not in ref][:3], "missing": [d for d in ref if d not in (out or [])][:3], "error": err})
        ref, _ = diags("perm0:filename")
        for i, (a, bb) in enumerate(parts[: ctx.budget(5, 10)]):
            oa, _ = diags(f"part{i}:a")
            ob, _ = diags(f"part{i}:b")
            ctx.case(("part", i), nontrivial=True)
            ctx.count("partition")
            if ref is not None and sorted((oa or []) + (ob or [])) != sorted(ref):
                ctx.report("grouping-matters", f"checking {[Path(f).name for f in a]} and the rest separately differs from checking all together",
                           {"group": a, "diff": [d for d in ref if d not in (oa or []) + (ob or [])][:3]})
        # ---- the tie: model report order = real order
        if b is not None and b.ok and ref:
            rows = []
            for sb, names in (("filename", "key_filename"), ("error", "key_error")):
                out, _ = diags(f"perm0:{sb}")
                sh = list(out)
                rng.shuffle(sh)
                mk = lambda d: "{| d_file := %s; d_line := %d; d_col := %d; d_prefix := %s; d_code := %d |}" % (S(d[0]), d[1], d[2], S(d[3][:4]), int(d[3][4:]))  # noqa: E731
                rows.append(f"Eval vm_compute in (list_eqb (list_eqb fld_eqb) (report {names} {coq.coq_list([mk(d) for d in sh])}) (map (key {names}) {coq.coq_list([mk(d) for d in out])})).")
            hdr = "From Lib Require Import Base Sort.\nFrom P Require Import GenSortKey C11.\nOpen Scope list_scope.\n"
            (rc, o, e), = coq.eval_shards(ctx, "sort", hdr, ["\n".join(rows) + "\n"])
            vals = coq.parse_eval_values(o)
            ctx.obligation("correspondence: Coq report (insertion sort by the translated key) = order of the real report, both sort modes",
                           rc == 0 and vals == ["true", "true"], (e or "")[-300:] + str(vals))
        histories(ctx, td, files)
        cache_and_concurrency(ctx, td, files)
        hash_seeds(ctx, td, files)
        overlapping_arguments(ctx, td)
        configured_cache(ctx, td)
        recursion_limit_files(ctx, td)
    finally:
        shutil.rmtree(td, ignore_errors=True)
    ctx.resolve_broken({"translate is_ignored_via_amend (iteration over the set settings.ignore)": "history:", "amend_order_irrelevant": "history:", "amend_translated_is_the_model": "history:",
                        "process_state_inventory": "history:", "sort_perm_invariant": "file-order-matters", "partition_invariant": "grouping-matters",
                        "key_order_documented": "not-sorted", "sorted_output": "not-sorted", "key_total_on_distinct": "not-sorted",
                        "report_example": "not-sorted", "translate sort_errors": "not-sorted"}, b.first_error if b else "")


def histories(ctx: Ctx, td: str, files: list[str]) -> None:
    f0, f1, f2, f3 = files
    edited = Path(td) / "edit.py"
    base_src = "a = int(0)\nb = not not a\nprint('')\nc = str('')\n"
    new_src = "# a new first line\na = int(0)\nb = not not a  # noqa\nprint('')\nc = str('')\nd = int(0)\n"
    scen = {
        "rerun-same-process": f"go({[f0, f1]!r}); go({[f0, f1]!r})",
        "sequence-in-one-process": "".join(f"go([{f!r}]); " for f in (f0, f1, f2, f3, f0, f1, f2, f3)),
        "rerun-after-edit": f"import pathlib\np = pathlib.Path({str(edited)!r})\np.write_text({base_src!r})\ngo([str(p)])\np.write_text({new_src!r})\ngo([str(p)])",
        "many-runs-id-reuse": "".join(f"go([{f!r}]); " for f in (f1, f1, f1, f1, f1, f1)),
    }
    # checks that remember `id(node)` of nodes they have dealt with, in module-level sets that are never emptied:
    # once the trees of an earlier run are freed, nodes of a later run can be given the same ids
    big_a = Path(td) / "ids_a.py"
    big_b = Path(td) / "ids_b.py"
    head = "def f(a, b):\n    return a + b\nps = [(1, 2)]\n"
    big_a.write_text(head + "".join(f"x{i} = [f(a, b) for a, b in ps]\n" for i in range(300)))
    big_b.write_text(head + "".join(f"y{i} = list(f(a, b) for a, b in ps)\n" for i in range(300)))
    scen["stale-node-ids"] = "import gc\n" + "".join(f"go([{str(big_a)!r}]); gc.collect(); go([{str(big_b)!r}]); gc.collect(); " for _ in range(4))
    # the settings change between the runs of one process (an editor integration checking projects with different targets): the report of
    # each run is what a fresh process gives for the same file and settings.  The file roots expressions at literals and goes through
    # builtin methods that exist only from some version on, so that whatever a run remembers about builtins would show.
    ver = Path(td) / "versions.py"
    ver.write_text("names = ['a', 'b']\nflag = True\nx = str(', '.join(names).removesuffix(', '))\ny = str(f'{names}'.removeprefix('['))\nz = int((1).bit_count())\n"
                   "w = bool(''.isascii())\nv = str('a,b'.split(',')[0])\nu = list([1, 2][::-1])\nt = dict({'k': 1} | {'j': 2})\ns = bin(7).count('1')\n"
                   "r = str('x') if flag else str(b'x'.hex(':'))\n")
    setting_runs = [("python_version=(3, 8)", ), ("", ), ("python_version=(3, 12)", ), ("python_version=(3, 8)", ), ("python_version=(3, 9)", ), ("", ), ("python_version=(3, 10)", ), ("python_version=(3, 7)", )]
    def _go(kw):  # noqa: E306
        return f"go([{str(ver)!r}]" + (", " + kw if kw else "") + ")"
    fresh_settings = {}
    for (kw,) in setting_runs:
        if kw not in fresh_settings:
            r, err = in_process(PRELUDE + _go(kw), td)
            fresh_settings[kw] = r[0] if r else [f"<no result: {err[-200:]}>"]
    res_s, err_s = in_process(PRELUDE + "; ".join(_go(kw) for (kw,) in setting_runs), td)
    for idx, ((kw,), got_) in enumerate(zip(setting_runs, res_s + [None] * len(setting_runs))):
        ctx.case(("history", "settings-change", idx), nontrivial=True)
        ctx.count("history-settings-change")
        if got_ != fresh_settings[kw]:
            ctx.report("history:settings-change-between-runs", f"run #{idx + 1} of a process whose runs use different target versions ({kw or 'default target'}) differs from the same run in a fresh process: "
                       f"only here {[x for x in (got_ or []) if x not in fresh_settings[kw]][:2]} / missing {[x for x in fresh_settings[kw] if x not in (got_ or [])][:2]}",
                       {"file": ver.read_text(), "runs": [k_ or "default" for (k_,) in setting_runs], "run": idx + 1, "got": got_, "fresh": fresh_settings[kw], "stderr": err_s[-400:]})
            break
    fresh = {}
    for f in [f0, f1, f2, f3, str(big_a), str(big_b)]:
        r, err = in_process(PRELUDE + f"go([{f!r}])", td)
        fresh[f] = r[0] if r else [f"<no result: {err[-200:]}>"]
    r, _ = in_process(PRELUDE + f"go({[f0, f1]!r})", td)
    fresh["pair"] = r[0] if r else None
    for name, script in scen.items():
        res, err = in_process(PRELUDE + script, td)
        ctx.case(("history", name), nontrivial=True, sample={"history": name, "runs": len(res)})
        ctx.count("history")
        if name == "rerun-same-process":
            want = [fresh["pair"], fresh["pair"]]
        elif name == "sequence-in-one-process":
            want = [fresh[f] for f in (f0, f1, f2, f3, f0, f1, f2, f3)]
        elif name == "many-runs-id-reuse":
            want = [fresh[f1]] * 6
        elif name == "stale-node-ids":
            want = [fresh[str(big_a)], fresh[str(big_b)]] * 4
        else:
            edited.write_text(new_src)
            r2, _ = in_process(PRELUDE + f"go([{str(edited)!r}])", td)
            edited.write_text(base_src)
            r1, _ = in_process(PRELUDE + f"go([{str(edited)!r}])", td)
            want = [r1[0] if r1 else None, r2[0] if r2 else None]
        if res != want:
            idx = next((i for i, (a, b) in enumerate(zip(res, want)) if a != b), min(len(res), len(want)))
            got_i = res[idx] if idx < len(res) else None
            miss = [x for x in (want[idx] or []) if x not in (got_i or [])] if idx < len(want) else []
            extra = [x for x in (got_i or []) if idx < len(want) and x not in (want[idx] or [])]
            # the one way history is known to leak (see known_findings): diagnostics of the id-remembering checks go missing, nothing else changes
            stale = bool(miss) and not extra and all(re.search(r"\[FURB(140|179|183|185|188)\]", x) for x in miss)
            ctx.report("history:stale-node-ids" if stale else f"history:{name}", f"run #{idx + 1} of history `{name}` differs from the same run in a fresh process: "
                       f"{[x for x in (got_i or []) if x not in (want[idx] or [])][:2]} / missing {[x for x in (want[idx] or []) if x not in (got_i or [])][:2]}",
                       {"history": name, "script": script[:3000], "run": idx + 1, "got": (got_i or [])[:40], "fresh": (want[idx] if idx < len(want) else None or [])[:40],
                        "n_got": len(got_i or []), "n_fresh": len(want[idx] or []) if idx < len(want) else None, "stderr": err[-500:]})


def overlapping_arguments(ctx: Ctx, td: str) -> None:
    """Arguments that name the same source more than once (a folder and a file inside it, a file twice, two spellings of one
    file): whatever refurb answers -- diagnostics or an error line -- it answers for every order of the same arguments."""
    wd = Path(td) / "overlap"
    (wd / "pkg").mkdir(parents=True)
    for name, src in (("alpha.py", "x = int(0)\n"), ("beta.py", "y = not not 1\n"), ("gamma.py", "z = str('')\n")):
        (wd / "pkg" / name).write_text(src)
    (wd / "solo.py").write_text("s = int(1)\n")
    sets = [["pkg", "pkg/alpha.py"], ["pkg", "pkg/gamma.py"], ["pkg/alpha.py", "pkg/beta.py", "pkg/alpha.py"], ["solo.py", "./solo.py"],
            ["pkg", "solo.py", "pkg/beta.py"], ["pkg/alpha.py", "pkg", "pkg/gamma.py"]]
    jobs = []
    for si, args in enumerate(sets):
        for pi, perm in enumerate(sorted(set(itertools.permutations(args)))):
            jobs.append((si, pi, list(perm)))
    with ThreadPoolExecutor(max_workers=12) as ex:
        outs = list(ex.map(lambda j: L.cli([*j[2], "--quiet"], cwd=str(wd)), jobs))
    by_set: dict[int, list] = {}
    for (si, pi, perm), (rc, out, err) in zip(jobs, outs):
        # an error line may quote the arguments in the order given: compare the kind of answer and the diagnostics
        diags = sorted(l for l in out.splitlines() if "[FURB" in l)
        kind = "diagnostics" if diags else ("error:" + " ".join(sorted(set(re.findall(r"Duplicate module named|source file found twice|error", out))))) if out.strip() else "nothing"
        by_set.setdefault(si, []).append((perm, rc, kind, diags))
        ctx.case(("overlap", tuple(perm)), nontrivial=True, sample={"argv": perm, "rc": rc, "answer": kind} if si == 0 else None)
        ctx.count("overlapping-arguments")
    for si, rows in by_set.items():
        answers = {(rc, kind, tuple(diags)) for _, rc, kind, diags in rows}
        if len(answers) > 1:
            a, b2 = rows[0], next(r for r in rows if (r[1], r[2], tuple(r[3])) != (rows[0][1], rows[0][2], tuple(rows[0][3])))
            ctx.report("file-order-matters:overlapping-arguments", f"`refurb {' '.join(a[0])}` answers {a[2]} (exit {a[1]}) but `refurb {' '.join(b2[0])}` answers {b2[2]} (exit {b2[1]})",
                       {"argv_a": a[0], "answer_a": [a[1], a[2], a[3]], "argv_b": b2[0], "answer_b": [b2[1], b2[2], b2[3]]})


def hash_seeds(ctx: Ctx, td: str, files: list[str]) -> None:
    """The same command in fresh processes that differ only in the interpreter's string-hash seed (what a user
    gets from one invocation to the next).  The settings exercise every set-valued option: several codes and
    categories ignored, enabled and disabled, and amend tables naming several classifiers for one path."""
    wd = Path(td) / "seeds"
    wd.mkdir()
    rels = [os.path.relpath(f, wd) for f in files]
    base_rc, base, _ = L.cli([*rels, "--enable-all", "--quiet"], cwd=str(wd))
    codes = sorted({l.split("[")[1].split("]")[0] for l in base.splitlines() if "[" in l})
    configs = {
        "amend-several-codes-one-path": '[tool.refurb]\nenable_all = true\n[[tool.refurb.amend]]\npath = ".."\nignore = %s\n' % json.dumps(codes[:6]),
        "amend-two-tables-one-path": '[tool.refurb]\nenable_all = true\n' + "".join(
            '[[tool.refurb.amend]]\npath = "../%s"\nignore = %s\n' % (sp, json.dumps(cs)) for sp, cs in ((".", codes[:2]), ("", codes[2:4] + ["#pathlib"]), ("./", codes[4:5] + ["#readability"]))),
        "sets-everywhere": '[tool.refurb]\nignore = %s\ndisable = %s\nenable = %s\n' % (json.dumps(codes[:2] + ["#pathlib"]), json.dumps(codes[2:4] + ["#builtin"]), json.dumps(["FURB120", "FURB184", "#string"])),
    }
    seeds = ["0", "1", "2", "3", "5", "11", "1234", "random"]
    for name, text in configs.items():
        (wd / "cfg.toml").write_text(text)
        with ThreadPoolExecutor(max_workers=8) as ex:
            outs = list(ex.map(lambda sd: L.cli([*rels, "--config-file", "cfg.toml", "--quiet"], cwd=str(wd), env_extra={"PYTHONHASHSEED": sd}), seeds))
        distinct = sorted({(o[0], o[1]) for o in outs}, key=lambda x: (len(x[1]), x[1]))
        ctx.case(("hash-seed", name), nontrivial=True, sample={"config": name, "seeds": seeds, "distinct_reports": len(distinct), "lines": len(outs[0][1].splitlines())})
        ctx.count("hash-seeds", len(seeds))
        if len(distinct) > 1:
            a, b2 = distinct[0][1].splitlines(), distinct[-1][1].splitlines()
            ctx.report("history:hash-seed", f"the same command with config `{name}` prints {len(distinct)} different reports in fresh processes that differ only in PYTHONHASHSEED",
                       {"config": text, "argv": [*rels, "--config-file", "cfg.toml", "--quiet"], "seeds": dict(zip(seeds, [len(o[1].splitlines()) for o in outs])),
                        "only_in_some": sorted(set(a) ^ set(b2))[:6]})


def cache_and_concurrency(ctx: Ctx, td: str, files: list[str]) -> None:
    wd = Path(td) / "work"
    wd.mkdir()
    rels = [os.path.relpath(f, wd) for f in files]
    rc, cold, _ = L.cli([*rels, "--enable-all", "--quiet"], cwd=str(wd))
    rc2, warm, _ = L.cli([*rels, "--enable-all", "--quiet"], cwd=str(wd))
    ctx.case(("cache", "cold-vs-warm"), nontrivial=True, sample={"cold_lines": len(cold.splitlines()), "cache_dir": (wd / ".mypy_cache").exists()})
    ctx.count("cache")
    if cold != warm or rc != rc2:
        ctx.report("cache:cold-vs-warm", "the second run in the same directory (warm .mypy_cache) prints a different report", {"cold": cold[-500:], "warm": warm[-500:]})
    shutil.rmtree(wd / ".mypy_cache", ignore_errors=True)
    with ThreadPoolExecutor(max_workers=4) as ex:
        outs = list(ex.map(lambda i: L.cli([*rels, "--enable-all", "--quiet"], cwd=str(wd)), range(4)))
    ctx.case(("cache", "concurrent"), nontrivial=True)
    ctx.count("concurrent")
    if any(o[1] != cold or o[0] != rc for o in outs):
        bad = next(o for o in outs if o[1] != cold or o[0] != rc)
        ctx.report("cache:concurrent", "four concurrent runs sharing one cache directory do not all print the same report", {"expected": cold[-400:], "got": bad[1][-400:], "stderr": bad[2][-400:]})


CACHE_APP = '''\
from shapes import Shape, greet

square = Shape().unit()
print(square.area(), greet("x", "hi"), greet("x", "yo"))
nums = [1]
print(int(0), list(nums))
'''
CACHE_LIB = '''\
class Shape:
    def __init__(self, sides: int = 4) -> None:
        self.sides = sides

    @staticmethod
    def unit() -> "Shape":
        return Shape(4)

    def area(self) -> int:
        return self.sides


def greet(name: str, greeting: str = "hi") -> str:
    return greeting + name
'''
# where a project can say which cache directory mypy is to use: (label, files to write, extra arguments, extra environment)
CACHE_CONFIGS = [
    ("default", {}, [], {}),
    ("mypy.ini", {"mypy.ini": "[mypy]\ncache_dir = .cache/mypy\n"}, [], {}),
    ("pyproject-tool-mypy", {"pyproject.toml": "[tool.mypy]\ncache_dir = \".cache/mypy\"\n"}, [], {}),
    ("setup.cfg", {"setup.cfg": "[mypy]\ncache_dir = build/mypy\n"}, [], {}),
    ("mypy-argument", {}, ["--", "--cache-dir", ".cache/arg"], {}),
    ("environment", {}, [], {"MYPY_CACHE_DIR": ".cache/env"}),
    ("incremental-in-config", {"mypy.ini": "[mypy]\nincremental = True\ncache_dir = .cache/mypy\nsqlite_cache = True\n"}, [], {}),
]


def configured_cache(ctx: Ctx, td: str) -> None:
    """A checked file that uses definitions of a module NOT on the command line, in a project that
    configures mypy's cache directory: the report of every run of a history (cold, repeat, after a
    comment-only edit of the imported module, repeat, imported module named too, cache removed) is
    the same, and after an edit that changes the report it is what a fresh directory gives."""
    def one(cfg):
        label, extra_files, extra_args, extra_env = cfg
        wd = Path(td) / f"cachecfg-{label}"
        fresh = Path(td) / f"cachecfg-{label}-fresh"
        for d in (wd, fresh):
            d.mkdir()
            (d / "app.py").write_text(CACHE_APP)
            (d / "shapes.py").write_text(CACHE_LIB)
            for n, t in extra_files.items():
                (d / n).write_text(t)
        runs = []

        def go_(name, files, where=wd):
            rc, out, err = L.cli([*files, "--quiet", "--enable-all", *extra_args], cwd=str(where), env_extra=extra_env)
            runs.append((name, rc, "\n".join(l for l in out.splitlines() if l.startswith("app.py")), err[-300:]))

        go_("cold", ["app.py"])
        go_("repeat", ["app.py"])
        st = (wd / "shapes.py").stat()
        (wd / "shapes.py").write_text(CACHE_LIB + "# a comment\n")
        os.utime(wd / "shapes.py", (st.st_atime + 5, st.st_mtime + 5))
        go_("after-comment-edit", ["app.py"])
        go_("repeat-2", ["app.py"])
        go_("with-imported-module-named", ["app.py", "shapes.py"])
        for c in (".mypy_cache", ".cache", "build"):
            shutil.rmtree(wd / c, ignore_errors=True)
        go_("cache-removed", ["app.py"])
        go_("repeat-3", ["app.py"])
        same = list(runs)
        # an edit that changes the report: the default of greet() becomes "yo"
        edited = CACHE_LIB.replace('greeting: str = "hi"', 'greeting: str = "yo"')
        for d in (wd, fresh):
            (d / "shapes.py").write_text(edited)
        os.utime(wd / "shapes.py", (st.st_atime + 10, st.st_mtime + 10))
        runs.clear()
        go_("fresh-directory-after-edit", ["app.py"], fresh)
        go_("after-semantic-edit", ["app.py"])
        go_("repeat-4", ["app.py"])
        return label, same, list(runs)

    with ThreadPoolExecutor(max_workers=len(CACHE_CONFIGS)) as ex:
        results = list(ex.map(one, CACHE_CONFIGS))
    for label, same, after in results:
        for group, tag in ((same, "history"), (after, "edit")):
            ref = group[0]
            for name, rc, out, err in group:
                ctx.case(("cache-config", label, name), nontrivial=True)
                ctx.count("configured-cache-runs")
            if not ref[2].strip():
                ctx.report(f"cache-config:{label}:no-report", f"the {label} project gives no diagnostics for app.py on its first run (status {ref[1]}): {ref[3]}", {"config": label})
                continue
            bad = next((r for r in group if (r[1], r[2]) != (ref[1], ref[2])), None)
            if bad:
                ctx.report(f"cache-config:{label}:{tag}", f"cache directory configured by {label}: run '{bad[0]}' prints a different report for app.py than run '{ref[0]}' (same files, same settings)",
                           {"config": label, "app.py": CACHE_APP, "shapes.py": CACHE_LIB, "runs": [{"run": r[0], "status": r[1], "report": r[2]} for r in group],
                            "steps": "cold, repeat, append a comment to shapes.py, repeat, name shapes.py too, remove the cache, repeat; then change greet()'s default and compare with a fresh directory"})


def recursion_limit_files(ctx: Ctx, td: str) -> None:
    """Files whose traversal exhausts the interpreter's recursion limit at different depths (refurb goes on with the next file), next to
    ordinary ones: what is reported for each file is the same whatever comes before it, after it, or alone."""
    d = Path(td) / "deep"
    d.mkdir()
    srcs = {"shallow.py": "x = int(0)\ny = x in (1,)\n"}
    for n in (250, 400, 700, 900):
        srcs[f"chain{n}.py"] = "a = 1\nfirst = int(0)\ntotal = a" + " + a" * n + "\nlast = a in (1,)\nnums = [1]\nnums.append(2)\nnums.append(3)\n"
    for name, text in srcs.items():
        (d / name).write_text(text)
    names = sorted(srcs)
    orders = [[n] for n in names] + [["chain400.py", "chain700.py"], ["chain700.py", "chain400.py"], ["chain250.py", "chain900.py", "shallow.py"], ["chain900.py", "shallow.py", "chain250.py"],
              ["shallow.py", "chain700.py", "chain400.py"], ["chain700.py", "shallow.py", "chain400.py", "chain250.py"], names, names[::-1]]
    jobs = [{"id": f"deep{i}", "files": [str(d / n) for n in o], "mode": "all", "extra": {"sort_by": "filename"}} for i, o in enumerate(orders)]
    res = run_jobs(jobs, workers=len(jobs))          # one fresh process per order
    alone = {}
    for i, o in enumerate(orders):
        r = res.get(f"deep{i}", {})
        out = r.get("out")
        ctx.case(("recursion-limit-files", tuple(o)), nontrivial=True)
        ctx.count("recursion-limit-orders")
        if out is None:
            ctx.report("file-order-matters:recursion-limit:crash", f"checking {o} fails: {str(r.get('error'))[:200]}", {"order": o})
            continue
        per = {n: sorted({tuple(x) for x in out if Path(x[0]).name == n}) for n in set(o)}
        if len(o) == 1:
            alone[o[0]] = per[o[0]]
            continue
        for n in sorted(set(o)):
            if n in alone and per[n] != alone[n]:
                ctx.report("file-order-matters:recursion-limit", f"{n} checked in the order {o} gets {len(per[n])} diagnostics, alone it gets {len(alone[n])}",
                           {"order": o, "file": n, "alone": [list(x[1:]) for x in alone[n]], "in_this_order": [list(x[1:]) for x in per[n]],
                            "content": "a = 1; first = int(0); total = a + a + ... (N terms); last = a in (1,); nums = [1]; nums.append(2); nums.append(3)"})
                break
