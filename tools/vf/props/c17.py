"""C17 — the check catalogue is coherent and its documentation is truthful."""
from __future__ import annotations

import re
import shutil
import subprocess
import tempfile
import textwrap
import tomllib
from pathlib import Path

from .. import coq
from ..core import PY, REPO, Ctx
from ..translate.catalogue import TranslateError, catalogue

S = coq.coq_str


def clean_doc(doc: str | None) -> str:
    return textwrap.dedent(doc or "").strip()


def md_body(doc: str | None) -> str:
    return re.sub(r"```([\s\S]*?)```", r"```python\1```", clean_doc(doc))


def parse_checks_md(text: str) -> list[tuple[str, str, str]]:
    m = re.search(r"# Available Checks", text)
    if not m:
        raise TranslateError("docs/checks.md: header not found")
    rest = text[m.end():]
    secs = re.split(r"\n\n(?=## [A-Z]{3,4}\d{3}: `)", rest)
    if secs and secs[0] == "":
        secs = secs[1:]
    out = []
    for s in secs:
        parts = s.split("\n\n", 2)
        if len(parts) < 2:
            raise TranslateError(f"docs/checks.md: malformed section {s[:40]!r}")
        out.append((parts[0], parts[1], parts[2] if len(parts) > 2 else ""))
    return out


def translate(ctx: Ctx):
    cat = catalogue(REPO)
    md = parse_checks_md((REPO / "docs" / "checks.md").read_text("utf8"))
    toml = tomllib.loads((REPO / "docs" / "configs" / "default.toml").read_text("utf8"))
    disable = toml.get("disable")
    if not isinstance(disable, list) or not all(isinstance(x, str) for x in disable):
        raise TranslateError("default.toml: disable is not a list of strings")
    cats_md = [x for h in re.findall(r"^## (.*)$", (REPO / "docs" / "categories.md").read_text("utf8"), flags=re.M)
               for x in re.findall(r"`([^`]+)`", h)]
    lines = ["From Lib Require Import Base Catalogue.", "Definition catalogue : list chk := ["]
    rows = []
    for c in cat:
        rows.append(
            "  {| c_mod := %s; c_cls := %s; c_prefix := %s; c_code := %d%%N; c_name := %s;\n"
            "     c_cats := %s; c_enabled := %s; c_has_doc := %s; c_doc := %s |}"
            % (S(c["module"]), S(c["class"]), S(c["prefix"]), c["code"],
               coq.coq_opt(c["name"], S), coq.coq_list([S(x) for x in c["categories"]]),
               coq.coq_bool(c["enabled"]), coq.coq_bool(c["doc"] is not None), S(clean_doc(c["doc"])))
        )
    lines.append(";\n".join(rows) + "].")
    lines.append("Definition md_bodies_expected : list string := "
                 + coq.coq_list([S(md_body(c["doc"])) for c in cat]) + ".")
    lines.append("Definition checks_md : list md_entry := " + coq.coq_list(
        ["{| md_header := %s; md_cats := %s; md_body := %s |}" % (S(h), S(k), S(b)) for h, k, b in md]) + ".")
    lines.append("Definition default_toml_disable : list string := " + coq.coq_list([S(x) for x in disable]) + ".")
    lines.append("Definition documented_categories : list string := " + coq.coq_list([S(x) for x in cats_md]) + ".")
    return cat, md, disable, cats_md, "\n".join(lines) + "\n"


def real_catalogue():
    from refurb.loader import get_error_class, get_modules
    out = []
    for m in get_modules([]):
        e = get_error_class(m)
        if e:
            out.append((m, e))
    return out


def search(ctx: Ctx, cat, md, disable, cats_md) -> None:
    """Concrete failing inputs for the table facts, computed on the real code
    (import + introspection), independent of the Coq model."""
    from refurb.error import ErrorCode
    from refurb.explain import explain
    from refurb.settings import Settings

    real = real_catalogue()
    seen_code, seen_name = {}, {}
    for m, e in real:
        code = str(ErrorCode.from_error(e))
        if code in seen_code:
            ctx.report(f"duplicate-code:{code}", f"{m.__name__} and {seen_code[code]} share code {code}",
                       {"modules": [m.__name__, seen_code[code]]})
        seen_code.setdefault(code, m.__name__)
        if e.name in seen_name:
            ctx.report(f"duplicate-name:{e.name}", f"{m.__name__} and {seen_name[e.name]} share name {e.name}",
                       {"modules": [m.__name__, seen_name[e.name]]})
        seen_name.setdefault(e.name, m.__name__)
        if not e.name or not re.fullmatch(r"[a-z0-9]+(-[a-z0-9]+)*", e.name):
            ctx.report(f"bad-name:{code}", f"{code} has name {e.name!r}", {"module": m.__name__})
        for c in e.categories:
            if c not in cats_md:
                ctx.report(f"undocumented-category:{code}:{c}", f"category {c} of {code} not in docs/categories.md",
                           {"module": m.__name__})
        # --explain prints that check's own name, categories, documentation
        out = explain(Settings(explain=ErrorCode.from_error(e)))
        own_doc = clean_doc(e.__doc__)
        want_head = f"{code}: {e.name} " + " ".join(f"[{x}]" for x in e.categories)
        ok = out.startswith(want_head + "\n\n") and out.endswith(own_doc) and own_doc != "" \
            and not (e.__doc__ or "").startswith(f"{e.__name__}(")
        ctx.case(("explain", code), sample={"explain": code, "head": out.splitlines()[0] if out else ""})
        ctx.count("explain")
        if not ok:
            ctx.report(f"explain:{code}", f"--explain {code} does not print {m.__name__}'s own documentation",
                       {"cmd": f"refurb --explain {code}", "got_head": out[:200], "want_head": want_head})
    # default.toml
    off = sorted(str(ErrorCode.from_error(e)) for _, e in real if not e.enabled)
    for code in sorted(set(off) ^ set(disable)):
        where = "missing from" if code in off else "wrongly listed in"
        ctx.report(f"default-toml:{code}", f"{code} is off by default but {where} docs/configs/default.toml"
                   if code in off else f"{code} is on by default but listed in docs/configs/default.toml disable",
                   {"file": "docs/configs/default.toml", "disable": disable, "off_by_default": off})
    # docs/checks.md regenerated by the repo's own generator in a scratch directory
    with tempfile.TemporaryDirectory(prefix="c17-") as td:
        d = Path(td) / "docs"
        d.mkdir()
        shutil.copy(REPO / "docs" / "gen_checks.py", d / "gen_checks.py")
        (d / "__init__.py").write_text("")
        p = subprocess.run([PY, "-m", "docs.gen_checks"], cwd=td, capture_output=True, text=True,
                           env={"PYTHONPATH": f"{td}:{REPO}", "PATH": "/usr/bin:/bin", "PYTHONHASHSEED": "0"})
        ctx.case(("gen_checks",), sample={"regenerate": "docs/checks.md", "rc": p.returncode})
        ctx.count("regenerate-docs")
        if p.returncode != 0:
            ctx.report("docs-generator-fails", "docs/gen_checks.py fails: " + p.stderr.strip()[-200:], {"stderr": p.stderr})
        else:
            new = (d / "checks.md").read_text("utf8")
            old = (REPO / "docs" / "checks.md").read_text("utf8")
            if new != old:
                n = parse_checks_md(new)
                o = {h: (k, b) for h, k, b in md}
                diffs = [h for h, k, b in n if o.get(h) != (k, b)] + [h for h in o if h not in {x[0] for x in n}]
                for h in diffs[:5]:
                    code = h.split(":")[0].replace("## ", "")
                    ctx.report(f"docs-md:{code}", f"docs/checks.md section for {code} is not what the check states",
                               {"section": h})
                if not diffs:
                    ctx.report("docs-md:layout", "docs/checks.md differs from the generator output", {})


def run(ctx: Ctx) -> None:
    ctx.trusted_base += [
        "Coq 8.16.1 kernel + vm_compute",
        "tools/vf/translate/catalogue.py (static ast extraction of class attributes; cross-checked against import-time introspection on every run)",
        "textwrap.dedent/strip and the ```->```python substitution are performed by the translator (same calls as explain.py / docs/gen_checks.py)",
    ]
    ctx.assumptions += ["pkgutil.walk_packages order = sorted directory order (checked against get_modules on every run)"]
    ctx.rule("finite domain: every check of the catalogue (exhaustive); explain run for every code; docs regenerated")
    try:
        cat, md, disable, cats_md, gen = translate(ctx)
    except TranslateError as e:
        ctx.obligation("translate catalogue", False, str(e))
        ctx.report("translator", f"catalogue no longer translates: {e}", {"error": str(e)}, found_input=False)
        cat = None
    if cat is not None:
        b = coq.compile_props(ctx, {"GenCatalogue": gen}, ["GenCatalogue", "C17", "C17Toml"])
        coq.record_build(ctx, b)
        # tie: static translation == what the loader sees
        real = [(m.__name__, e.__name__, e.prefix, e.code, e.name, tuple(e.categories), e.enabled, e.__doc__)
                for m, e in real_catalogue()]
        mine = [(c["module"], c["class"], c["prefix"], c["code"], c["name"], c["categories"], c["enabled"], c["doc"])
                for c in cat]
        tie_ok = real == mine
        ctx.obligation("translator output equals loader introspection (93 rows, order included)", tie_ok,
                       "" if tie_ok else "static catalogue differs from get_modules/get_error_class")
        # correspondence: Coq explain vs real explain on every code + unknown codes
        if b.ok:
            x_explain(ctx, cat)
        search(ctx, cat, md, disable, cats_md)
        ctx.resolve_broken({"default_toml_matches": "default-toml:", "codes_unique": "duplicate-code:",
                            "names_unique": "duplicate-name:", "names_kebab": "bad-name:",
                            "categories_documented": "undocumented-category:", "docs_md_matches": "docs-md",
                            "explain_finds_own": "duplicate-code:", "all_documented": "explain:",
                            "md_bodies_cover": "docs-md"}, b.first_error)
    ctx.exhaustive = True
    plugin_explain(ctx)
    from . import c17_examples
    c17_examples.run(ctx, cat)


def plugin_explain(ctx: Ctx) -> None:
    """Codes of --load-ed checks appear in output too: each must be explainable under the options that made it
    appear (default prefix, own prefix, config-file load, disabled-by-default)."""
    import tempfile

    from ..harness import lint as L
    tpl = ("from dataclasses import dataclass\nfrom mypy.nodes import IntExpr\nfrom refurb.error import Error\n\n\n@dataclass\nclass {cls}(Error):\n"
           "    \"\"\"\n    Documentation of {tag}.\n    \"\"\"\n\n{prefix}    code = {code}\n    name = \"{name}\"\n    categories = (\"plugcat\",)\n    enabled = {enabled}\n"
           "    msg: str = \"{tag}\"\n\n\ndef check(node: IntExpr, errors: list[Error]) -> None:\n    errors.append({cls}.from_node(node))\n")
    with tempfile.TemporaryDirectory(prefix="c17plug-") as td:
        t = Path(td)
        (t / "plugx").mkdir()
        (t / "plugx" / "__init__.py").write_text("")
        mods = [("default_prefix", "", 900, "plug-default-prefix", True, "FURB900"), ("own_prefix", '    prefix = "XYZ"\n', 100, "plug-own-prefix", True, "XYZ100"),
                ("opt_in", '    prefix = "XYZ"\n', 101, "plug-opt-in", False, "XYZ101"),
                # the loader takes any Error subclass whose name starts with "Error": --explain has to find the same class
                ("other_class_name", '    prefix = "XYZ"\n', 102, "plug-other-class-name", True, "XYZ102"), ("three_letters", '    prefix = "ABC"\n', 100, "plug-three-letters", True, "ABC100")]
        for fn, prefix, code, name, enabled, tag in mods:
            (t / "plugx" / f"{fn}.py").write_text(tpl.format(prefix=prefix, code=code, name=name, enabled=enabled, tag=tag, cls="ErrorNoEval" if fn == "other_class_name" else "ErrorInfo"))
        (t / "t.py").write_text("a = 1\n")
        (t / "pyproject.toml").write_text('[tool.refurb]\nload = ["plugx"]\n')
        env = {"PYTHONPATH": f"{td}:{L.ENV['PYTHONPATH']}"}
        rc, out, err = L.cli(["t.py", "--load", "plugx", "--enable-all", "--quiet"], cwd=td, env_extra=env)
        seen = sorted(set(re.findall(r"\[([A-Z]+\d+)\]", out)))
        for fn, prefix, code, name, enabled, tag in mods:
            for how, argv in (("--load", ["--load", "plugx", "--explain", tag]), ("config load", ["--explain", tag]), ("--load after", ["--explain", tag, "--load", "plugx"])):
                if how != "config load":
                    (t / "pyproject.toml").rename(t / "pyproject.off")
                rc2, out2, err2 = L.cli(argv, cwd=td, env_extra=env)
                if how != "config load":
                    (t / "pyproject.off").rename(t / "pyproject.toml")
                ctx.case(("plugin-explain", tag, how), nontrivial=True)
                ctx.count("plugin-explain")
                ok = rc2 == 0 and out2.startswith(f"{tag}: {name} [plugcat]") and f"Documentation of {tag}." in out2
                if tag not in seen or not ok:
                    ctx.report(f"explain:plugin:{fn}", f"{tag} is reported with --load plugx ({tag in seen}) but `{' '.join(argv)}` ({how}) prints {out2.strip()[:100]!r} (exit {rc2})",
                               {"argv": argv, "how": how, "stdout": out2[-400:], "stderr": err2[-400:], "codes_reported": seen})


def x_explain(ctx: Ctx, cat) -> None:
    from refurb.error import ErrorCode
    from refurb.explain import explain
    from refurb.settings import Settings
    keys = [(c["prefix"], c["code"]) for c in cat] + [("FURB", 99), ("FURB", 999), ("XYZ", 100), ("FURB", 0)]
    exp = [explain(Settings(explain=ErrorCode(prefix=p, id=n))) for p, n in keys]
    body = "Definition cases : list ((string * N) * string) := " + coq.coq_list(
        [f"(({S(p)}, {n}%N), {S(e)})" for (p, n), e in zip(keys, exp)]) + ".\n" \
        "Definition bad := filter (fun c => negb (String.eqb (explain catalogue (fst c)) (snd c))) cases.\n" \
        "Eval vm_compute in map (fun c => code_str (fst c)) bad.\n"
    hdr = "From Lib Require Import Base Catalogue.\nFrom P Require Import GenCatalogue.\nSet Printing Width 100000.\n"
    (rc, out, err), = coq.eval_shards(ctx, "explain", hdr, [body])
    vals = coq.parse_eval_values(out)
    ok = rc == 0 and vals and vals[0].startswith("[]")
    ctx.obligation("correspondence: Coq explain = refurb.explain.explain on every code + 4 unknown codes", bool(ok),
                   (err or "")[-500:] + (vals[0] if vals else ""))
    ctx.extra["explain_cases"] = len(keys)
    if not ok:
        ctx.report("x-explain", "model of explain disagrees with refurb.explain: " + (vals[0] if vals else err[-200:]),
                   {"mismatching_codes": vals[:1]}, found_input=False)
