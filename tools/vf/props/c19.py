"""C19 — `refurb gen` output is a loadable, working check for any node selection."""
from __future__ import annotations

import ast
import itertools
import os
import re
import shutil
import sys
import tempfile
from pathlib import Path

from .. import coq
from ..core import REPO, VERIF, Ctx
from ..harness import lint as L
from ..translate.catalogue import TranslateError, catalogue
from ..translate.schedule import mapping

S = coq.coq_str
EXPECTED_FORMAT = {"accept_type": "' | '.join(selected)", "imports": "build_imports(selected)", "prefix": "prefix",
                   "id": "get_next_error_id(prefix) or 100", "pattern": "' | '.join((f'{x}()' for x in selected))"}
BUILD_IMPORTS = '''
def build_imports(names: list[str]) -> str:
    modules: defaultdict[str, list[str]] = defaultdict(list)

    for name in names:
        modules[NODES[name].__module__].append(name)

    return "\\n".join(
        f"from {module} import {', '.join(names)}"
        for module, names in sorted(modules.items(), key=itemgetter(0))
    )
'''
NEXT_ID = '''
def get_next_error_id(prefix: str) -> int:
    highest = 0

    for module in get_modules([]):
        if error := get_error_class(module):
            error_code = ErrorCode.from_error(error)

            if error_code.prefix == prefix:
                highest = max(highest, error_code.id + 1)

    return highest
'''


def same_shape(fn, ref_src: str) -> bool:
    return fn is not None and ast.dump(fn) == ast.dump(ast.parse(ref_src).body[0])


def universe(repo: Path):
    """Node types offered by `refurb gen` and the codes already taken: needed by the search even
    when gen.py itself no longer translates."""
    mp = mapping(repo / "refurb" / "visitor" / "mapping.py")
    import mypy.nodes
    import mypy.patterns
    nodes = {}
    for cls in mp.values():
        obj = getattr(mypy.nodes, cls, None) or getattr(mypy.patterns, cls, None)
        if obj is None:
            raise TranslateError(f"node class {cls} not found in mypy")
        nodes[cls] = obj.__module__
    existing = [(c["prefix"], c["code"]) for c in catalogue(repo)]
    return nodes, existing


def translate(repo: Path):
    tree = ast.parse((repo / "refurb" / "gen.py").read_text("utf8"))
    fns = {n.name: n for n in tree.body if isinstance(n, ast.FunctionDef)}
    tpl = None
    for n in tree.body:
        if isinstance(n, ast.Assign) and any(isinstance(t, ast.Name) and t.id == "FILE_TEMPLATE" for t in n.targets):
            tpl = ast.literal_eval(n.value)
    if not isinstance(tpl, str):
        raise TranslateError("FILE_TEMPLATE literal not found")
    if not same_shape(fns.get("build_imports"), BUILD_IMPORTS):
        raise TranslateError("build_imports changed shape")
    if not same_shape(fns.get("get_next_error_id"), NEXT_ID):
        raise TranslateError("get_next_error_id changed shape")
    main = fns.get("main")
    fmt = next((n for n in ast.walk(main) if isinstance(n, ast.Call) and ast.unparse(n.func) == "FILE_TEMPLATE.format"), None) if main else None
    if fmt is None or {k.arg: ast.unparse(k.value) for k in fmt.keywords} != EXPECTED_FORMAT:
        raise TranslateError("FILE_TEMPLATE.format(...) arguments changed: " + (str({k.arg: ast.unparse(k.value) for k in fmt.keywords}) if fmt else "not found"))
    holes = re.findall(r"(?<!\{)\{(\w+)\}(?!\})", tpl)
    if sorted(set(holes)) != sorted(EXPECTED_FORMAT):
        raise TranslateError(f"template holes {sorted(set(holes))} do not match the format arguments")
    nodes, existing = universe(repo)
    gen = ("From Lib Require Import Base.\nOpen Scope list_scope.\n"
           f"Definition nodes : list (string * string) := {coq.coq_list([f'({S(k)}, {S(v)})' for k, v in nodes.items()])}.\n"
           f"Definition existing_codes : list (string * N) := {coq.coq_list([f'({S(p)}, {c}%N)' for p, c in existing])}.\n"
           f"Definition file_template : string := {S(tpl)}.\n")
    return gen, tpl, nodes, existing


def model_text(tpl: str, nodes: dict, sel: list[str], prefix: str, next_id: int) -> str:
    """the text Lib/GenTpl.v's definitions denote (evaluated in Coq for the tie; this Python
    copy only builds the expected value shown in reports)"""
    mods: dict[str, list[str]] = {}
    for n in sel:
        mods.setdefault(nodes[n], []).append(n)
    imports = "\n".join(f"from {m} import {', '.join(ns)}" for m, ns in sorted(mods.items()))
    return tpl.format(accept_type=" | ".join(sel), imports=imports, prefix=prefix, id=next_id, pattern=" | ".join(f"{x}()" for x in sel))


def real_generate(sel: list[str], prefix: str, target: Path, workdir: Path | None = None, answer: str | None = None) -> str:
    import refurb.gen as g
    answers = iter(["\n".join(sel), answer if answer is not None else str(target), prefix])
    orig = g.fzf
    g.fzf = lambda data, args: next(answers) + ("" if "--multi" in args else "")
    cwd = os.getcwd()
    try:
        os.chdir(workdir if workdir is not None else target.parent.parent if target.parent.name else target.parent)
        g.main()
    finally:
        g.fzf = orig
        os.chdir(cwd)
    return target.read_text("utf8")


def occurrences_in(path: Path) -> dict[str, list]:
    """For every dispatchable node class: the (line, column) of the nodes a check subscribed to that class is handed,
    recorded with one probe check per class through the real visitor (a base class such as FuncItem gets its subclasses' nodes)."""
    from collections import defaultdict

    import refurb.main as rmain
    from refurb.settings import Settings
    from refurb.visitor import METHOD_NODE_MAPPINGS
    occ: dict[str, list] = defaultdict(list)          # with multiplicity: two nodes of one class can start at the same place (`f()()`, `a.b.c`)
    checks = defaultdict(list)
    for cls in set(METHOD_NODE_MAPPINGS.values()):
        def probe(name):
            return lambda node, errors: occ[name].append((node.line, node.column))
        checks[cls].append(probe(cls.__name__))
    orig = rmain.load_checks
    rmain.load_checks = lambda settings: checks
    try:
        rmain.run_refurb(Settings(files=[str(path)], quiet=True))
    finally:
        rmain.load_checks = orig
    return dict(occ)


def kinds_in(path: Path) -> set[str]:
    """Node classes that occur in a file, recorded with one probe check per dispatchable class through the real visitor."""
    from collections import defaultdict

    import refurb.main as rmain
    from refurb.settings import Settings
    from refurb.visitor import METHOD_NODE_MAPPINGS
    seen: set[str] = set()
    checks = defaultdict(list)
    for cls in set(METHOD_NODE_MAPPINGS.values()):
        checks[cls].append(lambda node, errors: seen.add(type(node).__name__))
    orig = rmain.load_checks
    rmain.load_checks = lambda settings: checks
    try:
        rmain.run_refurb(Settings(files=[str(path)], quiet=True))
    finally:
        rmain.load_checks = orig
    return seen


def run(ctx: Ctx) -> None:
    ctx.trusted_base += [
        "Coq 8.16.1 kernel",
        "tools/vf/props/c19.py translate(): FILE_TEMPLATE, the format arguments, build_imports and get_next_error_id must have the recognised shape (fail-closed); node table from mapping.py + each class's __module__",
        "Lib/GenTpl.v: hand-written model of build_imports / next id (tied by comparing the generated text)",
        "Python's compile() and the real loader as the oracle of 'valid Python' and 'accepted by the plugin loader'",
    ]
    ctx.rule("every single node type (exhaustive), pairs (sampled in quick, exhaustive in thorough), random larger selections; prefixes FURB / new; "
             "each generated file is compiled, passed through the loader's signature extraction, and a sample is --load-ed on a file containing every node kind; distinct by selection")
    b = None
    try:
        gen, tpl, nodes, existing = translate(REPO)
    except TranslateError as e:
        ctx.obligation("translate refurb/gen.py", False, str(e))
        gen = None
        try:
            nodes, existing = universe(REPO)      # the search below needs no model
        except TranslateError as e2:
            ctx.obligation("node table", False, str(e2))
            ctx.resolve_broken({}, "")
            return
    if gen is not None:
        b = coq.compile_props(ctx, {"GenGenTpl": gen}, ["GenGenTpl", "C19"])
        coq.record_build(ctx, b)
    rng = ctx.rng
    names = sorted(nodes)
    sels = [[n] for n in names]
    # selections whose sorted order alternates between the two modules node types come from
    pats = [n for n in names if nodes[n].endswith("patterns")]
    for _ in range(ctx.budget(25, 200)):
        k = rng.randrange(3, 8)
        sels.append(sorted(set(rng.sample(pats, min(len(pats), (k + 1) // 2)) + rng.sample(names, k // 2 + 1))))
    pairs = [sorted(p) for p in itertools.combinations(names, 2)]
    # names one of which contains the other (NameExpr / NamedTupleExpr, Var / TypeVarExpr, TupleExpr / NamedTupleExpr ...): always generated
    sels += [p for p in pairs if p[0] in p[1] or p[1] in p[0]]
    sels += [sorted([a, b2, c]) for a, b2 in pairs if a in b2 or b2 in a for c in names[:1] if c not in (a, b2)]
    # classes related by inheritance (a base class with each non-empty set of its subclasses): always generated
    import mypy.nodes as _N0
    cls_of = {n: getattr(_N0, n) for n in names if isinstance(getattr(_N0, n, None), type)}
    for base_, bc in cls_of.items():
        subs = sorted(n for n, c in cls_of.items() if n != base_ and issubclass(c, bc))
        for r_ in range(1, min(len(subs), 3) + 1):
            for combo in itertools.combinations(subs, r_):
                if len(subs) <= 4 or r_ == 1:
                    sels.append(sorted([base_, *combo]))
    sels += pairs if ctx.tier == "thorough" else rng.sample(pairs, 120)
    sels += [sorted(rng.sample(names, rng.randrange(3, 9))) for _ in range(ctx.budget(30, 300))]
    td = Path(tempfile.mkdtemp(prefix="c19-"))
    from refurb.loader import extract_function_types
    import importlib.util
    tie_rows = []
    loadable = []
    try:
        (td / "plugs").mkdir()
        for i, sel in enumerate(sels):
            # prefixes: the built-in one, unused ones of 3 and 4 letters, and ones that merely begin or end like the built-in one
            prefix = ("FURB", "NEW", "FURB", "FUR", "ABCD", "URB", "FURB", "FURA", "URBX", "furb", "Furb", "new", "fURB")[i % 13]
            target = td / "plugs" / f"g{i}.py"
            try:
                text = real_generate(sel, prefix, target)
            except BaseException as e:  # noqa: BLE001
                ctx.report("gen:crash", f"refurb gen with selection {sel[:3]}... raised {type(e).__name__}: {e}", {"selection": sel, "prefix": prefix})
                continue
            ctx.case(("gen", tuple(sel), prefix), nontrivial=True, sample={"selection": sel, "prefix": prefix} if i in (0, 90, 130) else None)
            ctx.count(f"size={min(len(sel), 3)}{'+' if len(sel) > 3 else ''}")
            want_id = max([c + 1 for p, c in existing if p == prefix], default=0) or 100
            # valid Python
            try:
                compile(text, str(target), "exec")
            except SyntaxError as e:
                ctx.report("gen:not-python", f"generated file for {sel} is not valid Python: {e}", {"selection": sel, "text": text})
                continue
            # accepted by the loader; fires on exactly the selected types; next free code
            spec = importlib.util.spec_from_file_location(f"c19_g{i}", target)
            mod = importlib.util.module_from_spec(spec)
            try:
                spec.loader.exec_module(mod)
                tys = sorted(t.__name__ for t in extract_function_types(mod.check))
            except BaseException as e:  # noqa: BLE001
                ctx.report("gen:not-loadable", f"generated check for {sel} is rejected: {type(e).__name__}: {e}", {"selection": sel, "text": text})
                continue
            if tys != sorted(sel):
                ctx.report("gen:wrong-types", f"generated check for {sel} subscribes to {tys}", {"selection": sel})
            if (mod.ErrorInfo.prefix, mod.ErrorInfo.code) != (prefix, want_id) or (prefix, mod.ErrorInfo.code) in existing:
                ctx.report("gen:wrong-code", f"generated check got {mod.ErrorInfo.prefix}{mod.ErrorInfo.code}, expected the next free code {prefix}{want_id}", {"selection": sel})
            m = re.search(r"case (.*):\n", text)
            if not m or sorted(x.strip()[:-2] for x in m.group(1).split("|")) != sorted(sel):
                ctx.report("gen:wrong-pattern", f"the match pattern of the generated check is {m.group(1) if m else None}", {"selection": sel})
            tie_rows.append((sel, prefix, want_id, text))
            if re.fullmatch(r"[A-Z]{3,4}", prefix):          # a code can only be named on the command line with such a prefix
                loadable.append((f"plugs.g{i}", sel, prefix, want_id))
        # ---- tie: the Coq model builds the same text
        if b is not None and b.ok and tie_rows:
            hdr = ("From Lib Require Import Base GenTpl.\nFrom P Require Import GenGenTpl C19.\nOpen Scope list_scope.\nSet Printing Width 100000.\n"
                   "Fixpoint subst (s : string) (k v : string) (fuel : nat) : string :=\n"
                   "  match fuel with O => s | S f => match s with EmptyString => EmptyString\n"
                   "  | String c r => if String.prefix k s then (v ++ subst (String.substring (String.length k) (String.length s) s) k v f)%string else String c (subst r k v f) end end.\n"
                   "Definition instantiate (sel : list string) (prefix : string) (id : N) : string :=\n"
                   "  let t := file_template in let n := String.length t in\n"
                   "  let t := subst t \"{imports}\" (build_imports module_of sel) n in\n"
                   "  let t := subst t \"{prefix}\" prefix (String.length t) in let t := subst t \"{id}\" (N_to_dec id) (String.length t) in\n"
                   "  let t := subst t \"{accept_type}\" (accept_type sel) (String.length t) in subst t \"{pattern}\" (pattern sel) (String.length t).\n")
            shards = []
            per = 60
            for i in range(0, len(tie_rows), per):
                rows = [f"({coq.coq_list([S(x) for x in sel])}, {S(p)}, {nid}%N, {S(text)})" for sel, p, nid, text in tie_rows[i:i + per]]
                shards.append("Definition cs := [\n" + ";\n".join(rows) + "].\n"
                              "Eval vm_compute in (fix go i l := match l with [] => [] | (sel, p, nid, txt) :: t => "
                              "if (String.eqb (instantiate sel p nid) txt && N.eqb (next_id existing_codes p) nid)%bool then go (S i) t else i :: go (S i) t end) 0 cs.\n")
            res = coq.eval_shards(ctx, "gen", hdr, shards, timeout=900)
            mism = []
            for si, (rc, out, err) in enumerate(res):
                vals = coq.parse_eval_values(out)
                if rc != 0 or not vals:
                    mism.append(f"shard {si}: {err[-300:]}")
                    continue
                for j in [int(x) for x in vals[0].strip("[]").split(";") if x.strip()][:3]:
                    mism.append(f"selection {tie_rows[si * per + j][0]}")
            ctx.obligation("correspondence: template instantiated with Lib/GenTpl.v build_imports/accept_type/pattern/next_id = text written by refurb.gen.main",
                           not mism, "; ".join(mism[:4]))
        # ---- where the file is put: any path the user may answer, inside or outside the working directory, folders new or not
        w1 = td / "w1"
        (w1 / "deep").mkdir(parents=True)
        (td / "existing").mkdir()
        placements = [("inside-new-folders", w1, "a/b/c/check1.py"), ("outside-absolute-new-folders", w1, str(td / "out1" / "x" / "y" / "check2.py")),
                      ("outside-relative-new-folders", w1, "../out2/p/check3.py"), ("working-directory-itself", w1, "check4.py"),
                      ("outside-existing-folder", w1, str(td / "existing" / "check5.py")), ("inside-existing-folder", w1, "a/b/check6.py"),
                      ("outside-from-deeper-cwd", w1 / "deep", "../../out3/new/check7.py"), ("inside-dot-spelling", w1, "./q/../r/check8.py"),
                      ("outside-one-new-folder", w1, str(td / "out4" / "check9.py"))]
        for k, (pname, wd, answer) in enumerate(placements):
            sel = rng.choice(sels[: len(names)])
            target = Path(os.path.normpath(os.path.join(wd, answer)))
            try:
                text = real_generate(sel, "PLC", target, workdir=wd, answer=answer)
                compile(text, str(target), "exec")
                spec = importlib.util.spec_from_file_location(f"c19_gp{k}", target)
                mod = importlib.util.module_from_spec(spec)
                spec.loader.exec_module(mod)
                ok = sorted(t.__name__ for t in extract_function_types(mod.check)) == sorted(sel)
                why = "subscribes to other node types" if not ok else ""
            except BaseException as e:  # noqa: BLE001
                ok, why = False, f"{type(e).__name__}: {e}"
            ctx.case(("placement", pname), nontrivial=True, sample={"placement": pname, "cwd": str(wd.relative_to(td)), "answer": answer.replace(str(td), "<tmp>"), "generated": ok} if k < 3 else None)
            ctx.count("placement")
            if not ok:
                ctx.report(f"gen:placement:{pname}", f"`refurb gen` with file name {answer.replace(str(td), '<tmp>')!r} (cwd <tmp>/{wd.relative_to(td)}) did not produce a working check: {why[:200]}",
                           {"selection": sel, "cwd": str(wd), "answer": answer, "error": why})
        # ---- a sample really linted with --load on a file that contains every node kind
        (td / "plugs" / "__init__.py").write_text("")
        probe = VERIF / "corpus" / "C04" / "kitchen.py"
        present = kinds_in(probe)            # the node classes the probe file really contains (a selection of other classes has nothing to fire on)
        ctx.extra["probe_file_node_classes"] = len(present)
        occ = occurrences_in(probe)
        # selections that put a base class next to (some of) its subclasses: what the base class is handed must not depend on the company
        import mypy.nodes as _N
        related = [(m_, s_, p_, n_) for m_, s_, p_, n_ in loadable
                   if any(a != b_ and isinstance(getattr(_N, a, None), type) and isinstance(getattr(_N, b_, None), type) and issubclass(getattr(_N, a), getattr(_N, b_)) for a in s_ for b_ in s_)]
        ctx.count("selections-with-a-class-and-its-base", len(related))
        # ... and selections two of whose classes have nodes that START at the same place (a statement and its expression, a call and its callee):
        # position alone does not tell such nodes apart
        posset = {c: set(v) for c, v in occ.items()}
        coinciding = [t4 for t4 in loadable if 2 <= len(t4[1]) <= 3 and any(posset.get(a, set()) & posset.get(b_, set()) for a in t4[1] for b_ in t4[1] if a < b_)]
        ctx.count("selections-whose-classes-share-a-start-position", len(coinciding))
        for modname, sel, prefix, nid in related[: ctx.budget(6, 40)] + coinciding[: ctx.budget(8, 60)] + rng.sample(loadable, min(len(loadable), ctx.budget(6, 40))):
            rc, out, err = L.cli([str(probe), "--quiet", "--disable-all", "--enable", f"{prefix}{nid}", "--load", modname], cwd=str(td),
                                 env_extra={"PYTHONPATH": f"{td}:{L.ENV['PYTHONPATH']}"})
            n = sum(1 for l in out.splitlines() if f"[{prefix}{nid}]" in l)
            ctx.case(("lint", tuple(sel)), nontrivial=True)
            ctx.count("linted-with-generated-check")
            if not L.clean_verdict(rc, out, err) or (n == 0 and set(sel) & present):
                ctx.report("gen:does-not-fire", f"the generated check for {sel} loaded with --load reports {n} diagnostics on a file with every node kind (exit {rc})",
                           {"selection": sel, "stdout": out[-300:], "stderr": err[-500:]})
                continue
            # ... and it fires on exactly the nodes of the selected classes (positions as mypy gives them; the template reports the node itself)
            from collections import Counter
            got_pos = Counter()
            for l in out.splitlines():
                m_ = re.match(rf".*?:(\d+):(\d+) \[{prefix}{nid}\]", l)
                if m_:
                    got_pos[(int(m_.group(1)), int(m_.group(2)) - 1)] += 1
            silenced = {k_ + 1 for k_, l_ in enumerate(probe.read_text().split("\n")) if "# noqa" in l_}          # the probe file silences some of its lines itself
            # one report per node and subscribed class: two selected classes whose nodes start at the same place give two reports there
            want_pos = Counter(q for c in sel for q in occ.get(c, []) if q[0] >= 1 and q[0] not in silenced)      # nodes mypy synthesises carry no position
            got_pos = Counter({q: n_ for q, n_ in got_pos.items() if q[0] not in silenced})
            if got_pos != want_pos:
                missing, extra_ = sorted((want_pos - got_pos).items())[:5], sorted((got_pos - want_pos).items())[:5]
                by_cls = {c: len(occ.get(c, [])) for c in sel}
                ctx.report("gen:fires-on-other-nodes" if extra_ and not missing else "gen:misses-nodes",
                           f"the generated check for {sel} gives {sum(got_pos.values())} reports on the probe file; it is handed {sum(want_pos.values())} nodes of the selected classes ({by_cls}); missing (position, times) {missing}, unexpected {extra_}",
                           {"selection": sel, "nodes_per_class": by_cls, "missing": missing, "unexpected": extra_, "file": str(probe),
                            "cmd": f"refurb {probe.name} --disable-all --enable {prefix}{nid} --load {modname}"})
    finally:
        shutil.rmtree(td, ignore_errors=True)
        for k in [k for k in sys.modules if k.startswith("c19_g")]:
            del sys.modules[k]
    ctx.resolve_broken({"imports_cover": "gen:", "next_id_free": "gen:wrong-code", "translate refurb/gen.py": "gen:"}, b.first_error if b else "")
