"""C02 — code quoted in a diagnostic is the user's code, and is valid Python."""
from __future__ import annotations

import ast
import shutil

from .. import coq
from ..core import Ctx
from ..harness import exprgen as G
from ..harness import to_coq as TC

CURATED = [
    "(a + b)[:]", "(lambda p: p)(3)", "-(a + b)", "(a + b).real", "(a if b else c) if d else n", "xs[a, 1:]",
    "(a + b) * c", "a * (b + c)", "a - (b - c)", "(a - b) - c", "a ** (b ** c)", "(a ** b) ** c", "(-a) ** b", "a ** -b",
    "not (a and b)", "(not a) and b", "(a and b) or c", "a and (b or c)", "(a or b) and c", "(a < b) < c", "a < (b < c)",
    "(a, b)", "(a,)", "()", "[*xs, a]", "{**d, a: b}", "f(*xs, **d)", "f(key=a)", "(await f()).x", "await f()",
    "(w := a)", "f((w := a))", "[(w := a)]", "xs[(w := a)]", "lambda: (w := a)", "(lambda: a) if b else c",
    "a if b else (lambda: c)", "(yield)", "1 .real", "1.5.real", "(1).real", "a if (b if c else d) else n",
    "a if b else c if d else n", "-a ** b", "(-a) ** b", "- -a", "not not a", "~a", "+a",
    "'it''s'", '"q\\"uote"', "'\\\\'", "'\\n'", "'\\x00'", "'caf\\u00e9'", "'\\U0001f600'", "b'q\"uote'", "b'\\x00\\xff'",
    *[f"f'{{a{c}{sp}}}'" for c in ("", "!r", "!s", "!a") for sp in ("", ":>10", ":{b}", ":>{b}.{n}")],
    "f'{a}'", "f'{a!r}'", "f'{a:>10}'", "f'x{a}y{b}'", "f'{a}{b}'", "f'{{a}}'", "f'{ {a} }'", "f'{a:{b}}'", "f'{d[\"k\"]}'",
    "1e22", "1e-07", "2j", "10**20", "0x10", "1_000", "...", "None", "True",
    "xs[::2]", "xs[1:2:3]", "xs[:]", "xs[a:]", "xs[:a]", "xs[-1]", "xs[a if b else c]", "xs[lambda: a]",
    "a @ b", "a // b", "a % b", "a << b >> c", "a | b ^ c & d", "(a | b) & c", "a is not b", "a not in xs",
    "a < b <= c != d", "f(a)(b)[c].x", "{a}", "{a: b}", "{}", "[]", "[a for a in xs]", "f(a for a in xs)",
    "a if b else c or d", "(a if b else c) or d", "lambda p, q: p + q", "lambda: a", "lambda *va: va", "lambda p=1: p",
    "f'{ {a}.union(xs) }'", "f'{ {a: b}[a] }'", "f'{ {a} | {b} }'", "f'{ {a, b} }'", "f'{ {} }'", "f'x{ {a: b} }y'", "f'{ {a}.pop():>3}'",
    "lambda p, *, k1: p", "lambda *, k1, k2=0: k1", "lambda *va, k1: k1", "lambda **kw: kw", "lambda p, /, q: q", "lambda p, q=1, *va, k1, **kw: p",
]


def norm(src: str) -> str | None:
    """Canonical dump of an expression's source; and/or chains flattened on the right
    (mypy cannot tell `a and b and c` from `a and (b and c)`)."""
    try:
        t = ast.parse(src.strip(), mode="eval").body
    except SyntaxError:
        # a quoted fragment stands in expression position: a bare walrus is fine there
        try:
            t = ast.parse("(" + src.strip() + ")", mode="eval").body
        except SyntaxError:
            return None

    class F(ast.NodeTransformer):
        def visit_BoolOp(self, n):
            self.generic_visit(n)
            last = n.values[-1]
            if isinstance(last, ast.BoolOp) and type(last.op) is type(n.op):
                n.values = n.values[:-1] + last.values
            return n

        def visit_JoinedStr(self, n):
            self.generic_visit(n)
            vals = []
            for v in n.values:      # merge adjacent literal parts, drop empty ones
                if isinstance(v, ast.Constant) and vals and isinstance(vals[-1], ast.Constant):
                    vals[-1] = ast.Constant(value=vals[-1].value + v.value)
                elif isinstance(v, ast.Constant) and v.value == "":
                    continue
                else:
                    vals.append(v)
            n.values = vals
            if all(isinstance(v, ast.Constant) for v in vals):
                # an f-string without fields is a plain string (mypy folds it)
                return ast.Constant(value="".join(v.value for v in vals))
            return n
    t = F().visit(t)
    return ast.dump(t)


ATOMIC = ("NameExpr", "IntExpr", "StrExpr", "BytesExpr", "FloatExpr", "ComplexExpr", "CallExpr", "IndexExpr", "ListExpr",
          "DictExpr", "SetExpr", "TupleExpr", "EllipsisExpr", "ListComprehension", "SetComprehension",
          "DictionaryComprehension", "GeneratorExpr")


def direct_children(node):
    import mypy.nodes as N
    out = []
    for attr in ("expr", "left", "right", "base", "index", "callee", "cond", "if_expr", "else_expr", "target", "value",
                 "begin_index", "end_index", "stride"):
        v = getattr(node, attr, None)
        if isinstance(v, N.Expression):
            out.append(v)
    for attr in ("args", "items", "operands"):
        v = getattr(node, attr, None)
        if isinstance(v, list):
            for x in v:
                if isinstance(x, N.Expression):
                    out.append(x)
                elif isinstance(x, tuple):
                    out += [y for y in x if isinstance(y, N.Expression)]
    if isinstance(node, N.LambdaExpr) and node.body.body and isinstance(node.body.body[0], N.ReturnStmt) and node.body.body[0].expr:
        out.append(node.body.body[0].expr)
    return out


def run(ctx: Ctx) -> None:
    ctx.trusted_base += [
        "Coq 8.16.1 kernel + vm_compute",
        "Lib/Stringify.v: hand-written model of stringify/_stringify/get_fstring_parts, tied by the correspondence below",
        "tools/vf/harness/to_coq.py serialiser; Python's ast.parse/ast.dump as the oracle of 'same syntax tree'",
    ]
    ctx.assumptions += ["non-ASCII code points in string literals are printable (repr leaves them unescaped); the harness feeds only such"]
    ctx.rule("generated expressions (all node classes, depth<=4) + curated precedence/escape/f-string cases, harvested as real mypy nodes; "
             "non-trivial = depth>=1; distinct by source text")
    b = coq.compile_props(ctx, {}, ["C02"])
    coq.record_build(ctx, b)
    rng = ctx.rng
    gen = G.Gen(rng)
    srcs = list(CURATED)
    n = ctx.budget(600, 15000)
    seen = set(srcs)
    while len(srcs) < n + len(CURATED):
        s = G.unparse(gen.expr(rng.choice([1, 2, 2, 3, 3, 4])))
        if s and s not in seen and "\n" not in s:
            seen.add(s)
            srcs.append(s)
    files, per = {}, 500
    for fi in range(0, len(srcs), per):
        lines = [G.PRELUDE, "async def _w() -> None:"]
        for j, s in enumerate(srcs[fi:fi + per]):
            lines.append(f"    P_{fi + j} = {s}")
        files[f"q{fi // per}.py"] = "\n".join(lines) + "\n"
    found, errs, td = TC.harvest(files)
    if getattr(TC.harvest, "skipped", None):
        ctx.count("statements-mypy-itself-crashed-on", len(TC.harvest.skipped))
        ctx.notes.append("generated statements removed because mypy hit its own INTERNAL ERROR on them: " + " | ".join(x.strip()[:160] for x in TC.harvest.skipped[:3]))
    try:
        if errs:
            ctx.obligation("probe corpus builds under mypy", False, errs[0][:300])
            return
        import refurb.checks.common as common
        raised = {"n": 0}
        orig = common._stringify

        def spy(node):
            try:
                return orig(node)
            except ValueError:
                raised["n"] += 1
                raise
        cases = []
        for (fname, pname), node in sorted(found.items(), key=lambda kv: int(kv[0][1][2:])):
            i = int(pname[2:])
            src = srcs[i]
            raised["n"] = 0
            common._stringify = spy
            try:
                text = common.stringify(node)
            finally:
                common._stringify = orig
            placeholder = raised["n"] > 0
            cases.append((src, node, text))
            ctx.case(src, nontrivial=len(src) > 2, sample={"source": src, "stringify": text} if rng.random() < 0.01 else None)
            ctx.count("with-placeholder" if placeholder else "exact")
            ctx.count(type(node).__name__)
            verdict = judge(text, src, placeholder)
            if verdict:
                key = minimal_key(common, node, verdict, src, placeholder)
                ctx.report(key, f"stringify of `{src}` is `{text}` ({verdict})",
                           {"source": src, "quoted": text, "verdict": verdict,
                            "how": "real refurb.checks.common.stringify on the mypy node of `P = <source>`; oracle ast.parse/ast.dump"})
        # ---- correspondence: Coq model = real stringify
        if b.ok:
            shards, metas = [], []
            for i in range(0, len(cases), 250):
                chunk = cases[i:i + 250]
                body = "Definition cs : list (expr * string) := [\n" + ";\n".join(
                    f"({TC.expr(node)}, {coq.coq_str(text)})" for _, node, text in chunk) + "].\n" \
                    "Eval vm_compute in (fix go i l := match l with [] => [] | (e, t) :: r => " \
                    "if String.eqb (stringify e) t then go (S i) r else i :: go (S i) r end) 0 cs.\n"
                shards.append(body)
                metas.append(chunk)
            hdr = ("From Lib Require Import Base PyAst Equiv Stringify.\nOpen Scope list_scope.\nSet Printing Width 100000.\n")
            res = coq.eval_shards(ctx, "stringify", hdr, shards, timeout=900)
            mism = []
            for (rc, out, err), chunk in zip(res, metas):
                vals = coq.parse_eval_values(out)
                if rc != 0 or not vals:
                    mism.append("coqc failed: " + err[-300:])
                    continue
                for i in [int(x) for x in vals[0].strip("[]").split(";") if x.strip()][:4]:
                    mism.append(f"`{chunk[i][0]}`: real `{chunk[i][2]}`")
            ctx.obligation("correspondence: Lib/Stringify.v stringify = refurb.checks.common.stringify on every harvested node",
                           not mism, "; ".join(mism[:6]))
            ctx.extra["tie_nodes"] = len(cases)
        pasted_operands(ctx, common, cases, b.ok)
    finally:
        shutil.rmtree(td, ignore_errors=True)
    fragment_scan(ctx)
    # the model of the pretty-printer disagreeing with it is explained by a quoted fragment that is not the user's code
    ctx.resolve_broken({"correspondence: Lib/Stringify.v stringify = refurb.checks.common.stringify on every harvested node": ("different-tree:", "syntax-error:"),
                        "correspondence: Lib/Stringify.v stringify_operand = refurb.checks.common.stringify_operand on every harvested node x 3 operators": ("pasted-operand:",)}, b.first_error)


PASTE_CONTEXTS = {            # operator -> (how the pasted text is used, the same with the source in parentheses)
    ".": "{}.attr", "not": "not {}", "==": "{} == Q", "in": "Q in {}", "or": "Q or {}", "and": "Q and {}", "|": "{} | Q", "{}": "f'{{{}!r:>3}}'",
}


def pasted_operands(ctx: Ctx, common, cases, built: bool) -> None:
    """stringify_operand(node, operator): the text a check pastes next to `operator` when it assembles a
    suggestion.  Oracle: used there, it must denote the same tree as the source in parentheses used there.
    Tie: the Coq model gives the same text."""
    if not hasattr(common, "stringify_operand"):
        ctx.notes.append("refurb.checks.common has no stringify_operand")
        return
    rng = ctx.rng
    rows = []
    for src, node, _ in cases:
        for op in rng.sample(sorted(PASTE_CONTEXTS), 3):
            try:
                text = common.stringify_operand(node, op)
            except Exception as e:  # noqa: BLE001
                ctx.report("pasted-operand:crash", f"stringify_operand(`{src}`, {op!r}) raises {type(e).__name__}: {e}", {"source": src, "operator": op})
                continue
            rows.append((node, op, text, src))
            ctx.case(("paste", src, op), nontrivial=len(src) > 2, sample={"source": src, "operator": op, "pasted": text} if rng.random() < 0.004 else None)
            ctx.count(f"pasted-next-to:{op}")
            if text == "x" or "'" in text and op == "{}":
                continue            # placeholder; the field's text is quoted with single quotes by the oracle
            tpl = PASTE_CONTEXTS[op]
            want, got = norm(tpl.format(f"({src})")), norm(tpl.format(text))
            plain = common.stringify(node)
            if judge(plain, src, False) is not None:
                continue            # the quote itself is already off (reported by the stringify oracle above)
            if want is not None and got != want:
                ctx.report(f"pasted-operand:{'syntax-error' if got is None else 'different-tree'}:{op}:{type(node).__name__}",
                           f"stringify_operand(`{src}`, {op!r}) is `{text}`: `{tpl.format(text)}` does not denote `{tpl.format('(' + src + ')')}`",
                           {"source": src, "operator": op, "pasted": text})
    if built and rows:
        shards, metas = [], []
        for i in range(0, len(rows), 400):
            chunk = rows[i:i + 400]
            shards.append("Definition cs : list (expr * string * string) := [\n" + ";\n".join(
                f"({TC.expr(node)}, {coq.coq_str(op)}, {coq.coq_str(text)})" for node, op, text, _ in chunk) + "].\n"
                "Eval vm_compute in (fix go i l := match l with [] => [] | (e, o, t) :: r => "
                "if String.eqb (stringify_operand e o) t then go (S i) r else i :: go (S i) r end) 0 cs.\n")
            metas.append(chunk)
        hdr = ("From Lib Require Import Base PyAst Equiv Stringify.\nOpen Scope list_scope.\nSet Printing Width 100000.\n")
        res = coq.eval_shards(ctx, "operand", hdr, shards, timeout=900)
        mism = []
        for (rc, out, err), chunk in zip(res, metas):
            vals = coq.parse_eval_values(out)
            if rc != 0 or not vals:
                mism.append("coqc failed: " + err[-300:])
                continue
            for i in [int(x) for x in vals[0].strip("[]").split(";") if x.strip()][:4]:
                mism.append(f"`{chunk[i][3]}` next to {chunk[i][1]!r}: real `{chunk[i][2]}`")
        ctx.obligation("correspondence: Lib/Stringify.v stringify_operand = refurb.checks.common.stringify_operand on every harvested node x 3 operators",
                       not mism, "; ".join(mism[:6]))


def judge(text: str, src: str, placeholder: bool) -> str | None:
    got = norm(text)
    if got is None:
        return "syntax-error"
    if placeholder or got == norm(src):
        return None
    return "different-tree"


LOOSE = ("LambdaExpr", "ConditionalExpr", "OpExpr", "ComparisonExpr", "UnaryExpr", "AwaitExpr", "AssignmentExpr")


def minimal_key(common, node, verdict: str, src: str = "", placeholder: bool = False) -> str:
    """Name the defect class.  (1) the callee of a call is not parenthesised (pinned by
    test/data/type_deduce.txt): re-render with only that corrected and re-run the oracle;
    (2) an empty f-string is quoted as its desugaring; otherwise the verdict and class."""
    import mypy.nodes as N
    orig = common._stringify

    def corrected(n):
        text = orig(n)
        if isinstance(n, N.CallExpr) and type(n.callee).__name__ in LOOSE and not common.get_fstring_parts(n):
            c = orig(n.callee)
            if text.startswith(c + "("):
                text = "(" + c + ")" + text[len(c):]
        return text
    common._stringify = corrected
    try:
        fixed = common.stringify(node)
    finally:
        common._stringify = orig
    if judge(fixed, src, placeholder) is None:
        return "missing-parens:CallExpr-callee"
    if '"".join([])' in fixed:
        return "fstring-empty-desugared"
    if '"{:{}}".format(' in fixed or '{}}".format(' in fixed:
        return "fstring-nested-spec-desugared"
    return f"{verdict}:{type(node).__name__}"


FRAG_CONTEXTS = ("{}", "({})", "{}\n    pass", "@deco\n{}\ndef f(): pass", "with x:\n    {}", "x[{}]", "f({})", "x {}",
                 "x{}", "{}:\n    pass", "match x:\n    case {}: pass", "match x:\n    {}", "if x:\n    pass\n{}",
                 "try:\n    pass\n{}", "f'{}'", 'f"{}"')


def fragment_parses(frag: str) -> bool:
    import warnings
    for w in FRAG_CONTEXTS:
        if w.startswith("f") and not (frag.startswith("{") and frag.endswith("}")):
            continue    # an f-string context only for a quoted replacement field
        try:
            with warnings.catch_warnings():
                warnings.simplefilter("ignore")
                ast.parse(w.replace("{}", frag))
            return True
        except (SyntaxError, ValueError):
            pass
    return False


def fragment_scan(ctx: Ctx) -> None:
    """Every back-ticked fragment of every diagnostic on test/data is Python (an expression,
    statement, clause, pattern, decorator or f-string field), unless it is schematic
    (contains `...`) or a bare piece of text (FURB156 character sets, ' with ')."""
    import glob
    import re

    from refurb.main import run_refurb
    from refurb.settings import Settings
    from ..core import REPO
    files = sorted(glob.glob(str(REPO / "test" / "data" / "err_*.py")))
    out = run_refurb(Settings(files=files, enable_all=True, quiet=True))
    n = 0
    for e in out:
        if isinstance(e, str):
            continue
        for frag in re.findall(r"`([^`]*)`", e.msg):
            n += 1
            if "..." in frag or e.code == 156 or not frag.strip() or frag.strip() in ("with",):
                continue
            ctx.case(("frag", e.code, frag), nontrivial=True)
            if not fragment_parses(frag):
                ctx.report(f"unparseable-fragment:FURB{e.code}",
                           f"FURB{e.code} quotes `{frag}`, which is not Python ({e.filename}:{e.line})",
                           {"file": e.filename, "line": e.line, "message": e.msg, "fragment": frag})
    ctx.count("diagnostic-fragments", n)
