"""C18 — refurb only reads: sources untouched, side outputs confined and well-formed."""
from __future__ import annotations

import ast
import hashlib
import json
import os
import shutil
import tempfile
from pathlib import Path

from .. import coq
from ..core import REPO, Ctx
from ..harness import lint as L
from ..translate.catalogue import TranslateError

S = coq.coq_str
EFFECT_CALLS = {"process_options", "build", "load_checks", "output_timing_stats"}
PURE_ASSIGN_CALLS = {"StringIO", "time", "RefurbVisitor", "str", "int", "Path", "sorted", "partial"}


def fail(n, msg):
    raise TranslateError(f"run_refurb:{getattr(n, 'lineno', '?')}: {msg}: {ast.unparse(n)[:80]}")


def calls_in(n) -> list[str]:
    out = []
    for x in ast.walk(n):
        if isinstance(x, ast.Call):
            f = x.func
            name = f.id if isinstance(f, ast.Name) else f.attr if isinstance(f, ast.Attribute) else None
            if name:
                out.append(name)
    return out


def tr_block(body) -> list[str]:
    out: list[str] = []
    for st in body:
        if isinstance(st, ast.Expr) and isinstance(st.value, ast.Constant):
            continue
        names = calls_in(st)
        if isinstance(st, ast.Try):
            handlers = []
            for h in st.handlers:
                if h.type is None or not isinstance(h.type, ast.Name):
                    fail(h, "handler must name one exception class")
                handlers.append(f"({S(h.type.id)}, {coq.coq_list(tr_block(h.body))})")
            if st.orelse:
                fail(st, "try/else")
            out.append(f"Try {coq.coq_list(tr_block(st.body))} {coq.coq_list(handlers)} {coq.coq_list(tr_block(st.finalbody))}")
        elif isinstance(st, ast.With):
            if len(st.items) == 1 and ast.unparse(st.items[0].context_expr).startswith("suppress(") and st.items[0].optional_vars is None:
                exn = ast.unparse(st.items[0].context_expr.args[0])
                out.append(f"Suppress {S(exn)} {coq.coq_list(tr_block(st.body))}")
            else:
                fail(st, "unrecognised with")
        elif isinstance(st, ast.For):
            if st.orelse:
                fail(st, "for/else")
            inner = tr_block(st.body)
            if inner:
                out.append(f"Loop {coq.coq_list(inner)}")
        elif isinstance(st, ast.If):
            if ast.unparse(st.test) == "mypy_timing_stats" and len(st.body) == 1 and not st.orelse \
                    and ast.unparse(st.body[0]) in ("mypy_timing_stats.unlink()", "mypy_timing_stats.unlink(missing_ok=True)"):
                out.append("UnlinkTemp")
            else:
                inner = tr_block(st.body) + tr_block(st.orelse)
                if any(x != "" for x in inner):
                    # an effect under a condition: both ways are possible
                    out.append(f"Loop {coq.coq_list(inner)}")
        elif isinstance(st, ast.Return):
            extra = [n for n in names if n in EFFECT_CALLS or n == "should_ignore_error"]
            out += [f"Call {S(n)}" for n in extra] + ["Return"]
        elif isinstance(st, (ast.Assign, ast.AnnAssign, ast.AugAssign, ast.Expr, ast.Assert)):
            if "mkstemp" in names:
                if ast.unparse(st).replace(" ", "") != "mypy_timing_stats=Path(mkstemp()[1])ifsettings.timing_statselseNone":
                    fail(st, "mkstemp used in an unrecognised way")
                out.append("CreateTemp")
            elif "unlink" in names:
                fail(st, "unlink outside `if mypy_timing_stats:`")
            elif "accept" in names:
                out.append('Call "accept"')
            else:
                for n in names:
                    if n in EFFECT_CALLS:
                        out.append(f"Call {S(n)}")
        else:
            fail(st, "unrecognised statement")
    return out


WRITE_NAMES = {"write_text", "write_bytes", "unlink", "mkstemp", "mkdtemp", "mkdir", "touch", "remove", "rmtree", "rename", "replace_file", "rmdir",
               "NamedTemporaryFile", "TemporaryDirectory", "copy", "copyfile", "move", "makedirs", "chmod", "symlink", "truncate"}


def write_sites(repo: Path) -> list[str]:
    sites = []
    for p in sorted((repo / "refurb").rglob("*.py")):
        rel = str(p.relative_to(repo))
        if rel == "refurb/gen.py" or "/checks/" in rel:
            continue   # gen is a separate sub-command (C19); checks only inspect nodes
        tree = ast.parse(p.read_text("utf8"))
        for n in ast.walk(tree):
            if isinstance(n, ast.Call):
                f = n.func
                name = f.id if isinstance(f, ast.Name) else f.attr if isinstance(f, ast.Attribute) else ""
                if name in WRITE_NAMES:
                    # what is written to is part of the site: the receiver of a method, else the first argument
                    tgt = ast.unparse(f.value) if isinstance(f, ast.Attribute) else (ast.unparse(n.args[0]) if n.args else "")
                    sites.append(f"{rel}:{name}@{tgt}")
                if name == "open" and (len(n.args) > 1 or any(k.arg == "mode" for k in n.keywords)):
                    sites.append(f"{rel}:open-with-mode")
    return sorted(sites)


def translate(repo: Path) -> str:
    tree = ast.parse((repo / "refurb" / "main.py").read_text("utf8"))
    fn = next((n for n in tree.body if isinstance(n, ast.FunctionDef) and n.name == "run_refurb"), None)
    if fn is None:
        raise TranslateError("run_refurb not found")
    prog = tr_block(fn.body)
    return ("From Lib Require Import Base Fs.\nOpen Scope list_scope.\n"
            f"Definition run_refurb_prog : list stmt := {coq.coq_list(prog)}.\n"
            f"Definition write_sites : list string := {coq.coq_list([S(x) for x in write_sites(repo)])}.\n")


# ---------------------------------------------------------------- execution
def snapshot(root: Path) -> dict:
    snap = {}
    for dp, dns, fns in os.walk(root):
        dns[:] = [d for d in dns if d != ".mypy_cache"]
        for d in dns:
            snap[os.path.join(dp, d)] = "dir"
        for f in fns:
            p = os.path.join(dp, f)
            try:
                st = os.stat(p)
                snap[p] = (st.st_size, st.st_mtime_ns, hashlib.sha256(Path(p).read_bytes()).hexdigest())
            except OSError:
                snap[p] = "unreadable"
    return snap


def run(ctx: Ctx) -> None:
    ctx.trusted_base += [
        "Coq 8.16.1 kernel + vm_compute (exhaustive enumeration of outcome paths)",
        "tools/vf/props/c18.py translate(): fail-closed extraction of run_refurb's try/except/finally/with/for skeleton and of every file-system write call in refurb/*.py",
        "Lib/Fs.v may_raise: hand-written summary of what each call can raise",
        "assumption: mypy writes only below its cache directory",
    ]
    ctx.rule("real CLI runs in a scratch tree with a private TMPDIR, snapshot (names, sizes, mtimes, SHA-256) before/after: clean / diagnostics / missing file / syntax error / empty package / invalid plugin / unimportable plugin / deep nesting, "
             "each with and without --timing-stats; the stats file parsed and checked; exhaustive over the scenario x flag table; distinct by scenario")
    b = None
    try:
        gen = translate(REPO)
    except TranslateError as e:
        ctx.obligation("translate run_refurb effect skeleton", False, str(e))
        gen = None
    if gen is not None:
        b = coq.compile_props(ctx, {"GenRun": gen}, ["GenRun", "C18", "C18Sites"])
        coq.record_build(ctx, b)
    td = Path(tempfile.mkdtemp(prefix="c18-"))
    try:
        tree = td / "tree"
        tmp = td / "tmp"
        tree.mkdir()
        tmp.mkdir()
        (tree / "clean.py").write_text("x = 1\n")
        (tree / "diag.py").write_text("x = int(0)\ny = not not x\n")
        (tree / "syntax.py").write_text("def f(:\n")
        (tree / "pkg").mkdir()
        (tree / "emptydir").mkdir()
        (tree / "pkg" / "__init__.py").write_text("")
        (tree / "pkg" / "m.py").write_text("z = str('')\n")
        (tree / "deep.py").write_text("x = " + "[" * 80 + "]" * 80 + "\n")
        (tree / "longsum.py").write_text("rows = []\nrows.append(1)\nrows.append(2)\ntotal = 1" + " + 1" * 700 + "\n")     # refurb's traversal gives up on it (RecursionError, swallowed)
        (tree / "badplugin.py").write_text("from dataclasses import dataclass\nfrom refurb.error import Error\n@dataclass\nclass ErrorInfo(Error):\n    code = 900\n    prefix = 'ZZZ'\n    msg: str = 'm'\ndef check(a, b, c, d):\n    pass\n")
        (tree / "readonly.txt").write_text("keep me\n")
        (tree / "conf").mkdir()
        (tree / "conf" / "refurb.toml").write_text("[tool.refurb]\nenable_all = true\n")
        (tree / "conf" / "none.toml").write_text("[tool.refurb]\ndisable_all = true\n")
        # what is selected does not decide whether the side output is written: no check at all, one check, everything ignored
        selections = [("no-check-selected", ["diag.py", "pkg", "--disable-all"]), ("no-check-selected-by-config", ["diag.py", "--config-file", "conf/none.toml"]),
                      ("one-check-selected", ["diag.py", "--disable-all", "--enable", "FURB123"]), ("every-finding-ignored", ["diag.py", "--ignore", "FURB123", "--ignore", "FURB114"]),
                      ("category-disabled", ["diag.py", "pkg", "--disable", "#readability"]), ("quiet-no-check", ["clean.py", "--quiet", "--disable-all"]),
                      # ... nor do the options that only add output
                      ("debug", ["clean.py", "--debug"]), ("debug-with-diagnostics", ["diag.py", "pkg", "--debug"]), ("verbose-quiet", ["diag.py", "--verbose", "--quiet"]),
                      ("debug-github", ["diag.py", "--debug", "--format", "github"]), ("sorted-by-error", ["diag.py", "pkg", "--sort", "error"])]
        scen = selections + [("config-elsewhere", ["diag.py", "--config-file", "conf/refurb.toml"]), ("clean", ["clean.py"]), ("diagnostics", ["diag.py", "pkg"]), ("missing-file", ["nope.py"]), ("syntax-error", ["syntax.py", "diag.py"]),
                ("empty-dir", ["emptydir"]), ("invalid-plugin", ["diag.py", "--load", "badplugin"]), ("unimportable-plugin", ["diag.py", "--load", "no_such_plugin_mod"]),
                ("deep", ["deep.py"]), ("recursion-limit", ["longsum.py", "diag.py"]), ("recursion-limit-last", ["clean.py", "longsum.py"]), ("same-file-twice", ["diag.py", "diag.py", "pkg/m.py"]), ("github-format", ["diag.py", "--format", "github"]), ("explain", ["--explain", "FURB123"]), ("verbose", ["clean.py", "--verbose", "--enable-all"])]
        for name, args in scen:
            for timing in (False, True):
                if timing and name == "explain":
                    continue
                stats = tree / f"stats_{name}.json"
                argv = list(args) + (["--timing-stats", stats.name] if timing else [])
                for p in tmp.iterdir():
                    shutil.rmtree(p, ignore_errors=True) if p.is_dir() else p.unlink()
                before = snapshot(tree)
                rc, out, err = L.cli(argv, cwd=str(tree), env_extra={"TMPDIR": str(tmp), "PYTHONPATH": f"{tree}:{L.ENV['PYTHONPATH']}"})
                after = snapshot(tree)
                left = sorted(p.name for p in tmp.iterdir())
                ctx.case((name, timing), nontrivial=True, sample={"scenario": name, "timing_stats": timing, "rc": rc, "tmp_left": left})
                ctx.count("scenario")
                if not L.clean_verdict(rc, out, err):
                    ctx.report(f"crash:{name}", f"scenario {name}: exit {rc}: " + (err.strip().splitlines() or ["?"])[-1][:150], {"argv": argv, "stderr": err[-1200:]})
                if left:
                    ctx.report(f"temp-file-left:{name}", f"scenario {name} (timing-stats={timing}) leaves {left} in the temporary directory",
                               {"argv": argv, "tmpdir_content": left, "rc": rc, "stdout": out[-300:]})
                changed = {k for k in set(before) | set(after) if before.get(k) != after.get(k)}
                changed.discard(str(stats))
                if changed:
                    ctx.report(f"tree-modified:{name}", f"scenario {name} changed {sorted(os.path.relpath(c, tree) for c in changed)[:4]} in the checked tree",
                               {"argv": argv, "changed": sorted(changed)[:10]})
                if timing and stats.exists():
                    ok, why = stats_ok(stats, name)
                    if not ok:
                        ctx.report(f"stats-malformed:{name}", f"--timing-stats file of scenario {name}: {why}", {"argv": argv, "content": stats.read_text()[:500]})
                    stats.unlink()
                elif timing and name in ("clean", "diagnostics", "deep", "github-format", "verbose", "config-elsewhere", "recursion-limit", "recursion-limit-last", *[n_ for n_, _ in selections]):
                    ctx.report(f"stats-missing:{name}", f"--timing-stats file was not written in scenario {name}", {"argv": argv, "stdout": out[-300:]})
    finally:
        shutil.rmtree(td, ignore_errors=True)
    ctx.exhaustive = True
    side = ("temp-file-left:", "tree-modified:", "stats-missing:", "stats-malformed:")
    ctx.resolve_broken({"no_temp_left": side, "write_sites_confined": side, "paths_within_fuel": side, "temp_exists_midway": side,
                        "translate run_refurb effect skeleton": side}, b.first_error if b else "")


def stats_ok(path: Path, scen: str) -> tuple[bool, str]:
    try:
        d = json.loads(path.read_text())
    except ValueError as e:
        return False, f"not JSON: {e}"
    keys = ["mypy_total_time_spent_in_ms", "mypy_time_spent_parsing_modules_in_ms", "refurb_time_spent_checking_file_in_ms"]
    if not isinstance(d, dict) or sorted(d) != sorted(keys):
        return False, f"keys {sorted(d) if isinstance(d, dict) else type(d)}"
    if not isinstance(d[keys[0]], int) or isinstance(d[keys[0]], bool):
        return False, "total time is not an integer"
    for k in keys[1:]:
        if not isinstance(d[k], dict) or not all(isinstance(v, int) and not isinstance(v, bool) for v in d[k].values()):
            return False, f"{k} is not a map of integers"
    want = {"clean": {"clean"}, "diagnostics": {"diag", "pkg", "pkg.m"}, "deep": {"deep"}, "github-format": {"diag"}, "verbose": {"clean"},
            "recursion-limit": {"longsum", "diag"}, "recursion-limit-last": {"clean", "longsum"}, "config-elsewhere": {"diag"}}.get(scen)
    for k in keys[1:]:
        if want and not want <= set(d[k]):
            return False, f"{k} has no entry for the checked modules {sorted(want - set(d[k]))}"
    return True, ""
