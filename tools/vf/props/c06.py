"""C06 — 'same expression' diagnostics fire only when the operands really are the same."""
from __future__ import annotations

import ast
import shutil

from .. import coq
from ..core import REPO, Ctx
from ..harness import exprgen as G
from ..harness import to_coq as TC
from ..translate.catalogue import TranslateError
from ..translate.equiv import translate

CURATED = [
    # (label, source of A, source of B, layout)  -- replayed first on every run
    ("identical-name", "a", "a", "one"),
    ("different-name", "a", "b", "one"),
    ("alias-module", "os.path", "o2.path", "one"),
    # one symbol reached through different spellings: the operands are not the same expression
    ("same-symbol-other-base", "os.path.sep", "posixpath.sep", "one"),
    ("same-symbol-other-base-call", "os.path.join(s, s)", "posixpath.join(s, s)", "one"),
    ("same-symbol-from-import", "ospath.sep", "os.path.sep", "one"),
    ("same-symbol-alias-of-other-module", "pp2.curdir", "os.path.curdir", "one"),
    ("same-attribute-same-base", "os.path.sep", "os.path.sep", "one"),
    ("other-attribute-same-base", "os.path.sep", "os.path.altsep", "one"),
    ("nonbmp-literal", '"\U0001f600"', '"ὠ0"', "one"),
    ("literal-int-float", "1", "1.0", "one"),
    ("literal-str-bytes", '"a"', 'b"a"', "one"),
    ("multiline-conditional", "(7 if a else 9)", "(7 if a else 9)", "two"),
    ("multiline-lambda", "(lambda p: p)", "(lambda p: p)", "two"),
    ("multiline-call", "f(a, key=b)", "f(a, key=b)", "two"),
    ("multiline-comprehension", "[i for i in xs]", "[i for i in xs]", "two"),
    ("argkind", "f(a)", "f(key=a)", "one"),
    ("keyword-name", "f(key=a)", "f(sep=a)", "one"),
    ("star", "f(*xs)", "f(xs)", "one"),
    ("arity", "f(a)", "f(a, b)", "one"),
    ("dict-splat", "{**d}", "{a: d}", "one"),
    ("slice-part", "xs[1:]", "xs[1:2]", "one"),
    ("slice-none", "xs[:]", "xs[None:]", "one"),
    ("cmp-chain", "a < b < c", "a < b <= c", "one"),
    ("cmp-arity", "a < b", "a < b < c", "one"),
    ("unary", "-a", "+a", "one"),
    ("paren-whitespace", "(a  +  b)", "a+b", "one"),
    ("tuple-vs-list", "(a, b)", "[a, b]", "one"),
    ("redefinition", "n", "n", "one"),
]
# node classes that have no structural case of their own are compared through mypy's rendering of them: texts that differ
# only where such a rendering carries its own punctuation (`:<line>` tags, `ClassName(...)`), inside every such class
_RENDER_TEXTS = [("host:80", "host:8080"), (":1", ":2"), ("a:-1", "a:-12"), ("NameExpr(a)", "NameExpr(b)"), ("x:3:y", "x:4:y"), ("1", "1 ")]
_RENDER_WRAPS = [("bytes", "b{!r}"), ("lambda", "(lambda: {!r})"), ("conditional", "({!r} if a else 0)"), ("comprehension", "[{!r} for _ in xs]"),
                 ("fstring", "f'{{a}}' {!r}"), ("str", "{!r}"), ("call-arg", "f(b{!r})"), ("set-comp", "{{{!r} for _ in xs}}")]
# the same operands in the same order under one repeated operator, grouped differently
_OPS = ["-", "/", "**", "%", "//", "<<", "+", "*", "@", "|", "&", "^"]
CURATED += [(f"regrouped:{op}", l_, r_, "one") for op in _OPS for l_, r_ in (
    (f"a {op} (b {op} c)", f"a {op} b {op} c"), (f"(a {op} b) {op} c", f"a {op} b {op} c"), (f"a {op} (b {op} (c {op} n))", f"(a {op} b) {op} (c {op} n)"),
    (f"f(a {op} (b {op} c))", f"f(a {op} b {op} c)"), (f"(a {op} b) {op} (c {op} n)", f"a {op} b {op} c {op} n")) if l_ != r_]
CURATED += [(f"rendering-text:{w}", t.format(x), t.format(y), layout) for w, t in _RENDER_WRAPS for x, y in _RENDER_TEXTS for layout in ("one", "two")]

UNREACHABLE = """
import sys
if sys.version_info < (3, 0):
    P_9000 = (und1, und2)
    P_9001 = (und1.x, und2.x)
    P_9002 = (und1, und1)
"""


def names_unresolved(node) -> bool:
    import mypy.nodes as N
    from refurb.visitor import TraverserVisitor
    bad = []

    class V(TraverserVisitor):
        def visit_name_expr(self, o):
            if not o.fullname:
                bad.append(o.name)
    V().accept(node)
    return bool(bad)


def analyzed_index(node) -> bool:
    """an `x[i]` that mypy has re-read as a type application (x is a function or class): its str()
    rendering, which the fallback comparison uses, no longer contains the index expression"""
    import mypy.nodes as N
    from refurb.visitor import TraverserVisitor
    hit = []

    class V(TraverserVisitor):
        def visit_index_expr(self, o):
            if o.analyzed is not None:
                hit.append(o)
            super().visit_index_expr(o)
    V().accept(node)
    return bool(hit)


def classify(real: bool, sa: str, sb: str, a, b, label: str) -> str:
    if real:   # reported same although the syntax differs
        if names_unresolved(a) or names_unresolved(b):
            return "unsound:unresolved-names"
        if "o2" in sa or "o2" in sb:
            return "unsound:import-alias"
        if analyzed_index(a) or analyzed_index(b):
            return "unsound:str-fallback-type-application"
        if any(ord(ch) > 0xFFFF or ch == "\\" for ch in sa + sb):
            return "unsound:str-literal-rendering"
        return f"unsound:{label}"
    import mypy.nodes as N
    from refurb.visitor import TraverserVisitor
    explicit = (N.NameExpr, N.MemberExpr, N.IndexExpr, N.CallExpr, N.ListExpr, N.TupleExpr, N.SetExpr, N.DictExpr,
                N.StarExpr, N.UnaryExpr, N.OpExpr, N.ComparisonExpr, N.SliceExpr, N.IntExpr, N.StrExpr, N.BytesExpr,
                N.FloatExpr, N.ComplexExpr, N.EllipsisExpr)
    fallback = []

    class V(TraverserVisitor):
        pass

    v = V()
    for nm in dir(TraverserVisitor):
        if nm.startswith("visit_"):
            def mk(nm=nm):
                base = getattr(TraverserVisitor, nm)

                def fn(o):
                    if isinstance(o, N.Expression) and not isinstance(o, explicit):
                        fallback.append(type(o).__name__)
                    return base(v, o)
                return fn
            setattr(v, nm, mk())
    v.accept(a)
    if fallback:
        # ConditionalExpr, LambdaExpr, AssignmentExpr, comprehensions, ... have no case of
        # their own and are compared through str(), which embeds line numbers and
        # definition markers
        return "incomplete:str-fallback"
    return f"incomplete:{type(a).__name__}"


def run(ctx: Ctx) -> None:
    ctx.trusted_base += [
        "Coq 8.16.1 kernel",
        "tools/vf/translate/equiv.py (fail-closed translation of is_equivalent / unmangle_name)",
        "tools/vf/harness/to_coq.py serialiser; Lib/Equiv.v strconv (literal renderings modelled exactly; classes rendered through a class tag: assumption that mypy renders different classes differently)",
    ]
    ctx.assumptions += ["guard: names resolved with fullname ending in the spelled name; ConditionalExpr/LambdaExpr/AwaitExpr/AssignmentExpr and all other classes reach the str() fallback (handed to the model as EOpaque with mypy's rendering)"]
    ctx.rule("ordered pairs (identical in another layout / single-edit mutant / unrelated) of generated expressions depth<=4, harvested from real mypy trees; "
             "non-trivial = pair of depth>=1; distinct by (source A, source B)")
    b = None
    try:
        gen = translate(REPO)
    except TranslateError as e:
        ctx.obligation("translate is_equivalent", False, str(e))
        gen = None
    if gen is not None:
        b = coq.compile_props(ctx, {"GenEquiv": gen}, ["GenEquiv", "C06Proofs", "C06", "C06Findings"])
        fin = {k: v for k, v in b.theorems.items() if v["file"] == "C06Findings"}
        for k in fin:
            del b.theorems[k]
        coq.record_build(ctx, b)
        ctx.extra["findings_lemmas"] = {k: ("derivable" if v["ok"] else "no longer derivable") for k, v in fin.items()}
    model_ok = b is not None and b.files.get("GenEquiv", {}).get("rc") == 0

    # ---- probes
    rng = ctx.rng
    gen_ = G.Gen(rng)
    pairs = []   # (label, srcA, srcB, layout)
    pairs += CURATED
    n = ctx.budget(500, 12000)
    while len(pairs) < n + len(CURATED):
        A = gen_.expr(rng.choice([1, 2, 2, 3, 3, 4]))
        sa = G.unparse(A)
        if sa is None:
            continue
        r = rng.random()
        layout = "two" if rng.random() < 0.15 else "one"
        if r < 0.3:
            pairs.append(("identical", sa, sa if rng.random() < 0.5 else f"( {sa} )", layout))
        elif r < 0.85:
            for kind, t in G.mutants(rng, A, 2):
                pairs.append((f"mutant:{kind}", sa, G.unparse(t), layout))
        else:
            sb = G.unparse(gen_.expr(rng.choice([1, 2, 3])))
            if sb:
                pairs.append(("unrelated", sa, sb, layout))
    files, per = {}, 400
    index = {}
    for fi in range(0, len(pairs), per):
        lines = [G.PRELUDE, "async def _w() -> None:"]
        for j, (label, sa, sb, layout) in enumerate(pairs[fi:fi + per]):
            i = fi + j
            sep = ",\n        " if layout == "two" else ", "
            lines.append(f"    P_{i} = (({sa}){sep}({sb}))")
            index[(f"p{fi // per}.py", f"P_{i}")] = i
        files[f"p{fi // per}.py"] = "\n".join(lines) + "\n"
    files["unreach.py"] = UNREACHABLE
    extra = {("unreach.py", "P_9000"): ("unreachable", "und1", "und2"), ("unreach.py", "P_9001"): ("unreachable", "und1.x", "und2.x"),
             ("unreach.py", "P_9002"): ("unreachable-same", "und1", "und1")}
    found, errs, td = TC.harvest(files)
    if getattr(TC.harvest, "skipped", None):
        ctx.count("statements-mypy-itself-crashed-on", len(TC.harvest.skipped))
        ctx.notes.append("generated statements removed because mypy hit its own INTERNAL ERROR on them: " + " | ".join(x.strip()[:160] for x in TC.harvest.skipped[:3]))
    try:
        if errs:
            ctx.obligation("probe corpus builds under mypy", False, errs[0][:300])
            return
        from refurb.checks.common import is_equivalent
        import mypy.nodes as N
        cases = []
        for key, node in found.items():
            if not isinstance(node, N.TupleExpr) or len(node.items) != 2:
                continue
            if key in extra:
                label, sa, sb = extra[key]
            else:
                label, sa, sb, _ = pairs[index[key]]
            a, bb = node.items
            real = bool(is_equivalent(a, bb))
            want = G.norm_dump(sa) == G.norm_dump(sb)
            ctx.case((sa, sb), nontrivial=len(sa) > 1, sample={"label": label, "A": sa, "B": sb, "real": real} if rng.random() < 0.004 else None)
            ctx.count(label.split(":")[0])
            ctx.count("equivalent" if real else "not-equivalent")
            cases.append((key, a, bb, real))
            if real != want:
                k = classify(real, sa, sb, a, bb, label)
                ctx.report(k, f"is_equivalent({sa!r}, {sb!r}) = {real} but the operands are {'identical' if want else 'different'} syntax",
                           {"A": sa, "B": sb, "label": label, "real": real, "expected": want,
                            "how": "probe `P = ((A), (B))` harvested from the mypy tree; refurb.checks.common.is_equivalent on the two items"})
        # ---- correspondence: generated Coq is_equiv on the serialised nodes = real function
        if model_ok and cases:
            shards, metas = [], []
            for i in range(0, len(cases), 250):
                chunk = cases[i:i + 250]
                body = "Definition cs : list (expr * expr * bool) := [\n" + ";\n".join(
                    f"({TC.expr(a, True)}, {TC.expr(bb, True)}, {coq.coq_bool(r)})" for _, a, bb, r in chunk) + "].\n" \
                    "Eval vm_compute in (fix go i l := match l with [] => [] | (a, b, r) :: t => " \
                    "if Bool.eqb (is_equiv a b) r then go (S i) t else i :: go (S i) t end) 0 cs.\n"
                shards.append(body)
                metas.append(chunk)
            hdr = ("From Lib Require Import Base PyAst Equiv.\nFrom P Require Import GenEquiv.\nOpen Scope list_scope.\n"
                   "Set Printing Width 100000.\n")
            res = coq.eval_shards(ctx, "pairs", hdr, shards, timeout=600)
            mism = []
            for (rc, out, err), chunk in zip(res, metas):
                vals = coq.parse_eval_values(out)
                if rc != 0 or not vals:
                    mism.append("coqc failed: " + err[-300:])
                    continue
                idx = [int(x) for x in vals[0].strip("[]").split(";") if x.strip()]
                for i in idx[:3]:
                    key, a, bb, r = chunk[i]
                    mism.append(f"{key}: real {r}, model {not r}: {str(a)[:60]} / {str(bb)[:60]}")
            ctx.obligation("correspondence: generated Coq is_equiv = refurb.checks.common.is_equivalent on every harvested pair",
                           not mism, "; ".join(mism[:4]))
            ctx.extra["tie_pairs"] = len(cases)
        # ---- end to end: FURB110 on `(A) if (B) else c0` is present exactly when the operands are the same
        sameness_checks_e2e(ctx)
        e2e(ctx, [(k, pairs[index[k]]) for k, *_ in cases if k in index][: ctx.budget(150, 1500)],
            {k: r for k, _, _, r in cases})
    finally:
        shutil.rmtree(td, ignore_errors=True)
    ctx.resolve_broken({"is_equiv_sound": "unsound:", "is_equiv_refl": "incomplete:", "differing_operator_never_same": "unsound:",
                        "differing_attribute_never_same": "unsound:", "differing_arity_never_same": "unsound:",
                        "differing_argkind_or_keyword_never_same": "unsound:", "differing_int_literal_never_same": "unsound:"},
                       b.first_error if b else "")


SAMENESS_CODES = (108, 110, 124, 132, 136, 142, 148, 188)


def sameness_checks_e2e(ctx: Ctx) -> None:
    """Every check whose justification is that two operands are the same expression: its idioms (C01 rule table) with ONE occurrence
    of an operand replaced by another operand of the same type.  Such a variant may only be reported if it still is an instance of
    the idiom under a consistent substitution of operands for its operands (e.g. `y if y < x else x`, `y if y else y`); otherwise operands that differ were taken for the same."""
    import tempfile
    from pathlib import Path

    import refurb.main as rmain
    from refurb.error import ErrorCode
    from refurb.settings import Settings
    from . import c01
    from .c01_rules import RULES
    base = [r for r in RULES if r.code in SAMENESS_CODES and r.rhs is None and not r.annot and not r.fs]
    by_code: dict[int, list] = {}
    for r in base:
        by_code.setdefault(r.code, []).append(r)
    variants = []
    for r in base:
        for v in c01.variants(r):
            if v.note.endswith("[one operand occurrence substituted]"):
                variants.append((r, v))
    if not variants:
        ctx.notes.append("no operand-substituted variants of the sameness-justified idioms")
        return

    def is_instance(v) -> bool:
        """v.lhs is some base idiom of the same check with its operands consistently renamed"""
        try:
            vt = ast.parse(c01.textwrap.dedent(v.lhs))
        except SyntaxError:
            return True
        # symmetric comparisons may be written either way round: `z == y or x == z` is `y == z or z == x`
        sym = [n for n in ast.walk(vt) if isinstance(n, ast.Compare) and len(n.ops) == 1 and isinstance(n.ops[0], (ast.Eq, ast.NotEq, ast.Is, ast.IsNot))]
        shapes = []
        for mask in range(2 ** min(len(sym), 4)):
            for k, n in enumerate(sym[:4]):
                if mask >> k & 1:
                    n.left, n.comparators[0] = n.comparators[0], n.left
            shapes.append(ast.parse(ast.unparse(vt)))
            for k, n in enumerate(sym[:4]):
                if mask >> k & 1:
                    n.left, n.comparators[0] = n.comparators[0], n.left
        for b in [b for b in by_code[v.code] for _ in shapes]:
            try:
                bt = ast.parse(c01.textwrap.dedent(b.lhs))
            except SyntaxError:
                continue
            old = set(c01.PLACEHOLDERS)
            c01.PLACEHOLDERS.clear()
            c01.PLACEHOLDERS.update(b.params)
            try:
                ok = False
                for sh in shapes:
                    env = {}
                    if len(bt.body) == len(sh.body) and all(c01._unify(p, t, env, []) for p, t in zip(bt.body, sh.body)):
                        ok = True
                        break
                # the positions the idiom needs to be the same ARE the same (two operands of the idiom may coincide: `y if y else y`)
                if ok and all(isinstance(x, ast.Name) for x in env.values()):
                    return True
            finally:
                c01.PLACEHOLDERS.clear()
                c01.PLACEHOLDERS.update(old)
        return False
    lines = ["from typing import Any", "import os, io, re, math, hashlib, shlex, string", "from pathlib import Path"]
    spans = {}
    for i, (_, v) in enumerate(variants):
        prog = (v.setup or "") + c01.lint_program(v, i)
        start = sum(x.count("\n") + 1 for x in lines) + 1
        lines.append(prog.rstrip("\n"))
        spans[i] = (start, start + prog.count("\n"))
    with tempfile.TemporaryDirectory(prefix="c06s-") as td:
        f = Path(td) / "variants.py"
        f.write_text("\n".join(lines) + "\n")
        out = rmain.run_refurb(Settings(files=[str(f)], quiet=True, disable_all=True, enable={ErrorCode(c) for c in SAMENESS_CODES}))
    strs = [e for e in out if isinstance(e, str)]
    if strs:
        ctx.notes.append("sameness variants do not build: " + strs[0][:200])
        return
    for i, (r, v) in enumerate(variants):
        a, z = spans[i]
        hit = [e for e in out if a <= e.line <= z and e.code == v.code]
        inst = is_instance(v)
        ctx.case(("sameness", v.code, v.lhs), nontrivial=True, sample={"check": f"FURB{v.code}", "variant": v.lhs, "reported": bool(hit), "still_the_idiom": inst} if i % 40 == 0 else None)
        ctx.count(f"sameness-variant:{'reported' if hit else 'silent'}:{'idiom' if inst else 'not-idiom'}")
        if hit and not inst:
            ctx.report(f"e2e:sameness:FURB{v.code}", f"FURB{v.code} reports `{v.lhs}` (from `{r.lhs}` with one operand occurrence replaced): operands that differ were taken for the same: {hit[0].msg}",
                       {"source": v.lhs, "idiom": r.lhs, "message": hit[0].msg, "cmd": f"refurb --disable-all --enable FURB{v.code}"})


def e2e(ctx: Ctx, sel, real_by_key) -> None:
    import tempfile
    from pathlib import Path

    import refurb.main as rmain
    from refurb.error import ErrorCode
    from refurb.settings import Settings

    lines = [G.PRELUDE, "async def _w() -> None:"]
    expect = {}
    for key, (label, sa, sb, layout) in sel:
        if "*" in sa[:1] or "*" in sb[:1] or "\n" in sa + sb or layout != "one":
            continue
        if ":=" in sa + sb:
            # a walrus target is rendered `v*` where mypy sees its definition and `v` elsewhere: which operand
            # holds the definition depends on evaluation order, which differs between the probe tuple and the conditional
            ctx.count("e2e-skipped-walrus")
            continue
        lines.append(f"    _ = ({sa}) if ({sb}) else c")
        expect[len(lines) + G.PRELUDE.count("\n") - 1] = (key, sa, sb)
    with tempfile.TemporaryDirectory(prefix="c06e2e-") as td:
        p = Path(td) / "e2e.py"
        text = "\n".join(lines) + "\n"
        p.write_text(text)
        out = rmain.run_refurb(Settings(files=[str(p)], quiet=True, disable_all=True, enable={ErrorCode(110)}))
        strs = [e for e in out if isinstance(e, str)]
        if strs:
            ctx.obligation("FURB110 end-to-end corpus builds", False, strs[0][:200])
            return
        # only the OUTER conditional of each statement counts: it starts at the opening parenthesis, the
        # leftmost column any diagnostic of this file can have (operands may contain `x if x else y` themselves)
        outer_col = min((e.column for e in out), default=0)
        flagged = {e.line for e in out if e.column == outer_col}
        src_lines = text.split("\n")
        bad = []
        for ln, (key, sa, sb) in expect.items():
            # locate by text (line numbers are those of the statement)
            stmt = f"    _ = ({sa}) if ({sb}) else c"
            ln = src_lines.index(stmt) + 1 if stmt in src_lines else None
            if ln is None:
                continue
            ctx.case(("e2e", sa, sb), nontrivial=True)
            ctx.count("e2e-FURB110")
            want = G.norm_dump(sa) == G.norm_dump(sb)
            got = ln in flagged
            if got != real_by_key[key]:
                bad.append(f"{stmt.strip()}: FURB110 {'reported' if got else 'absent'} but is_equivalent(if_expr, cond) = {real_by_key[key]}")
            if got and not want and not real_by_key[key]:
                ctx.report("e2e:flagged-different-operands", f"FURB110 on `{stmt.strip()}` although the operands differ",
                           {"source": stmt.strip(), "cmd": "refurb --disable-all --enable FURB110"})
        ctx.obligation("correspondence: FURB110 is emitted exactly when is_equivalent(if_expr, cond) holds (end to end)",
                       not bad, "; ".join(bad[:3]))
