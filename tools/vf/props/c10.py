"""C10 — checks do not interfere: any selection's output is a filter of the full output."""
from __future__ import annotations

import glob
import shutil
import tempfile
import json
import subprocess
from concurrent.futures import ThreadPoolExecutor
from pathlib import Path

from .. import coq
from ..core import PY, REPO, VERIF, Ctx
from ..harness.lint import ENV
from ..translate.catalogue import TranslateError
from ..translate.effects import translate


def report_pipeline(repo: Path) -> str:
    """GenReport.v: every statement of run_refurb that mentions the list `errors`, and the shape of should_ignore_error."""
    import ast
    tree = ast.parse((repo / "refurb" / "main.py").read_text("utf8"))
    rr = next((n for n in tree.body if isinstance(n, ast.FunctionDef) and n.name == "run_refurb"), None)
    si = next((n for n in tree.body if isinstance(n, ast.FunctionDef) and n.name == "should_ignore_error"), None)
    if rr is None or si is None:
        raise TranslateError("run_refurb / should_ignore_error not found")
    uses = []

    def simple(st) -> bool:
        return isinstance(st, (ast.Assign, ast.AnnAssign, ast.AugAssign, ast.Expr, ast.Return, ast.Delete, ast.Assert, ast.Raise))

    def walk(stmts):
        for st in stmts:
            if simple(st):
                if any(isinstance(x, ast.Name) and x.id == "errors" for x in ast.walk(st)):
                    uses.append(ast.unparse(st))
            else:
                # compound statement: its header may mention the list too (a loop over it, a with/if on it)
                hdr = [getattr(st, f, None) for f in ("test", "iter", "target", "subject")]
                hdr += [i.context_expr for i in getattr(st, "items", [])]
                for h in hdr:
                    if h is not None and any(isinstance(x, ast.Name) and x.id == "errors" for x in ast.walk(h)):
                        uses.append(ast.unparse(h) + "  (header of a " + type(st).__name__ + ")")
                for f in ("body", "orelse", "finalbody"):
                    walk(getattr(st, f, []) or [])
                for h in getattr(st, "handlers", []) or []:
                    walk(h.body)
                for c in getattr(st, "cases", []) or []:
                    walk(c.body)
    walk(rr.body)
    body = [s for s in si.body if not (isinstance(s, ast.Expr) and isinstance(s.value, ast.Constant))]
    if (len(body) == 2 and ast.unparse(body[0]) == "if isinstance(error, str):\n    return False" and isinstance(body[1], ast.Return)):
        shape = "isinstance(error, str) -> False | " + ast.unparse(body[1].value)
    else:
        shape = " ; ".join(ast.unparse(s) for s in body)
    return ("From Lib Require Import Base.\nOpen Scope list_scope.\n"
            f"Definition errors_uses : list string := {coq.coq_list([coq.coq_str(u) for u in uses])}.\n"
            f"Definition should_ignore_shape : string := {coq.coq_str(shape)}.\n")


def run_jobs(jobs: list[dict], workers: int = 12, timeout: int = 3000) -> dict:
    groups = [jobs[i::workers] for i in range(workers)]
    groups = [g for g in groups if g]

    def one(g):
        p = subprocess.run([PY, "-m", "vf.harness.select_worker"], input="\n".join(json.dumps(j) for j in g),
                           capture_output=True, text=True, env=ENV, timeout=timeout)
        return [json.loads(l) for l in p.stdout.splitlines() if l.startswith("{")]

    res = {}
    with ThreadPoolExecutor(max_workers=len(groups) or 1) as ex:
        for rs in ex.map(one, groups):
            for r in rs:
                res[r["id"]] = r
    return res



def composed_corpus(ctx: Ctx, path: Path) -> int:
    """Idioms nested in idioms: for every pair (outer rule with an operand of type T, inner rule whose
    value has type T) of the C01 rule table, the outer idiom with that operand replaced by the inner one.
    Diagnostics of different checks then start at the same position or sit inside each other."""
    import ast
    from .c01 import ANNOT, VALUES, make_fn
    from .c01_rules import RULES
    tag_of = {int: "int", str: "str", float: "float", bool: "bool"}
    pure = [r for r in RULES if r.mode in ("expr", "cond") and r.cls == "P" and not r.fs and r.rhs is None and all(t in ANNOT for t in r.params.values())]
    inner_by_tag: dict[str, list] = {}
    for r in pure:
        try:
            ns: dict = {}
            exec("import os, io, re, math, operator, itertools, functools\nfrom itertools import chain, starmap\n" + (r.setup or ""), ns)
            v = make_fn(r.lhs, r, ns)(**{p: VALUES[t][min(1, len(VALUES[t]) - 1)] for p, t in r.params.items()})
        except Exception:  # noqa: BLE001
            continue
        tag = tag_of.get(type(v))
        if tag is None and isinstance(v, list) and all(isinstance(x, int) for x in v):
            tag = "list_int"
        if tag:
            inner_by_tag.setdefault(tag, []).append(r)
    units, setups = [], []
    pairs = [(o, p, i) for o in pure for p, t in o.params.items() for i in inner_by_tag.get(t, [])]
    ctx.rng.shuffle(pairs)
    # where the composed expression stands: a plain statement, or one of the condition-like places (checks that look at conditions
    # see it there before the traversal reaches the operands).  Every pair of check codes is placed once as a statement and once in a
    # condition-like place (rotating); the rest of the budget goes to further pairs.
    PLACES = ["_ = {E}", "if {E}:\n        pass", "while {E}:\n        break", "assert {E}", "_ = 1 if ({E}) else 2", "_ = [1 for _q in () if ({E})]", "return {E}"]
    first_of_code_pair: dict = {}
    for o, p, i in pairs:
        first_of_code_pair.setdefault((o.code, i.code, o.params[p]), (o, p, i))        # per type of the shared operand too: what a check does to a list it need not do to a str
    chosen = [(t3, 0) for t3 in first_of_code_pair.values()] + [(t3, 1 + k_ % (len(PLACES) - 1)) for k_, t3 in enumerate(first_of_code_pair.values())]
    chosen += [(t3, k_ % len(PLACES)) for k_, t3 in enumerate(pairs[: ctx.budget(250, 2500)])]
    ctx.count("composed-code-pairs", len(first_of_code_pair))
    for k, ((o, p, i), place) in enumerate(chosen):
        ren = {q: f"i_{q}" for q in i.params}

        class Ren(ast.NodeTransformer):
            def visit_Name(self, n):
                return ast.copy_location(ast.Name(id=ren.get(n.id, n.id), ctx=n.ctx), n)
        inner = Ren().visit(ast.parse(i.lhs, mode="eval").body)

        class Sub(ast.NodeTransformer):
            def visit_Name(self, n):
                return inner if n.id == p else n
        try:
            expr = ast.unparse(ast.fix_missing_locations(Sub().visit(ast.parse(o.lhs, mode="eval").body)))
        except SyntaxError:
            continue
        params = [f"{q}: {ANNOT[t]}" for q, t in o.params.items() if q != p] + [f"{ren[q]}: {ANNOT[t]}" for q, t in i.params.items()]
        for st in (o.setup, i.setup):
            if st and st not in setups:
                setups.append(st)
        units.append(f"def _c{k}({', '.join(params)}):\n    " + PLACES[place].replace("{E}", expr) + "\n")
    # two checks on the very same node: an idiom passed as an argument that equals the parameter's default (FURB120 reports the
    # argument, the idiom's own check reports the same expression)
    for k, r in enumerate(pure[: ctx.budget(120, 400)]):
        params = [f"{q}: {ANNOT[t]}" for q, t in r.params.items()]
        if r.setup and r.setup not in setups:
            setups.append(r.setup)
        units.append(f"def _d{k}({', '.join(params)}):\n    def _inner(p=({r.lhs})):\n        return p\n    return _inner(({r.lhs}))\n")
    path.write_text("from typing import Any\nimport os, io, re, math, operator, itertools, functools\n" + "".join(setups) + "\n" + "\n".join(units))
    return len(units)


def run(ctx: Ctx) -> None:
    ctx.trusted_base += [
        "Coq 8.16.1 kernel",
        "tools/vf/translate/effects.py: static effect summary of every check module (module-level objects mutated, attributes of non-local objects assigned, uses of the error list, cross-module imports)",
        "Lib/Effects.v allow-list (FURB120: typeshed Argument.initializer, len(errors))",
        "the run model of Lib/Run.v: a check = a function of (node, its own state)",
    ]
    ctx.assumptions += ["soundness of the static effect summary w.r.t. the dynamic behaviour of the checks is validated by the selection runs only (partial)"]
    ctx.rule("programs (test/data groups + kitchen sink) x selections (every full run vs singletons / complements / random subsets, by --enable, --disable and --ignore), each run in a fresh process; "
             "non-trivial = selection run that reports at least one diagnostic; distinct by (files, mode, selection)")
    b = None
    rows = []
    try:
        gen, rows = translate(REPO)
    except TranslateError as e:
        ctx.obligation("translate effect summary", False, str(e))
        gen = None
    if gen is not None:
        # state that outlives a single check call and lives OUTSIDE the check modules (helpers every check calls into):
        # memoised functions and module-level containers some function mutates
        from .c11 import process_state
        check_files = {r["module"].replace(".", "/") + ".py" for r in rows}
        helper_state = [e for e in process_state(REPO) if e.split(":")[1] not in check_files and e.split(":")[1] != "refurb/main.py"]
        gen += "Definition helper_state : list string := " + coq.coq_list([coq.coq_str(x) for x in helper_state]) + ".\n"
        ctx.extra["helper_state"] = helper_state
        gens_, order_ = {"GenEffects": gen}, ["GenEffects", "C10", "C10Helpers"]
        try:
            gens_["GenReport"] = report_pipeline(REPO)
            order_ += ["GenReport", "C10Report"]
        except TranslateError as e:
            ctx.obligation("translate run_refurb's handling of the collected diagnostics", False, str(e))
        b = coq.compile_props(ctx, gens_, order_)
        coq.record_build(ctx, b)
        ctx.extra["effect_rows_nontrivial"] = [r for r in rows if r["mutated_globals"] or r["ast_writes"] or r["errors_reads"] or r["foreign"]]
    rng = ctx.rng
    data = sorted(glob.glob(str(REPO / "test" / "data" / "err_*.py")))
    stateful = [f for f in data if any(x in f for x in ("err_120", "err_140", "err_179", "err_183", "err_185", "err_188", "err_184"))]
    rng.shuffle(data)
    groups = [stateful + [str(VERIF / "corpus" / "C04" / "kitchen.py")]]
    nested = len(groups)
    groups.append([str(VERIF / "corpus" / "C10" / "nested.py")])     # idioms of the record-keeping checks inside each other's constructs
    same_names = len(groups)
    groups.append([str(VERIF / "corpus" / "C10" / "same_names.py")])  # same short names, different types, looked at by different checks in both orders
    comp_dir = Path(tempfile.mkdtemp(prefix="c10-"))
    callables = len(groups)
    # every way a callee's signature is found, after other checks have reported: the whole file, and one file per call (so that each
    # call is also the first thing its own check reports in a file where another check has reported before it)
    cal_src = (VERIF / "corpus" / "C10" / "callables.py").read_text()
    cal_defs, cal_calls = cal_src.split("# ---- calls\n", 1)
    cal_files = [str(VERIF / "corpus" / "C10" / "callables.py")]
    for j, line in enumerate(l for l in cal_calls.split("\n") if l and not l.startswith((" ", "def ", "#"))):
        (comp_dir / f"callable_{j}.py").write_text(cal_defs + line + "\n")
        cal_files.append(str(comp_dir / f"callable_{j}.py"))
    groups.append(cal_files)
    n_comp = composed_corpus(ctx, comp_dir / "composed.py")
    ctx.count("composed-idioms", n_comp)
    composed = len(groups)
    groups.append([str(comp_dir / "composed.py")])
    k = ctx.budget(2, 9)
    rest = [f for f in data if f not in stateful]
    groups += [rest[i::k] for i in range(k)][: ctx.budget(2, 9)]
    jobs = []
    for gi, files in enumerate(groups):
        jobs.append({"id": f"{gi}:all", "files": files, "mode": "all"})
    base = run_jobs(jobs)
    jobs2 = []
    plan = {}
    for gi, files in enumerate(groups):
        full = base.get(f"{gi}:all", {})
        if "out" not in full:
            ctx.obligation(f"full run of group {gi}", False, str(full.get("error"))[:300])
            continue
        codes = sorted({d[3] for d in full["out"] if d[3]})
        picks = []
        sample_codes = codes if ctx.tier == "thorough" or gi in (nested, composed, same_names, callables) else rng.sample(codes, min(len(codes), 6 if gi else 10))
        for c in sample_codes:
            picks.append(("only", [c]))
            if ctx.tier == "thorough" or gi in (nested, composed, same_names, callables) or rng.random() < 0.5:
                picks.append(("all-but", [c]))
            if ctx.tier == "thorough" or rng.random() < 0.3:
                picks.append(("all-ignore", [c]))
        for _ in range(ctx.budget(2, 10)):
            picks.append(("only", rng.sample(codes, max(1, len(codes) // 2))))
        for pi, (mode, sel) in enumerate(picks):
            jid = f"{gi}:{pi}"
            jobs2.append({"id": jid, "files": files, "mode": mode, "codes": sel})
            plan[jid] = (gi, mode, sel)
    res = run_jobs(jobs2)
    for jid, (gi, mode, sel) in plan.items():
        r = res.get(jid, {})
        full = base[f"{gi}:all"]["out"]
        if "out" not in r:
            ctx.report(f"selection-run-crash:{mode}", f"run with {mode} {sel} failed: {r.get('error')}", {"files": groups[gi], "mode": mode, "codes": sel})
            continue
        want = [d for d in full if (d[3] in sel) == (mode == "only")]
        got = r["out"]
        ctx.case((gi, mode, tuple(sel)), nontrivial=bool(got), sample={"mode": mode, "codes": sel, "diagnostics": len(got)} if rng.random() < 0.05 else None)
        ctx.count(mode)
        if got != want:
            from collections import Counter
            cg, cw = Counter(map(tuple, got)), Counter(map(tuple, want))
            extra = [list(d) for d in (cg - cw).elements()][:3]          # multiset difference: a duplicate is an extra diagnostic
            missing = [list(d) for d in (cw - cg).elements()][:3]
            involved = sorted({d[3] for d in extra + missing})
            key = "interference:" + (",".join(involved) if involved else "order")
            ctx.report(key, f"{mode} {sel[:4]}: {len(missing)} diagnostics lost, {len(extra)} added/changed (e.g. {(missing + extra)[0][1:4] if missing + extra else 'order only'})",
                       {"files": [Path(f).name for f in groups[gi]], "mode": mode, "codes": sel, "missing": missing, "extra": extra})
    shutil.rmtree(comp_dir, ignore_errors=True)
    ctx.resolve_broken({"effects_admissible": "interference:", "helpers_share_no_state": "interference:", "report_pipeline_is_filter_then_sort": "interference:",
                        "ignore_test_is_per_diagnostic": "interference:", "translate run_refurb's handling of the collected diagnostics": "interference:"}, b.first_error if b else "")
