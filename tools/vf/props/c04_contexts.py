"""C04 source-level oracle: a marked idiom placed in every syntactic context (and in
compositions of contexts) must be diagnosed exactly once, at its own position."""
from __future__ import annotations

import itertools
import tempfile
from pathlib import Path

from ..core import Ctx

IDIOMS = [("int(0)", "FURB123"), ("not not 0", "FURB114")]

PRELUDE = '''\
import asyncio
from typing import assert_type, cast
xs = [1, 2, 3]
def f(*a, **k): return 0
def deco(*a, **k): return lambda g: g
def base(*a): return object
def exc(*a): return Exception
class ctx:
    def __init__(self, *a): pass
    def __enter__(self): return self
    def __exit__(self, *a): return False
    async def __aenter__(self): return self
    async def __aexit__(self, *a): return False
'''

# expression wrappers: one hole each; the hole is always parenthesised by the caller
EXPR = {
    "id": "{E}", "list": "[{E}]", "tuple": "({E},)", "set": "{{{E}}}", "dict-key": "{{{E}: 1}}",
    "dict-val": "{{1: {E}}}", "dict-star": "{{**{{1: {E}}}}}", "call-arg": "f({E})", "call-kw": "f(k={E})",
    "call-star": "f(*[{E}])", "call-star2": "f(**{{'k': {E}}})", "callee": "f({E})()" if False else "(f if {E} else f)()",
    "attr": "({E}).real", "index": "xs[{E}]", "slice-lo": "xs[{E}:]", "slice-hi": "xs[:{E}]",
    "slice-step": "xs[::{E}]", "index-tuple": "f()[{E}, 1]" if False else "(xs, xs)[{E}]", "unary": "-({E})",
    "binop-l": "({E}) + 1", "binop-r": "1 + ({E})", "cmp-l": "({E}) < 2", "cmp-chain": "1 < 2 < ({E})",
    "and": "(({E}) and 1)", "or": "(1 or ({E}))", "cond-test": "(1 if ({E}) else 2)", "cond-body": "(({E}) if 1 else 2)",
    "cond-else": "(1 if 0 else ({E}))", "lambda-body": "(lambda: ({E}))", "lambda-default": "(lambda a=({E}): a)",
    "listcomp-elt": "[({E}) for _ in xs]", "listcomp-iter": "[1 for _ in [({E})]]", "listcomp-if": "[1 for _ in xs if ({E})]",
    "setcomp-elt": "{{({E}) for _ in xs}}", "dictcomp-key": "{{({E}): 1 for _ in xs}}", "dictcomp-val": "{{1: ({E}) for _ in xs}}",
    "genexp-elt": "list(({E}) for _ in xs)", "comp-2nd-iter": "[1 for _ in xs for _ in [({E})]]",
    "comp-2nd-if": "[1 for _ in xs for _ in xs if ({E})]", "fstring": 'f"{{({E})}}"', "fstring-spec": 'f"{{1:{{({E})}}}}"',
    "walrus": "(y := ({E}))", "starred": "(*[({E})],)", "repr-call": "repr({E})",
    # special forms: mypy keeps an `analyzed` node beside the call that shares the argument expression
    "cast": "cast(object, {E})", "assert-type": "assert_type({E}, object)",
}

# statement contexts: one expression hole; flags: F = needs an enclosing function
STMT = {
    "expr": ("{E}", ""), "assign": ("v = {E}", ""), "ann-assign": ("v: object = {E}", ""), "aug-assign": ("v = 0\nv += {E}", ""),
    "multi-assign": ("v = w = {E}", ""), "unpack": ("v, w = {E}, 1", ""), "return": ("return {E}", "F"),
    "assert": ("assert {E}", ""), "assert-msg": ("assert 1, {E}", ""), "del": ("del xs[{E}]", ""),
    "raise": ("raise exc({E})", ""), "raise-from": ("raise Exception from exc({E})()", ""),
    "if-test": ("if {E}:\n    pass", ""), "elif-test": ("if 0:\n    pass\nelif {E}:\n    pass", ""),
    "while-test": ("while {E}:\n    break", ""), "for-iter": ("for _ in [{E}]:\n    pass", ""),
    "for-target": ("for xs[{E}] in xs:\n    pass", ""), "with-item": ("with ctx({E}):\n    pass", ""),
    "with-target": ("with ctx() as xs[{E}]:\n    pass", ""), "match-subject": ("match {E}:\n    case _:\n        pass", ""),
    "match-guard": ("match 1:\n    case _ if {E}:\n        pass", ""), "decorator": ("@deco({E})\ndef g():\n    pass", ""),
    "class-base": ("class K(base({E})):\n    pass", ""), "class-kw": ("class K(metaclass=type if {E} else type):\n    pass", ""),
    "class-decorator": ("@deco({E})\nclass K:\n    pass", ""), "default": ("def g(a={E}):\n    pass", ""),
    "kw-default": ("def g(*, a={E}):\n    pass", ""), "except-type": ("try:\n    pass\nexcept exc({E}):\n    pass", ""),
    "yield": ("yield {E}", "F"), "yield-from": ("yield from [{E}]", "F"), "await": ("await asyncio.sleep({E})", "A"),
    "async-for": ("async for _ in f({E}):\n    pass", "A"), "async-with": ("async with ctx({E}):\n    pass", "A"),
    "global-then": ("global xs\nv = {E}", "F"), "lambda-stmt": ("v = lambda: {E}", ""),
}

# block contexts: wrap a statement; flags: C = breaks function scope (class body)
BLOCK = {
    "plain": ("{S}", ""), "if": ("if f():\n{S1}", ""), "else": ("if f():\n    pass\nelse:\n{S1}", ""),
    "elif": ("if f():\n    pass\nelif f():\n{S1}", ""), "for": ("for _ in xs:\n{S1}", ""),
    "for-else": ("for _ in xs:\n    pass\nelse:\n{S1}", ""), "while": ("while f():\n{S1}", ""),
    "while-else": ("while f():\n    pass\nelse:\n{S1}", ""), "try": ("try:\n{S1}\nfinally:\n    pass", ""),
    "except": ("try:\n    pass\nexcept Exception:\n{S1}", ""), "try-else": ("try:\n    pass\nexcept Exception:\n    pass\nelse:\n{S1}", ""),
    "finally": ("try:\n    pass\nfinally:\n{S1}", ""), "with": ("with ctx():\n{S1}", ""),
    "match-case": ("match f():\n    case 1:\n        pass\n    case _:\n{S2}", ""),
    "nested-def": ("def h():\n{S1}", ""), "class-body": ("class L:\n{S1}", "C"),
    "method": ("class L:\n    def m(self):\n{S2}", ""), "async-def": ("async def h():\n{S1}", "a"),
}


def _norm(t: str) -> str:
    return t.replace("{E}", "\u00a7").replace("{{", "{").replace("}}", "}").replace("\u00a7", "{E}")


EXPR = {k: _norm(v) for k, v in EXPR.items()}


def indent(s: str, n: int) -> str:
    return "\n".join(("    " * n + l) if l else l for l in s.split("\n"))


def make_unit(i: int, blocks: list[str], stmt: str, exprs: list[str], idiom: str) -> tuple[str, str] | None:
    e = idiom
    for w in reversed(exprs):
        e = EXPR[w].replace("{E}", e)
    s, sflag = STMT[stmt]
    body = s.replace("{E}", e)
    in_class = False
    is_async = sflag == "A"
    for b in reversed(blocks):
        tpl, bflag = BLOCK[b]
        if bflag == "C":
            in_class = True
        if b in ("nested-def", "method"):
            if in_class and b == "nested-def":
                pass
            in_class = False
        body = tpl.replace("{S2}", indent(body, 2)).replace("{S1}", indent(body, 1)).replace("{S}", body)
    # function-scope requirements: a class body between the statement and the function breaks them
    needs_f = sflag in ("F", "A") or "yield" in stmt
    if needs_f:
        # innermost scope-defining block decides
        scope = "def"
        for b in blocks:
            if b in ("class-body",):
                scope = "class"
            elif b in ("nested-def", "method"):
                scope = "def"
            elif b == "async-def":
                scope = "adef"
        if scope == "class":
            return None
        if sflag == "A" and scope != "adef":
            head = f"async def u{i}():\n"
        else:
            head = f"def u{i}():\n"
    else:
        head = f"def u{i}():\n"
    if sflag == "A" and "async-def" not in blocks and not head.startswith("async"):
        return None
    src = head + indent(body, 1) + "\n"
    try:
        import warnings
        with warnings.catch_warnings():
            warnings.simplefilter("ignore")
            compile(PRELUDE + src, "<unit>", "exec")
    except SyntaxError:
        return None
    label = "/".join(blocks) + "|" + stmt + "|" + "/".join(exprs)
    return src, label


def run(ctx: Ctx) -> None:
    import refurb.main as rmain
    from refurb.error import ErrorCode
    from refurb.settings import Settings

    rng = ctx.rng
    combos = []
    # every single context once (with both idioms alternating)
    for b in BLOCK:
        combos.append(([b], "expr", []))
        combos.append(([b], "return" if BLOCK[b][1] != "C" else "assign", ["call-arg"]))
    for s in STMT:
        combos.append((["plain"], s, []))
    for w in EXPR:
        combos.append((["plain"], "assign", [w]))
    # compositions
    n_extra = ctx.budget(250, 4000)
    bl, sl, el = list(BLOCK), list(STMT), list(EXPR)
    for _ in range(n_extra):
        nb = rng.choice([1, 1, 2, 3])
        ne = rng.choice([0, 1, 2, 2, 3])
        combos.append(([rng.choice(bl) for _ in range(nb)], rng.choice(sl), [rng.choice(el) for _ in range(ne)]))
    units = []
    for i, (b, s, e) in enumerate(combos):
        idiom, code = IDIOMS[i % 2]
        u = make_unit(i, b, s, e, idiom)
        if u:
            units.append((u[0], u[1], idiom, code))
    ctx.count("context-units", len(units))
    per_file = 150
    with tempfile.TemporaryDirectory(prefix="c04ctx-") as td:
        files, expect = [], {}
        for fi in range(0, len(units), per_file):
            chunk = units[fi:fi + per_file]
            text = PRELUDE
            path = str(Path(td) / f"ctx_{fi // per_file}.py")
            for src, label, idiom, code in chunk:
                base_line = text.count("\n")
                for li, line in enumerate(src.split("\n")):
                    col = line.find(idiom)
                    if col >= 0:
                        expect[(path, base_line + li + 1, col, code)] = label
                text += src
            Path(path).write_text(text)
            files.append(path)
        # the same corpus under each selection: which visit methods exist depends on what is enabled
        for sel in (('FURB123', 'FURB114'), ('FURB123',), ('FURB114',)):
            out = rmain.run_refurb(Settings(files=files, quiet=True, disable_all=True, enable={ErrorCode(int(c[4:])) for c in sel}))
            strs = [e for e in out if isinstance(e, str)]
            if strs:
                ctx.obligation("context corpus builds under mypy", False, strs[0][:300])
                return
            got = {}
            for e in out:
                k = (e.filename, e.line, e.column, f"{e.prefix}{e.code}")
                got[k] = got.get(k, 0) + 1
            def comps(label):
                b, st, ex = label.split("|")
                return [x for x in b.split("/") if x and x != "plain"] + ([st] if st not in ("expr", "assign") else []) \
                    + [x for x in ex.split("/") if x and x != "id"]

            def lookup(k, label):
                """(times reported, unexpected keys consumed). Inside an f-string mypy's columns
                are not source columns: match by line and code there (C07 owns positions)."""
                if "fstring" in label:
                    ks = [g for g in got if g[0] == k[0] and g[1] == k[1] and g[3] == k[3]]
                    return sum(got[g] for g in ks), ks
                return got.get(k, 0), [k]

            failures, consumed = [], set()
            for k, label in expect.items():
                if k[3] not in sel:
                    continue
                n, ks = lookup(k, label)
                consumed.update(ks)
                ctx.case(("ctx", label, k[3], tuple(sel)), sample={"context": label, "idiom": k[3]} if rng.random() < 0.01 else None)
                if n != 1:
                    failures.append((k, label, n))
            bad_single = {comps(l)[0] for k, l, n in failures if len(comps(l)) == 1}
            for k, label, n in failures:
                cs = comps(label)
                culprit = next((c for c in cs if c in bad_single), None) or "+".join(cs[-2:])
                src_line = Path(k[0]).read_text().split("\n")[k[1] - 1]
                ctx.report(f"context:{culprit}:{'missed' if n == 0 else 'x%d' % n}" + ("" if len(sel) == 2 else ":only-" + sel[0]),
                           f"{k[3]} idiom in context {label} reported {n} times (line: {src_line.strip()[:80]})",
                           {"context": label, "line_text": src_line, "expected_col": k[2], "times": n,
                            "cmd": "refurb --disable-all " + " ".join("--enable " + c for c in sel) + " <file>", "selection": list(sel)})
            for k, n in got.items():
                if k not in consumed:
                    src_line = Path(k[0]).read_text().split("\n")[k[1] - 1]
                    ctx.report(f"context:unexpected:{k[3]}", f"{k[3]} at {k[1]}:{k[2]} where no idiom starts: {src_line.strip()[:80]}",
                               {"line_text": src_line, "col": k[2]})
        plugin_spellings(ctx, td, files, expect)
    ctx.extra["context_units"] = len(units)


PLUGIN = '''\
from dataclasses import dataclass
from mypy.nodes import CallExpr, IntExpr, NameExpr, UnaryExpr
from refurb.error import Error


@dataclass
class ErrorInfo(Error):
    prefix = "PRB"
    code = 100
    msg: str = "probe"


def check(node: CallExpr | UnaryExpr, errors: list[Error]) -> None:
    match node:
        case CallExpr(callee=NameExpr(name="int"), args=[IntExpr(value=0)]):
            errors.append(ErrorInfo.from_node(node, "probe-call"))
        case UnaryExpr(op="not", expr=UnaryExpr(op="not", expr=IntExpr(value=0))):
            errors.append(ErrorInfo.from_node(node, "probe-not"))
'''

# the spellings under which one plugin file can be named; every list must give the same report
SPELLINGS = [["probepkg.ctx_probe"], ["ctx_probe"], ["probepkg"], ["probepkg.ctx_probe", "ctx_probe"],
             ["ctx_probe", "probepkg.ctx_probe"], ["probepkg", "ctx_probe"], ["ctx_probe", "probepkg"],
             ["probepkg.ctx_probe", "probepkg.ctx_probe"], ["probepkg", "probepkg.ctx_probe", "ctx_probe"]]


def plugin_spellings(ctx: Ctx, td: str, files: list[str], expect: dict) -> None:
    """A plugin check subscribed to two node kinds, loaded under every spelling of its module name
    (package, dotted module, bare module through a second path entry), alone and combined: each
    idiom occurrence of the context corpus is reported once by it whatever the spelling."""
    import re
    from concurrent.futures import ThreadPoolExecutor
    from ..harness import lint as L

    root = Path(td) / "plugins"
    (root / "probepkg").mkdir(parents=True)
    (root / "probepkg" / "__init__.py").write_text("")
    (root / "probepkg" / "ctx_probe.py").write_text(PLUGIN)
    env = {"PYTHONPATH": f"{L.ENV['PYTHONPATH']}:{root}:{root / 'probepkg'}"}
    use = files[:2]
    want = {(k[0], k[1]) for k in expect if k[0] in use}
    pat = re.compile(r"^(.*?):(\d+):(\d+) \[PRB100\]")

    def one(loads):
        args = [*use, "--quiet", "--disable-all", "--enable", "PRB100"] + [x for n in loads for x in ("--load", n)]
        return loads, L.cli(args, env_extra=env)

    with ThreadPoolExecutor(max_workers=len(SPELLINGS)) as ex:
        results = list(ex.map(one, SPELLINGS))
    for loads, (rc, out, err) in results:
        name = "+".join(loads)
        if not L.clean_verdict(rc, out, err):
            ctx.report(f"plugin-spelling:{name}:crash", f"refurb --load {' --load '.join(loads)} ends with status {rc}: {(err or out)[-300:]}",
                       {"loads": loads, "plugin": PLUGIN})
            continue
        got: dict = {}
        for line in out.splitlines():
            m = pat.match(line)
            if m:
                k = (m.group(1), int(m.group(2)))
                got[k] = got.get(k, 0) + 1
        # an f-string line keeps its line; lines hold one idiom each
        for k in sorted(want):
            ctx.case(("plugin-spelling", name, k))
        bad = sorted((k, got.get(k, 0)) for k in want if got.get(k, 0) != 1)
        if bad:
            (f, ln), n = bad[0]
            text = Path(f).read_text().split("\n")[ln - 1]
            ctx.report(f"plugin-spelling:{name}:{'missed' if n == 0 else 'x%d' % n}",
                       f"plugin check loaded as {loads}: {len(bad)} of {len(want)} occurrences not reported exactly once (first: {n} times, line {text.strip()[:80]})",
                       {"loads": loads, "plugin": PLUGIN, "line_text": text, "times": n, "occurrences": len(want), "wrong": len(bad),
                        "cmd": "PYTHONPATH=<plugins>:<plugins>/probepkg refurb <file> --disable-all --enable PRB100 " + " ".join("--load " + n_ for n_ in loads)})
    ctx.count("plugin-spelling-runs", len(results))
