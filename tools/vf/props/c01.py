"""C01 — suggested rewrites preserve the behaviour of the code they replace."""
from __future__ import annotations

import ast
import contextlib
import copy
import io
import itertools
import math
import os
import re
import shutil
import tempfile
import textwrap
from pathlib import Path

from .. import coq
from ..core import REPO, Ctx
from .c01_rules import OPTIONAL_RULES, RULES, Rule

NAN = float("nan")
VALUES = {
    "int": [0, 1, -1, 2, 7, 255, 10**20],
    "nat": [0, 1, 2, 7, 255, 1234, 10**20],
    "bool": [True, False],
    "opt_bool": [True, False, None],
    "opt_int": [None, 0, 1, 7],
    "float": [0.0, -0.0, 1.5, -2.0, float("inf"), float("-inf"), NAN, 2.0],
    "finite_float": [0.0, -0.0, 1.5, -2.0, 0.1, 1e300],
    "posfloat": [1.0, 2.0, 8.0, 10.0, 100.0, 0.5, 1e-3, 7.3],
    "str": ["", "a", "abc", "ab", "Abc", " x ", "a,b", "abcabc", "\t x\n"],
    "str_fname": ["a.txt", ".txt", "txt", "abc.txt", "abcabc", "abc", "", "x.txt.txt"],
    "char": ["0", "5", "a", "", "12"],
    "binstr": ["0b1010", "0b0", "0B11"],
    "hexstr": ["0xff", "0x0", "0XAb"],
    "isodate": ["2020-01-02T03:04:05Z", "2020-01-02T03:04:05+00:00", "2020-01-02"],
    "bytes": [b"", b"a", b"abc", b"\x00\xff"],
    "bytearray": [bytearray(), bytearray(b"ab")],
    "list_int": [[], [1], [1, 2, 3], [3, 1, 2], [2, 2, 1], [1, 1], [0, -1]],
    "nonempty_list_int": [[1], [1, 2, 3], [3, 1, 2], [2, 2, 1], [1, 1], [0, -1], [10**20, 10**20]],
    "nonempty_list_float": [[1.5], [2.0, 1.0], [0.0, -0.0], [-0.0, 0.0], [1.0, NAN, 0.5], [NAN, 1.0]],
    "nonempty_list_str": [["a"], ["bb", "a"], ["ab", "cd"], ["x", "yy", "zz"], ["aa", "b", "cc"]],
    "list_str": [[], ["a"], ["b", "a b"], ["it's", "$x"]],
    "list_pair": [[], [(1, 2)], [(3, 1), (1, 5), (3, 0)]],
    "list_list_int": [[], [[1]], [[1, 2], [], [3]]],
    "empty_list": [[]],
    "set_int": [set(), {1}, {1, 2, 3}],
    "tuple_int": [(), (1,), (1, 2)],
    "frozenset_int": [frozenset(), frozenset({1, 2})],
    "complex": [0j, 1 + 2j, complex(-0.0, 0.0)],
    "memoryview": [memoryview(b"ab")],
    "type": [int, str],
    "dict_str_int": [{}, {"a": 1}, {"a": 1, "b": 2}, {"b": 2, "a": 1}],
    "fs_name": ["exists.txt", "missing.txt", "dir", "dir/inner.txt", "link.txt", "dangling.txt", "/"],
    "fs_existing": ["exists.txt", "dir/inner.txt"],
    "fs_path": [Path("a.txt"), Path("b.TXT"), Path("dir/c.txt"), Path(".txt"), Path("x.tar.txt")],
    "fs_path_txt": [Path("a.txt"), Path("dir/c.txt"), Path("x.tar.txt")],
    "fs_path_existing": [Path("exists.txt")],
}
ANNOT = {"int": "int", "nat": "int", "bool": "bool", "opt_bool": "bool | None", "opt_int": "int | None", "float": "float", "finite_float": "float", "posfloat": "float",
         "str": "str", "str_fname": "str", "char": "str", "binstr": "str", "hexstr": "str", "isodate": "str", "bytes": "bytes", "bytearray": "bytearray",
         "list_int": "list[int]", "nonempty_list_int": "list[int]", "nonempty_list_float": "list[float]", "nonempty_list_str": "list[str]", "list_str": "list[str]",
         "list_pair": "list[tuple[int, int]]", "list_list_int": "list[list[int]]", "empty_list": "list[Any]", "set_int": "set[int]", "tuple_int": "tuple[int, ...]", "frozenset_int": "frozenset[int]", "complex": "complex", "memoryview": "memoryview", "type": "type[Any]",
         "dict_str_int": "dict[str, int]", "fs_name": "str", "fs_existing": "str", "fs_path": "Path", "fs_path_txt": "Path", "fs_path_existing": "Path"}

# checks whose own documentation says the rewrite is a heuristic / changes behaviour: outside
# the claim while the quoted sentence is still in their docstring
DOC_EXCLUSIONS = {
    106: "only works if the tabs are at the start of the string", 147: "not a drop-in replacement", 151: "not a drop-in replacement",
    179: "returns an iterator", 189: "will fail", 166: "there is no way for Refurb to detect whether the prefixes",
}


def lint_program(rule: Rule, i: int) -> str:
    ps = []
    for n, tag in rule.params.items():
        ps.append(f"{n}: {rule.annot.get(n, ANNOT[tag])}")
    for n, a in rule.annot.items():
        if n not in rule.params:
            ps.append(f"{n}: {a}")
    head = f"def _r{i}({', '.join(ps)}):\n"
    if rule.mode == "expr":
        body = f"    _ = {rule.lhs}\n"
    elif rule.mode == "cond":
        body = f"    if {rule.lhs}:\n        pass\n"
    else:
        body = textwrap.indent(rule.lhs, "    ") + "\n"
    return head + body


def norm(src: str) -> str | None:
    try:
        return ast.dump(ast.parse(textwrap.dedent(src).strip()))
    except SyntaxError:
        try:
            return ast.dump(ast.parse("(" + src.strip() + ")"))
        except SyntaxError:
            return None


PLACEHOLDERS = {"x", "y", "z"}


def _dump_noctx(n) -> str:
    return re.sub(r", ctx=(Load|Store|Del)\(\)", "", ast.dump(n))


def _unify(pat, tgt, env: dict, rest: list) -> bool:
    """structural match of a message fragment (placeholders x, y, z bind sub-expressions,
    `...` matches anything) against the instance's tree"""
    if pat is None or tgt is None:
        return pat is tgt
    if isinstance(pat, ast.Name) and pat.id in PLACEHOLDERS and isinstance(tgt, ast.expr):
        if pat.id in env:
            return _dump_noctx(env[pat.id]) == _dump_noctx(tgt)
        env[pat.id] = tgt
        return True
    if isinstance(pat, ast.Constant) and pat.value is Ellipsis:
        rest.append(tgt)
        return True
    if type(pat) is not type(tgt):
        return False
    for f in pat._fields:
        if f in ("ctx", "kind", "type_comment"):
            continue
        a, b = getattr(pat, f, None), getattr(tgt, f, None)
        if isinstance(a, list):
            if not isinstance(b, list):
                return False
            # a trailing `...` in an argument list swallows the remaining arguments
            if a and isinstance(a[-1], ast.Constant) and a[-1].value is Ellipsis and len(b) >= len(a) - 1:
                if not all(_unify(x, y, env, rest) for x, y in zip(a[:-1], b)):
                    return False
                rest.append(b[len(a) - 1:])
                continue
            if len(a) != len(b) or not all(_unify(x, y, env, rest) for x, y in zip(a, b)):
                return False
        elif isinstance(a, ast.AST):
            if not isinstance(b, ast.AST) or not _unify(a, b, env, rest):
                return False
        elif a != b:
            return False
    return True


def _parse_fragment(src: str):
    src = textwrap.dedent(src).strip()
    # a fragment that only parses in parentheses (a bare `a := b`) is an expression quoted from inside brackets
    for attempt in (src, re.sub(r"; ", "\n", src), f"({src})" if "\n" not in src else src):
        try:
            body = ast.parse(attempt).body
            if len(body) == 1 and isinstance(body[0], ast.Expr):
                return body[0].value
            return body
        except SyntaxError:
            continue
    return None


class _Subst(ast.NodeTransformer):
    def __init__(self, env):
        self.env = env

    def visit_Name(self, n):
        return copy.deepcopy(self.env[n.id]) if n.id in self.env else n


def derive_rhs(rule: Rule, msg: str) -> tuple[str | None, str]:
    m = re.fullmatch(r"Replace `(.*)` with `(.*)`", msg, flags=re.S)
    if rule.rhs is not None:
        return (rule.rhs, "table") if rule.msg and rule.msg in msg else (None, f"message is {msg!r}, table expects {rule.msg!r}")
    if not m:
        # "..., use `for <target> in <iterable>` instead": the loop header is replaced, the body stays
        mf = re.search(r"use `for (.+) in (.+)` instead", msg)
        if mf:
            try:
                hdr = ast.parse(f"for {mf.group(1)} in {mf.group(2)}:\n    pass").body[0]
                tree_ = ast.parse(textwrap.dedent(rule.lhs))
                loops = [n for n in ast.walk(tree_) if isinstance(n, ast.For)]
                if len(loops) == 1:
                    loops[0].target, loops[0].iter = hdr.target, hdr.iter
                    return ast.unparse(ast.fix_missing_locations(tree_)), "message (loop header)"
            except SyntaxError:
                return "<<invalid>>" + mf.group(0), "message"
        return None, "no `Replace A with B` in the message"
    a, b = m.group(1), m.group(2)
    pat, new = _parse_fragment(a), _parse_fragment(b)
    lhs_src = re.sub(r":\n\s+", ": ", rule.lhs) if rule.mode == "stmt" and rule.lhs.count("\n") == 1 and rule.lhs.split("\n")[0].endswith(":") else rule.lhs
    tree = ast.parse(textwrap.dedent(rule.lhs))
    if pat is not None and new is None and "..." not in b:
        return "<<invalid>>" + b, "message"
    if pat is None or new is None or "..." in b:
        return None, f"fragment `{a}` / `{b}` is not standalone code"
    # whole-statement patterns
    if isinstance(pat, list):
        env, rest = {}, []
        if len(pat) == len(tree.body) and all(_unify(p, t, env, rest) for p, t in zip(pat, tree.body)):
            out = [_Subst(env).visit(copy.deepcopy(n)) for n in (new if isinstance(new, list) else [ast.Expr(value=new)])]
            return "\n".join(ast.unparse(ast.fix_missing_locations(n)) for n in out), "message"
        return None, f"quoted original `{a}` does not match the instance `{rule.lhs}`"
    # expression patterns: the instance itself or one sub-expression of it
    for node in ast.walk(tree):
        if not isinstance(node, ast.expr):
            continue
        env, rest = {}, []
        if _unify(pat, node, env, rest):
            repl = _Subst(env).visit(copy.deepcopy(new)) if not isinstance(new, list) else None
            if repl is None:
                return None, "an expression is replaced by statements"

            class Put(ast.NodeTransformer):
                done = False

                def visit(self, n):
                    if n is node and not self.done:
                        self.done = True
                        return repl
                    return super().visit(n)
            t2 = Put().visit(tree)
            body = t2.body
            if rule.mode in ("expr", "cond"):
                return ast.unparse(ast.fix_missing_locations(body[0].value)), "message"
            return "\n".join(ast.unparse(ast.fix_missing_locations(n)) for n in body), "message"
    return None, f"quoted original `{a}` does not occur in the instance `{rule.lhs}`"


def canon(v, depth=0):
    if isinstance(v, float):
        return ("float", "nan" if math.isnan(v) else repr(v))
    if isinstance(v, (list, tuple)):
        return (type(v).__name__, tuple(canon(x, depth + 1) for x in v))
    if isinstance(v, (set, frozenset)):
        return (type(v).__name__, tuple(sorted((canon(x, depth + 1) for x in v), key=repr)))
    if isinstance(v, dict):
        return (type(v).__name__, tuple((canon(k), canon(x, depth + 1)) for k, x in v.items()))
    if isinstance(v, (io.IOBase,)):
        return ("file", type(v).__name__)
    if callable(v) and not isinstance(v, type):
        return ("callable", getattr(v, "__name__", type(v).__name__))
    return (type(v).__name__, re.sub(r" (object )?(at|@) 0x[0-9a-f]+", "", repr(v)))


def _floats(v):
    if isinstance(v, float):
        yield v
    elif isinstance(v, (list, tuple, set)):
        for x in v:
            yield from _floats(x)


def cause_of(args: dict, a: dict, c: dict, diff: list[str]) -> str:
    """why an environment separates original and replacement: the class of the witness,
    so that a recorded finding does not hide a different failure of the same rule"""
    fl = [x for v in args.values() for x in _floats(v)]
    if diff == ["alias"]:
        return "result-aliases-operand"
    if diff == ["args_after"]:
        return "operand-object-mutated"
    if any(math.isnan(x) for x in fl):
        return "nan"
    ra, rc = a["result"], c["result"]
    if ra[0] == "ok" and rc[0] == "ok" and ra[1][0] != rc[1][0]:
        return f"result-type:{ra[1][0]}->{rc[1][0]}"
    if rc[0] == "exc":
        return f"replacement-raises:{rc[1]}"
    if any(x == 0.0 for x in fl) and str(ra).replace("-0.0", "0.0") == str(rc).replace("-0.0", "0.0"):
        return "signed-zero"
    if ra[0] == "ok" and rc[0] == "ok" and ra[1][0] == "float" and rc[1][0] == "float":
        try:
            x, y = float(ra[1][1]), float(rc[1][1])
            if x == y or abs(x - y) <= 4 * abs(math.ulp(x)):
                return "float-rounding"
        except ValueError:
            pass
    for v in args.values():
        if isinstance(v, list) and len(v) > 1:
            keys = [len(x) if isinstance(x, str) else x for x in v]
            if len(set(map(repr, keys))) < len(keys):
                return "ties"
    if any(isinstance(v, int) and not isinstance(v, bool) and v < 0 for v in args.values()):
        return "negative-int"
    return "plain"


def make_fn(code: str, rule: Rule, ns: dict):
    ps = ", ".join(list(rule.params) + [n for n in rule.annot if n not in rule.params])
    if rule.mode == "cond":
        src = f"def _f({ps}):\n    return True if ({code}) else False\n"
    elif rule.mode == "expr":
        src = f"def _f({ps}):\n    return ({code})\n"
    else:
        src = f"def _f({ps}):\n" + textwrap.indent(textwrap.dedent(code), "    ") + "\n    return {k: v for k, v in locals().items() if not k.startswith('_')}\n"
    d = dict(ns)
    exec(compile(src, "<rule>", "exec"), d)
    return d["_f"]


def observe(fn, args: dict, rule: Rule, scratch: Path | None):
    a = copy.deepcopy(args)
    if "f" in rule.annot and rule.annot["f"] == "io.StringIO":
        a["f"] = io.StringIO("l1\nl2\n")
    out = io.StringIO()
    cwd = os.getcwd()
    if scratch is not None:
        if scratch.exists():
            shutil.rmtree(scratch)
        (scratch / "dir").mkdir(parents=True)
        (scratch / "exists.txt").write_text("data\n")
        (scratch / "dir" / "inner.txt").write_text("inner\n")
        # access, modification and change times all differ, so that advice naming the wrong stat field shows
        os.utime(scratch / "exists.txt", (1_000_000_000, 1_100_000_000))
        os.utime(scratch / "dir" / "inner.txt", (1_200_000_000, 1_300_000_000))
        os.symlink("exists.txt", scratch / "link.txt")
        os.symlink("missing.txt", scratch / "dangling.txt")
        os.chdir(scratch)
    try:
        with contextlib.redirect_stdout(out):
            try:
                r = fn(**a)
                res = ("ok", canon(r))
                if scratch is not None and isinstance(r, (float, os.stat_result)):
                    # the change time cannot be set: it is named instead (which file's, followed or not), the other fields are fixed above
                    names = {}
                    for q in sorted(scratch.rglob("*")) + [scratch]:
                        for follow in (True, False):
                            try:
                                names.setdefault(os.stat(q, follow_symlinks=follow).st_ctime, f"<change time of {q.relative_to(scratch)}{'' if follow else ' itself'}>")
                            except OSError:
                                pass
                    if isinstance(r, float) and r in names:
                        res = ("ok", ("float", names[r]))
                    elif isinstance(r, os.stat_result):
                        res = ("ok", ("stat_result", (r.st_mode, r.st_size, r.st_atime, r.st_mtime, names.get(r.st_ctime, r.st_ctime))))
                observe.raw = ("ok", r)
                observe.raw_args = a
                alias = [k for k, v in a.items() if v is r and isinstance(v, (list, dict, set, bytearray))]
            except BaseException as e:  # noqa: BLE001
                res, alias = ("exc", type(e).__name__), []
                observe.raw = res
                observe.raw_args = a
        tree = None
        if scratch is not None:
            tree = sorted((str(p.relative_to(scratch)), p.read_text() if p.is_file() else "<dir>") for p in scratch.rglob("*"))
    finally:
        os.chdir(cwd)
    return {"result": res, "args_after": {k: canon(v) for k, v in a.items()}, "stdout": out.getvalue(), "alias": alias, "fs": tree}





def translate_casts(repo: Path) -> str:
    """FURB123's FUNC_NAME_MAPPING as a Coq literal (fail-closed)."""
    from ..translate.catalogue import TranslateError
    src = (repo / "refurb" / "checks" / "readability" / "no_unnecessary_cast.py").read_text("utf8")
    tree = ast.parse(src)
    tbl = None
    for n in tree.body:
        if isinstance(n, ast.Assign) and any(isinstance(t, ast.Name) and t.id == "FUNC_NAME_MAPPING" for t in n.targets) and isinstance(n.value, ast.Dict):
            tbl = n.value
    if tbl is None:
        raise TranslateError("FUNC_NAME_MAPPING literal not found")
    use = "if found := FUNC_NAME_MAPPING.get(fullname)"
    if use not in src or "suffix, *expected_types = found" not in src or "`{expr}{suffix}`" not in src:
        raise TranslateError("FURB123 no longer uses FUNC_NAME_MAPPING as (suffix, *expected types) appended to the operand")
    rows = []
    for k, v in zip(tbl.keys, tbl.values):
        if not (isinstance(k, ast.Constant) and isinstance(k.value, str) and isinstance(v, ast.Tuple) and v.elts and isinstance(v.elts[0], ast.Constant)
                and isinstance(v.elts[0].value, str)):
            raise TranslateError(f"unrecognised FUNC_NAME_MAPPING entry {ast.unparse(k)}: {ast.unparse(v)}")
        exp = []
        for e in v.elts[1:]:
            if isinstance(e, ast.Name):
                exp.append(e.id)
            elif isinstance(e, ast.Constant) and isinstance(e.value, str):
                exp.append(e.value)
            else:
                raise TranslateError(f"unrecognised expected type {ast.unparse(e)}")
        rows.append(f"({coq.coq_str(k.value)}, {coq.coq_str(v.elts[0].value)}, {coq.coq_list([coq.coq_str(x) for x in exp])})")
    return ("From Lib Require Import Base.\nOpen Scope list_scope.\n"
            f"Definition casts : list (string * string * list string) := {coq.coq_list(rows)}.\n")


# ------------------------------------------------------------------ neighbourhood of each idiom
_CMP = {ast.Lt: [ast.Gt, ast.LtE], ast.Gt: [ast.Lt, ast.GtE], ast.LtE: [ast.GtE, ast.Lt], ast.GtE: [ast.LtE, ast.Gt], ast.Eq: [ast.NotEq], ast.NotEq: [ast.Eq],
        ast.Is: [ast.IsNot], ast.IsNot: [ast.Is], ast.In: [ast.NotIn], ast.NotIn: [ast.In]}
_INTS = {0: [1, -1], 1: [0, 2], 2: [10, 16, 8, 3], 10: [2, 16], 16: [2, 10], 8: [2], 3: [2], 4: [3, 5]}


# methods a check could be widened to by mistake: siblings on the same receiver type
_METHOD_FAMILIES = [
    ["add", "discard", "remove", "update", "difference_update", "pop"], ["append", "extend", "insert", "remove"], ["startswith", "endswith", "find", "index"],
    ["lstrip", "rstrip", "strip", "removeprefix", "removesuffix"], ["keys", "values", "items"], ["sort", "reverse"], ["lower", "upper", "casefold", "title"],
    ["isdigit", "isnumeric", "isdecimal", "isalpha"], ["read", "readline", "readlines"], ["exists", "isfile", "isdir", "isabs", "islink"], ["digest", "hexdigest"],
    ["log", "log2", "log10", "log1p"], ["copy", "deepcopy"], ["search", "match", "fullmatch", "findall"], ["getcwd", "getcwdb"], ["remove", "unlink", "rmdir"],
    ["mkdir", "makedirs"], ["utcnow", "now", "today"], ["fromisoformat", "fromtimestamp"], ["from_float", "from_decimal"], ["count", "index"], ["join", "split"],
]
_SIBLINGS: dict[str, list[str]] = {}
for _fam in _METHOD_FAMILIES:
    for _m in _fam:
        _SIBLINGS.setdefault(_m, [])
        _SIBLINGS[_m] += [x for x in _fam if x != _m and x not in _SIBLINGS[_m]]
_FUNC_FAMILIES = [["sorted", "reversed", "list", "tuple", "set", "frozenset"], ["min", "max", "sum", "any", "all"], ["bin", "oct", "hex"], ["len", "bool"], ["map", "filter"],
                  ["isinstance", "issubclass"], ["print", "repr", "str"], ["int", "float"]]
for _fam in _FUNC_FAMILIES:
    for _m in _fam:
        _SIBLINGS.setdefault("()" + _m, [])
        _SIBLINGS["()" + _m] += [x for x in _fam if x != _m]


# keyword arguments a call of that name may also carry: an idiom recognised by its positional shape must either reject
# the call or hand the keyword on to a replacement that accepts it (at the target version)
_KW_POOL = {
    "open": [("newline", "''"), ("encoding", "'utf-8'"), ("errors", "'ignore'"), ("buffering", "1")], "sorted": [("reverse", "True"), ("key", "abs")],
    "print": [("sep", "''"), ("end", "''"), ("flush", "True")], "min": [("default", "0"), ("key", "abs")], "max": [("default", "0"), ("key", "abs")],
    "sum": [("start", "0")], "enumerate": [("start", "1")], "zip": [("strict", "True")], "int": [("base", "10")], "round": [("ndigits", "0")],
    "sort": [("reverse", "True"), ("key", "abs")], "split": [("maxsplit", "1")], "mkdir": [("parents", "True"), ("exist_ok", "True")],
    "read_text": [("encoding", "'utf-8'")], "write_text": [("encoding", "'utf-8'")], "lru_cache": [("typed", "True")], "startswith": [], "log": [],
    "fromisoformat": [], "run": [("check", "True")], "hexdigest": [], "copy": [], "isinstance": [], "bool": [], "str": [("encoding", "'utf-8'")], "bytes": [("encoding", "'utf-8'")],
}


_NAME_ALTS: dict[str, list[str]] = {}        # operand name -> the other operands of the same type (set per rule by variants())


def _alts(n: ast.AST) -> list[ast.AST]:
    """Single-site edits of an idiom: the shapes next to the documented one, which a check's guard
    either rejects (nothing to verify) or accepts (then its advice must hold for them too)."""
    c = copy.deepcopy
    out: list[ast.AST] = []
    if isinstance(n, ast.Constant):
        if isinstance(n.value, bool):
            out.append(ast.Constant(value=not n.value))
        elif isinstance(n.value, int):
            out += [ast.Constant(value=v) if v >= 0 else ast.UnaryOp(op=ast.USub(), operand=ast.Constant(value=-v)) for v in _INTS.get(n.value, [])]
            if n.value in (2, 10, 0, 1):
                out += [ast.Constant(value=float(n.value)), ast.Constant(value=n.value + 0.5)]      # the float of the same value, and one just beside it
        elif isinstance(n.value, float):
            out += [ast.Constant(value=n.value + 0.5), ast.Constant(value=n.value + 1.0)]
            if n.value == int(n.value):
                out.append(ast.Constant(value=int(n.value)))
    elif isinstance(n, ast.Compare):
        for i, op in enumerate(n.ops):
            for alt in _CMP.get(type(op), []):
                m = c(n)
                m.ops[i] = alt()
                out.append(m)
        if len(n.ops) == 1:
            m = c(n)
            m.left, m.comparators[0] = m.comparators[0], m.left
            out.append(m)
    elif isinstance(n, ast.BoolOp):
        m = c(n)
        m.op = ast.Or() if isinstance(n.op, ast.And) else ast.And()
        out.append(m)
        if len(n.values) == 2:
            m = c(n)
            m.values.reverse()
            out.append(m)
    elif isinstance(n, ast.IfExp):
        m = c(n)
        m.body, m.orelse = m.orelse, m.body
        out.append(m)
    elif isinstance(n, ast.UnaryOp) and isinstance(n.op, (ast.USub, ast.Not)):
        out.append(c(n.operand))
    elif isinstance(n, ast.Call) and len(n.args) == 2 and not n.keywords:
        m = c(n)
        m.args.reverse()
        out.append(m)
    elif isinstance(n, ast.Slice):
        # every bound a slice may or may not have: a missing one filled in, a present one dropped
        for part, fills in (("lower", [1]), ("upper", [5, -1]), ("step", [2, -1])):
            if getattr(n, part) is None:
                for v in fills:
                    m = c(n)
                    setattr(m, part, ast.Constant(value=v) if v >= 0 else ast.UnaryOp(op=ast.USub(), operand=ast.Constant(value=-v)))
                    out.append(m)
            else:
                m = c(n)
                setattr(m, part, None)
                out.append(m)
    if isinstance(n, ast.Name) and isinstance(n.ctx, ast.Load) and n.id in _NAME_ALTS:
        # ONE occurrence of an operand replaced by another operand of the same type: where the idiom needs the same
        # expression twice, it is no longer there
        for o in _NAME_ALTS[n.id]:
            nm = ast.Name(id=o, ctx=ast.Load())
            nm._subst = True
            out.append(nm)
    if isinstance(n, ast.Call):
        fname = n.func.id if isinstance(n.func, ast.Name) else n.func.attr if isinstance(n.func, ast.Attribute) else None
        have = {k.arg for k in n.keywords}
        for kw, val in _KW_POOL.get(fname, []):
            if kw not in have:
                m = c(n)
                m.keywords = m.keywords + [ast.keyword(arg=kw, value=ast.parse(val, mode="eval").body)]
                out.append(m)
    if isinstance(n, ast.Attribute) and isinstance(n.ctx, ast.Load) and n.attr in _SIBLINGS:
        for alt in _SIBLINGS[n.attr]:
            m = c(n)
            m.attr = alt
            out.append(m)
    if isinstance(n, ast.Call) and isinstance(n.func, ast.Name) and "()" + n.func.id in _SIBLINGS:
        for alt in _SIBLINGS["()" + n.func.id]:
            m = c(n)
            m.func = ast.Name(id=alt, ctx=ast.Load())
            out.append(m)
    return out


class _Edit(ast.NodeTransformer):
    def __init__(self, target=-1, alt=0):
        self.i, self.target, self.alt, self.counts = -1, target, alt, []

    def visit(self, node):
        self.i += 1
        k = _alts(node) if isinstance(node, ast.expr) else []
        self.counts.append(len(k))
        if self.i == self.target:
            return ast.copy_location(k[self.alt], node)
        return self.generic_visit(node)


def variants(rule: Rule) -> list[Rule]:
    # a rule whose replacement comes from the table (the message quotes a fragment or uses its own operand names): its
    # neighbours are kept too, with the replacement read off the message where the quoted original unifies with the instance
    src = textwrap.dedent(rule.lhs)
    try:
        tree = ast.parse(src)
    except SyntaxError:
        return []
    _NAME_ALTS.clear()
    for p_, t_ in rule.params.items():
        others = [q_ for q_, u_ in rule.params.items() if q_ != p_ and ANNOT.get(u_) == ANNOT.get(t_)]
        if others:
            _NAME_ALTS[p_] = others
    cnt = _Edit()
    cnt.visit(copy.deepcopy(tree))
    out, seen = [], {norm(src)}
    for site, k in enumerate(cnt.counts):
        for alt in range(k):
            t2 = ast.fix_missing_locations(_Edit(site, alt).visit(copy.deepcopy(tree)))
            try:
                txt = ast.unparse(t2)
                compile(txt, "v", "exec")
            except Exception:  # noqa: BLE001
                continue
            key = norm(txt)
            if key is None or key in seen:
                continue
            seen.add(key)
            subst = any(getattr(x, "_subst", False) for x in ast.walk(t2))
            out.append(Rule(rule.code, txt, rule.params, mode=rule.mode, setup=rule.setup, annot=rule.annot, cls=rule.cls, fs=rule.fs,
                            note=f"variant of `{rule.lhs}`" + (" [table rule]" if rule.rhs is not None else "") + (" [one operand occurrence substituted]" if subst else "")))
    return out


# ------------------------------------------------------------------ compound operands
# "every operand position filled by an arbitrary typed, pure expression": the same idiom with one operand
# written as a compound expression of the same type.  Forms are chosen by how loosely they bind
# (conditional < or < and < not < comparison < + < unary < call), since advice that is assembled as text
# goes wrong exactly where an operand binds more loosely than the place it is pasted into.
_BOOLISH = {"int", "nat", "bool", "float", "str", "list_int", "tuple_int", "set_int", "dict_str_int", "list_str", "bytes"}
_COMPOUND_FORMS = {
    "cond": ("({p} if c_ else {p}2)", {"c_": "bool"}),
    "or": ("({p} or {p}2)", {}),
    "and": ("({p} and {p}2)", {}),
    "walrus": ("(w_ := {p})", {}),
}
_COMPOUND_EXTRA = {
    "int": {"plus": "({p} + {p}2)", "neg": "(-{p})", "cmp": None}, "nat": {"plus": "({p} + {p}2)"}, "float": {"plus": "({p} + {p}2)", "neg": "(-{p})"},
    "bool": {"not": "(not {p})", "cmp": "({p} == {p}2)", "in": "({p} in ({p}2,))"}, "str": {"plus": "({p} + {p}2)", "mod": "('%s' % {p})"},
    "list_int": {"plus": "({p} + {p}2)"}, "tuple_int": {"plus": "({p} + {p}2)"}, "set_int": {"bitor": "({p} | {p}2)"},
    "list_str": {"plus": "({p} + {p}2)"}, "bytes": {"plus": "({p} + {p}2)"},
}


MATCHED_CHECKS = (110, 114, 136, 171, 149)          # translated together (GenMatch.v), statements in C01Match.v
LIBRARY_CHECKS = (104, 141, 144, 146, 155, 163, 181)      # translated one file each (GenLib<code>.v), statements in C01Lib<code>.v
COMPOUND_INFO: dict[int, tuple] = {}


def intended_replacement(base_rhs: str, base: Rule, p: str, sub_src: str) -> str | None:
    """The base idiom's replacement with operand p replaced, as a tree, by the compound expression: what the
    advice means.  The text refurb prints for the compound instance has to denote this program."""
    try:
        tree = ast.parse(textwrap.dedent(base_rhs))
        sub = ast.parse(sub_src, mode="eval").body
    except SyntaxError:
        return None

    class Put(ast.NodeTransformer):
        def visit_Name(self, n):
            return copy.deepcopy(sub) if n.id == p and isinstance(n.ctx, ast.Load) else n
    return ast.unparse(ast.fix_missing_locations(Put().visit(tree)))


def compound_variants(rule: Rule) -> list[Rule]:
    if rule.rhs is not None or rule.annot or rule.fs:
        return []
    try:
        tree = ast.parse(textwrap.dedent(rule.lhs))
    except SyntaxError:
        return []
    stored = {n.id for n in ast.walk(tree) if isinstance(n, ast.Name) and not isinstance(n.ctx, ast.Load)}
    out = []
    kind_of = {"str": "str", "int": "int", "float": "float", "bool": "bool", "bytes": "bytes", "list[int]": "list_int", "list[str]": "list_str",
               "tuple[int, ...]": "tuple_int", "set[int]": "set_int", "dict[str, int]": "dict_str_int", "list[float]": "list_int"}
    for p, tag in rule.params.items():
        kind = tag if tag in _BOOLISH else kind_of.get(ANNOT.get(tag, ""))
        if p in stored or kind is None or (p + "2") in rule.params:
            continue
        forms = {k: v for k, v in _COMPOUND_FORMS.items()}
        for k, v in _COMPOUND_EXTRA.get(kind, {}).items():
            if v:
                forms[k] = (v, {})
        for fname, (tpl, extra) in forms.items():
            src = tpl.format(p=p)
            sub = ast.parse(src, mode="eval").body

            class Put(ast.NodeTransformer):
                def visit_Name(self, n):
                    return copy.deepcopy(sub) if n.id == p and isinstance(n.ctx, ast.Load) else n
            t2 = ast.fix_missing_locations(Put().visit(copy.deepcopy(tree)))
            try:
                txt = ast.unparse(t2)
                compile(txt, "v", "exec")
            except Exception:  # noqa: BLE001
                continue
            ps = dict(rule.params)
            if "{p}2" in tpl:
                ps[p + "2"] = tag
            ps.update(extra)
            v = Rule(rule.code, txt, ps, mode=rule.mode, setup=rule.setup, cls=rule.cls, note=f"compound:{fname}:{p} in `{rule.lhs}`")
            COMPOUND_INFO[id(v)] = (rule, p, src)
            out.append(v)
    return out


# ------------------------------------------------------------------ model tie (Lib/PyEval.v, Lib/PyRules.v)
# (code, original) -> (model original, model replacement, the replacement refurb must print for the
# model replacement to be the right one, result kind).  Operand order = order of the rule's params.
MODEL_RULES = {
    (108, "x == y or x == z"): ("lhs_108 {x} {y} {z}", "rhs_108 {x} {y} {z}", "x in (y, z)", "obj"),
    (171, "x in (y,)"): ("lhs_171 {x} {y}", "rhs_171 {x} {y}", "x == y", "obj"),
    (171, "x in [y]"): ("lhs_171 {x} {y}", "rhs_171 {x} {y}", "x == y", "obj"),
    (110, "x if x else y"): ("lhs_110 {x} {y}", "rhs_110 {x} {y}", "x or y", "obj"),
    (114, "not not x"): ("lhs_114 {x}", "rhs_114 {x}", "bool(x)", "obj"),
    (124, "x == y and x == z"): ("lhs_124 {x} {y} {z}", "rhs_124 {x} {y} {z}", "x == y == z", "obj"),
    (136, "x if x < y else y"): ("lhs_136_min {x} {y}", "rhs_136_min {x} {y}", "min(x, y)", "obj"),
    (136, "x if x > y else y"): ("lhs_136_max {x} {y}", "rhs_136_max {x} {y}", "max(x, y)", "obj"),
    (143, "l or []"): ("lhs_143 {l} (VList [])", "rhs_143 {l} (VList [])", "l", "obj"),
    (143, "s or ''"): ("lhs_143 {s} (VStr [])", "rhs_143 {s} (VStr [])", "s", "obj"),
    (143, "x or 0"): ("lhs_143 {x} (VInt 0)", "rhs_143 {x} (VInt 0)", "x", "obj"),
    (143, "x or 0.0"): ("lhs_143 {x} (VFloat (FNum 0))", "rhs_143 {x} (VFloat (FNum 0))", "x", "obj"),
    (143, "t or ()"): ("lhs_143 {t} (VTuple [])", "rhs_143 {t} (VTuple [])", "t", "obj"),
    (143, "b or False"): ("lhs_143 {b} (VBool false)", "rhs_143 {b} (VBool false)", "b", "obj"),
    (149, "b is True"): ("lhs_149_is_true {b}", "rhs_149_pos {b}", "b", "obj"),
    (149, "b is False"): ("lhs_149_is_false {b}", "rhs_149_neg {b}", "not b", "obj"),
    (149, "b == True"): ("lhs_149_eq_true {b}", "rhs_149_pos {b}", "b", "obj"),
    (168, "isinstance(x, type(None))"): ("lhs_168 {x}", "rhs_168 {x}", "x is None", "obj"),
    (169, "type(x) is type(None)"): ("lhs_168 {x}", "rhs_168 {x}", "x is None", "obj"),
    (191, "b in {True, False}"): ("lhs_191_in {b}", "rhs_191 {b}", "isinstance(b, bool)", "obj"),
    (191, "b in [True, False]"): ("lhs_191_in {b}", "rhs_191 {b}", "isinstance(b, bool)", "obj"),
    (191, "b is True or b is False"): ("lhs_191_is {b}", "rhs_191 {b}", "isinstance(b, bool)", "obj"),
    (192, "sorted(l)[0]"): ("lhs_192_first {l!z}", "rhs_192_min {l!z}", "min(l)", "Z"),
    (192, "sorted(l)[-1]"): ("lhs_192_last {l!z}", "rhs_192_max {l!z}", "max(l)", "Z"),
    (115, "len(nums) == 0"): ("lhs_115_eq0 {nums}", "rhs_115_not {nums}", "not nums", "bool"),
    (115, "len(t) == 0"): ("lhs_115_eq0 {t}", "rhs_115_not {t}", "not t", "bool"),
    (115, "len(nums) >= 1"): ("lhs_115_ge1 {nums}", "rhs_115_bool {nums}", "nums", "bool"),
    (115, "len(s) > 0"): ("lhs_115_ge1 {s}", "rhs_115_bool {s}", "s", "bool"),
}
MODEL_TYPES = {"int", "bool", "opt_bool", "opt_int", "float", "str", "list_int", "nonempty_list_int", "tuple_int"}


# (code, original) -> (model original, model replacement, replacement refurb must print, names whose final
# contents are compared: "p" = the local name p, "orig_p" = the object passed as p, "=out" = a plain list value)
HEAP_RULES = {
    (113, "nums.append(a)\nnums.append(b)"): ("bind (op_append \"nums\" {a} {S}) (op_append \"nums\" {b})", "op_extend \"nums\" [{a}; {b}] {S}", "nums.extend((a, b))", "list"),
    (131, "del nums[:]"): ("op_del_all \"nums\" {S}", "op_clear \"nums\" {S}", "nums.clear()", "list"),
    (131, "nums[:] = []"): ("op_assign_all \"nums\" [] {S}", "op_clear \"nums\" {S}", "nums.clear()", "list"),
    (132, "if x in s:\n    s.remove(x)"): ("lhs_132 \"s\" {x} {S}", "op_set_discard \"s\" {x} {S}", "s.discard(x)", "set"),
    (142, "for x in xs:\n    s.add(x)"): ("for_each {xs!z} (op_set_add \"s\") {S}", "op_set_update \"s\" {xs!z} {S}", "s.update(xs)", "set"),
    (142, "for x in xs:\n    s.discard(x)"): ("for_each {xs!z} (op_set_discard \"s\") {S}", "op_set_difference_update \"s\" {xs!z} {S}", "s.difference_update(xs)", "set"),
    (186, "l = sorted(l)"): ("op_rebind_sorted \"l\" {S}", "op_sort \"l\" {S}", "l.sort()", "list"),
    (187, "l = l[::-1]"): ("op_rebind_reversed \"l\" {S}", "op_reverse \"l\" {S}", "l.reverse()", "list"),
    (187, "l = list(reversed(l))"): ("op_rebind_reversed \"l\" {S}", "op_reverse \"l\" {S}", "l.reverse()", "list"),
}


def _zl(xs) -> str:
    return "[" + "; ".join(f"({int(x)})" for x in xs) + "]%Z"


def heap_tie(ctx: Ctx, derived: dict) -> None:
    """X2 for the statement rules: Lib/PyHeap.v's operations against CPython, through every name."""
    hdr = ("From Lib Require Import Base PyHeap.\nOpen Scope list_scope.\nOpen Scope string_scope.\nSet Printing Width 100000.\n"
           "Definition same (as_set : bool) (a b : list Z) := if as_set then list_eqb Z.eqb (isort Z.leb a) (isort Z.leb b) else list_eqb Z.eqb a b.\n"
           "Definition chk (as_set : bool) (o : option store) (e : option (list (string * list Z))) : bool :=\n"
           "  match o, e with\n  | Some s, Some l => forallb (fun nv => match contents (fst nv) s with Some c => same as_set c (snd nv) | None => false end) l\n"
           "  | None, None => true | _, _ => false end.\n"
           "Definition bad (l : list bool) := (fix go (i : nat) (l : list bool) : list nat := match l with [] => [] | b :: q => if b then go (S i) q else i :: go (S i) q end) 0%nat l.\n")
    rows, descr = [], []
    for (r, rhs, envs) in derived.values():
        m = HEAP_RULES.get((r.code, r.lhs))
        if m is None or r.note.startswith("`"):          # not the idiom with operands of other types
            continue
        ml, mr, _want, kind = m
        objs = [p for p, t in r.params.items() if t in ("list_int", "set_int", "empty_list")]
        if any(t not in ("list_int", "set_int", "empty_list", "int") for t in r.params.values()):
            continue
        for args, (a, a_after), (c, c_after) in envs:
            if any(isinstance(v, int) and isinstance(v, bool) for v in args.values()):
                continue
            names = "; ".join(f'("{p}", {i + 1}%nat); ("orig_{p}", {i + 1}%nat)' for i, p in enumerate(objs))
            heap = "; ".join(f"({i + 1}%nat, {_zl(sorted(args[p]) if isinstance(args[p], set) else args[p])})" for i, p in enumerate(objs))
            store = f"{{| names := [{names}]; objs := [{heap}] |}}"

            def fill(tpl):
                def sub(mm):
                    nm, _, conv = mm.group(1).partition("!")
                    if nm == "S":
                        return store
                    return _zl(args[nm]) if conv == "z" else f"({int(args[nm])})%Z"
                return re.sub(r"\{([A-Za-z!]+)\}", sub, tpl)
            for side, tpl, (out, after) in (("original", ml, (a, a_after)), ("replacement", mr, (c, c_after))):
                if out[0] != "ok":
                    e = "None"
                else:
                    loc = out[1]
                    exp = [(p, loc[p]) for p in objs] + [(f"orig_{p}", after[p]) for p in objs]
                    e = "(Some [" + "; ".join(f'("{n}", {_zl(sorted(v) if isinstance(v, set) else v)})' for n, v in exp) + "])"
                rows.append(f"chk {coq.coq_bool(kind == 'set')} ({fill(tpl)}) {e}")
                descr.append(f"FURB{r.code} {side} of `{r.lhs}` on {args!r}")
    if not rows:
        ctx.obligation("correspondence: Lib/PyHeap.v statement rules = CPython (final contents through every name)", False, "no heap rule instance was executed")
        return
    shards = ["Eval vm_compute in bad [\n" + ";\n".join(rows[k:k + 800]) + "].\n" for k in range(0, len(rows), 800)]
    outs = coq.eval_shards(ctx, "pyheap", hdr, shards)
    bad, err = [], ""
    for k, (rc, o, e) in enumerate(outs):
        vals = coq.parse_eval_values(o)
        if rc != 0 or not vals:
            err = (e or o)[-400:]
            continue
        bad += [k * 800 + int(j) for j in re.findall(r"\d+", vals[0].split(":")[0])]
    ctx.extra.setdefault("model_tie", {})["heap_rule_rows"] = len(rows)
    ctx.obligation("correspondence: Lib/PyHeap.v statement rules = CPython (final contents through every name)", not bad and not err,
                   err or "; ".join(descr[i] for i in bad[:6]))


class NotInModel(Exception):
    pass


def coq_value(v) -> str:
    if v is None:
        return "VNone"
    if isinstance(v, bool):
        return f"(VBool {'true' if v else 'false'})"
    if isinstance(v, int):
        return f"(VInt ({v}))"
    if isinstance(v, float):
        if v != v:
            return "(VFloat FNaN)"
        if v in (float("inf"), float("-inf")):
            return f"(VFloat (FInf {'true' if v < 0 else 'false'}))"
        if v == 0 and math.copysign(1, v) < 0:
            return "(VFloat FNegZero)"
        n, d = v.as_integer_ratio()
        return f"(VFloat (FNum (({n}) # {d})))"
    if isinstance(v, str):
        return "(VStr [" + "; ".join(f"{ord(c)}%N" for c in v) + "])"
    if isinstance(v, list):
        return "(VList [" + "; ".join(coq_value(x) for x in v) + "])"
    if isinstance(v, tuple):
        return "(VTuple [" + "; ".join(coq_value(x) for x in v) + "])"
    raise NotInModel(type(v).__name__)


def coq_objs(args: dict) -> dict:
    """Operands as model objects: the same Python object gets the same identity."""
    ids: dict[int, int] = {}
    out = {}
    for k, v in args.items():
        lab = ids.setdefault(id(v), len(ids) + 1)
        out[k] = f"{{| lbl := Some {lab}%nat; val := {coq_value(v)} |}}"
    return out


def _fill(tpl: str, args: dict) -> str:
    objs = coq_objs(args)

    def sub(m):
        name, _, conv = m.group(1).partition("!")
        if conv == "z":
            return "[" + "; ".join(f"({x})" for x in args[name]) + "]%Z"
        return objs[name]
    return re.sub(r"\{([a-z!]+)\}", sub, tpl)


def _expected(kind: str, outcome) -> str:
    """CPython's outcome as the model's result term."""
    if outcome[0] != "ok":
        return "None"
    v = outcome[1]
    if kind == "obj":
        return f"(Some {coq_value(v)})"
    if kind == "Z":
        if isinstance(v, bool) or not isinstance(v, int):
            raise NotInModel("non-int element")
        return f"(Some ({v})%Z)"
    return f"(Some {'true' if v else 'false'})"


OPS_POOL = [None, True, False, 0, 1, -1, 2, 255, 10**20, 2**53, 2**53 + 1, 0.0, -0.0, 1.0, 1.5, -2.0, 0.1, 9007199254740992.0, float("inf"), float("-inf"), NAN, float("nan"),
            "", "a", "ab", "abc", "b", "B", "aé", "\U0001F600"]
SEQ_POOL = [[], [0], [1, 2], [1, 2, 3], [1.0, 2], (), (0,), (1, 2), ("a",), [[1], [1]], [[]]]


def model_tie(ctx: Ctx, derived: dict) -> None:
    """X2: the model's operations and the model's rule expressions against CPython."""
    hdr = ("From Coq Require Import QArith.\nFrom Lib Require Import Base PyEval PyRules.\nOpen Scope list_scope.\nSet Printing Width 100000.\n"
           "Definition ozeq (a b : option Z) := match a, b with Some x, Some y => Z.eqb x y | None, None => true | _, _ => false end.\n"
           "Definition obeq (a b : option bool) := match a, b with Some x, Some y => Bool.eqb x y | None, None => true | _, _ => false end.\n"
           "Definition oobeq (a b : option bool) := obeq a b.\n"
           "Definition bad (l : list bool) := (fix go (i : nat) (l : list bool) : list nat := match l with [] => [] | b :: q => if b then go (S i) q else i :: go (S i) q end) 0%nat l.\n")
    rows, descr = [], []
    pool = OPS_POOL + SEQ_POOL
    # ---- operations: ==, truthiness, < (scalars), in (with identity)
    for a in pool:
        rows.append(f"Bool.eqb (py_truthy {coq_value(a)}) {coq.coq_bool(bool(a))}")
        descr.append(f"bool({a!r})")
        for b in pool:
            rows.append(f"Bool.eqb (py_eq {coq_value(a)} {coq_value(b)}) {coq.coq_bool(a == b)}")
            descr.append(f"{a!r} == {b!r}")
    for a in OPS_POOL:
        for b in OPS_POOL:
            try:
                e = f"(Some {coq.coq_bool(a < b)})"
            except TypeError:
                e = "None"
            rows.append(f"oobeq (py_lt {coq_value(a)} {coq_value(b)}) {e}")
            descr.append(f"{a!r} < {b!r}")
    rng = ctx.rng
    for _ in range(ctx.budget(400, 3000)):
        xs = [rng.choice(pool) for _ in range(rng.choice([2, 3, 4]))]
        if rng.random() < 0.4:
            xs[rng.randrange(1, len(xs))] = xs[0]          # the same object again
        objs = list(coq_objs({str(i): v for i, v in enumerate(xs)}).values())
        rows.append(f"Bool.eqb (py_in {objs[0]} [{'; '.join(objs[1:])}]) {coq.coq_bool(xs[0] in tuple(xs[1:]))}")
        descr.append(f"{xs[0]!r} in {tuple(xs[1:])!r} (identities {[id(x) == id(xs[0]) for x in xs[1:]]})")
        if len(xs) == 2 and all(not isinstance(x, (list, tuple)) for x in xs):
            for fn, py in (("py_min2", min), ("py_max2", max)):
                try:
                    e = f"(Some {coq_value(py(xs[0], xs[1]))})"
                except TypeError:
                    e = "None"
                rows.append(f"oveq ({fn} {objs[0]} {objs[1]}) {e}")
                descr.append(f"{py.__name__}({xs[0]!r}, {xs[1]!r})")
    n_ops = len(rows)
    # ---- rule expressions: both sides of every modelled rule on the environments the engine executed
    skipped = 0
    for (r, rhs, envs) in derived.values():
        m = MODEL_RULES.get((r.code, r.lhs))
        if m is None or not set(r.params.values()) <= MODEL_TYPES or r.note.startswith("`"):
            continue
        ml, mr, want, kind = m
        cmp_ = {"obj": "oveq", "Z": "ozeq", "bool": "obeq"}[kind]
        for args, (a, _aa), (c, _ca) in envs:
            try:
                rows.append(f"{cmp_} ({_fill(ml, args)}) {_expected(kind, a)}")
                descr.append(f"FURB{r.code} original `{r.lhs}` on {args!r}")
                rows.append(f"{cmp_} ({_fill(mr, args)}) {_expected(kind, c)}")
                descr.append(f"FURB{r.code} replacement `{rhs}` on {args!r}")
            except NotInModel:
                skipped += 1
    shards = []
    size = 1500
    for k in range(0, len(rows), size):
        shards.append("Eval vm_compute in bad [\n" + ";\n".join(rows[k:k + size]) + "].\n")
    outs = coq.eval_shards(ctx, "pyeval", hdr, shards)
    bad, err = [], ""
    for k, (rc, o, e) in enumerate(outs):
        vals = coq.parse_eval_values(o)
        if rc != 0 or not vals:
            err = (e or o)[-400:]
            continue
        for j in re.findall(r"\d+", vals[0].split(":")[0]):
            bad.append(k * size + int(j))
    ctx.extra["model_tie"] = {"operation_rows": n_ops, "rule_rows": len(rows) - n_ops, "outside_model_value_domain": skipped}
    ctx.obligation("correspondence: Lib/PyEval.v operations (truthiness, ==, <, in with identity, min/max) = CPython on the value pool; "
                   "Lib/PyRules.v original and replacement of every modelled rule = CPython's outcome on every executed environment",
                   not bad and not err, err or "; ".join(descr[i] for i in bad[:8]))
    for i in bad[:10]:
        ctx.notes.append(f"model/CPython disagreement: {descr[i]}")


def matcher_tie(ctx: Ctx, matched: dict, all_rules: list, built: bool) -> None:
    """The translated check functions against the real ones: same trees reported, same message text, on the
    real mypy nodes of every instance / neighbouring shape / compound operand of these checks and of random expressions."""
    if not matched:
        return
    import importlib

    import mypy.nodes as N
    from ..harness import exprgen as G
    from ..harness import to_coq as TC
    rng = ctx.rng
    srcs, seen = [], set()
    for r in all_rules:
        if r.code in matched and r.mode in ("expr", "cond") and not r.setup:
            if r.lhs not in seen:
                seen.add(r.lhs)
                srcs.append(r.lhs)
    names = {"x": "a", "y": "b", "z": "c", "x2": "n", "y2": "n", "c_": "a", "w_": "w", "l": "xs", "nums": "xs", "b2": "b"}
    import re as _re
    srcs = [_re.sub(r"\b([a-z_]+\d?)\b", lambda m: names.get(m.group(1), m.group(1)), s0) for s0 in srcs]
    gen_ = G.Gen(rng)
    while len(srcs) < ctx.budget(500, 6000):
        e = gen_.expr(rng.choice([1, 2, 2, 3]))
        s0 = G.unparse(e)
        if s0 and s0 not in seen and "\n" not in s0:
            seen.add(s0)
            srcs.append(s0)
            # the shapes these checks look for, built from random operands
            a0, b0 = s0, G.unparse(gen_.expr(1)) or "a"
            for shape in (f"({a0}) if ({a0}) else ({b0})", f"not not ({a0})", f"({a0}) if ({a0}) < ({b0}) else ({b0})", f"({b0}) if ({a0}) >= ({b0}) else ({a0})",
                          f"({a0}) in [({b0})]", f"({a0}) not in (({b0}),)", f"({a0}) in {{({b0})}}", f"({a0}) if ({b0}) > ({a0}) else ({b0})",
                          f"({a0}) is True", f"False != ({a0})", "flag == False", "True is not flag", f"flag is ({a0})", "flag != True"):
                if rng.random() < 0.25 and shape not in seen:
                    seen.add(shape)
                    srcs.append(shape)
    # the library idioms among the translated checks: every function of their tables (and neighbours) through every import spelling,
    # applied to arguments of each type the guards ask about, with other argument counts, and every kind of logarithm base
    lib = []
    for fn_ in ("os.path.isabs", "os.path.isdir", "os.path.isfile", "os.path.islink", "os.path.exists", "os.path.lexists", "os.path.getsize", "os.path.getatime",
                "os.path.getmtime", "os.path.getctime", "os.stat", "os.lstat", "os.remove", "os.unlink", "os.rmdir", "os.getcwd", "os.getcwdb", "os.path.ismount",
                "ospath.isfile", "ospath.getmtime", "posixpath.isdir", "pp2.exists", "o2.path.getctime", "o2.remove", "o2.getcwd", "isfile_", "getsize_", "exists_", "unlink_", "getcwd_", "stat_"):
        for arg_ in ("p_", "s", "bs_", "n", "'f.txt'", "b'f'", "Path('f')", "obj", "str(p_)", "p_ / s"):
            if rng.random() < (0.6 if ctx.tier != "thorough" else 1.0):
                lib.append(f"{fn_}({arg_})")
        lib += [f"{fn_}()", f"{fn_}(s, s)", f"{fn_}(p_, s)"]
    for lg in ("math.log", "mlog_", "m2.log", "math.log2", "math.log10", "math.log1p"):
        for base_ in ("2", "10", "2.0", "10.0", "2.5", "10.5", "3", "0b10", "0xA", "1e1", "2e0", "2.00", "20", "-2", "True", "math.e", "me_", "m2.e", "math.pi", "n", "a", "2j", "'2'"):
            lib.append(f"{lg}(a, {base_})")
        lib += [f"{lg}(a)", f"{lg}(a, 2, 3)", f"{lg}(2, a)"]
    for hv in ("hashlib.sha256(bs_)", "hashlib.md5()", "h256_", "hshake_", "hashlib.shake_128(bs_)", "hashlib.blake2b()", "hnew_", "obj", "s", "bs_"):
        lib += [f"{hv}.digest().hex()", f"{hv}.digest(8).hex()", f"{hv}.digest(n).hex()", f"{hv}.digest().upper()", f"{hv}.hexdigest().hex()", f"{hv}.digest(1, 2).hex()",
                f"{hv}.digest().hex(':')", f"{hv}.digest(length=8).hex()", f"{hv}.copy().digest().hex()"]
    srcs += [x for x in lib if x not in seen]
    files, per = {}, 400
    for fi in range(0, len(srcs), per):
        lines = [G.PRELUDE, "import math\nimport math as m2\nfrom math import log as mlog_, e as me_\nfrom pathlib import Path\nfrom os.path import isfile as isfile_, getsize as getsize_, exists as exists_\n"
                 "from os import unlink as unlink_, getcwd as getcwd_, stat as stat_\np_: Path = Path()\nbs_: bytes = b''\nimport hashlib\nh256_ = hashlib.sha256()\nhshake_ = hashlib.shake_128()\nhnew_ = hashlib.new('md5')",
                 "w = 0", "flag: bool = True", "async def _w() -> None:"]
        for j, s0 in enumerate(srcs[fi:fi + per]):
            lines.append(f"    P_{fi + j} = {s0}")
        files[f"m{fi // per}.py"] = "\n".join(lines) + "\n"
    found, errs, td = TC.harvest(files)
    try:
        loose = (N.ConditionalExpr, N.LambdaExpr, N.AwaitExpr, N.AssignmentExpr)
        kinds = {110: N.ConditionalExpr, 136: N.ConditionalExpr, 114: N.UnaryExpr, 171: N.ComparisonExpr, 149: N.ComparisonExpr,
                 104: N.CallExpr, 141: N.CallExpr, 144: N.CallExpr, 146: N.CallExpr, 155: N.CallExpr, 163: N.CallExpr, 181: N.CallExpr}
        pytypes = {"bool": bool, "str": str, "bytes": bytes, "pathlib.Path": "pathlib.Path"}
        from refurb.checks.common import get_mypy_type, is_same_type, stringify
        mods = {code: importlib.import_module(info["module"]) for code, info in matched.items()}
        rows = []

        def subnodes(n):
            from .c02 import direct_children
            out = []
            for c in direct_children(n):
                out.append(c)
                out += subnodes(c)
            return out
        for (_f, pname), top in sorted(found.items(), key=lambda kv: int(kv[0][1][2:])):
            for node in [top] + subnodes(top):
                for code, cls in kinds.items():
                    if code not in mods or not isinstance(node, cls):
                        continue
                    if any(isinstance(x, loose) for x in subnodes(node)):
                        ctx.count("matcher:operand-outside-the-structural-fragment")
                        continue
                    errors: list = []
                    try:
                        mods[code].check(node, errors)
                        real = [e.msg for e in errors]
                    except Exception as ex:  # noqa: BLE001
                        real = [f"<{type(ex).__name__}>"]
                    oracle = []
                    if matched[code].get("typed"):          # what the type guard answers for the operands / arguments, keyed by their text
                        receivers = [node.callee.expr.callee.expr] if isinstance(node, N.CallExpr) and isinstance(node.callee, N.MemberExpr) and isinstance(node.callee.expr, N.CallExpr) \
                            and isinstance(node.callee.expr.callee, N.MemberExpr) else []
                        for op_ in list(getattr(node, "operands", [])) + list(getattr(node, "args", [])) + receivers:
                            for tn in matched[code].get("type_names", []):
                                try:
                                    if is_same_type(get_mypy_type(op_), pytypes.get(tn, tn)):
                                        oracle.append((stringify(op_), tn))
                                except Exception:  # noqa: BLE001
                                    pass
                    rows.append((code, node, real, oracle))
                    ctx.case(("matcher", code, srcs[int(pname[2:])][:80], node.line, node.column), nontrivial=bool(real),
                             sample={"check": f"FURB{code}", "messages": real} if real and rng.random() < 0.02 else None)
                    ctx.count(f"matcher:FURB{code}:{'reports' if real else 'silent'}")
        if built and rows:
            hdr = ("From Lib Require Import Base PyAst Equiv Stringify PyMatch.\nFrom P Require Import " + " ".join(sorted({i["file"] for i in matched.values()})) + ".\nOpen Scope list_scope.\nSet Printing Width 100000.\n"
                   "Definition same (a b : list string) := list_eqb String.eqb a b.\n"
                   "Definition ty (known : list (string * string)) (e : expr) (t : string) : bool := existsb (fun p => String.eqb (fst p) (stringify e) && String.eqb (snd p) t) known.\n")
            shards, metas = [], []
            for i in range(0, len(rows), 300):
                chunk = rows[i:i + 300]
                body = "Definition cs : list (list string * list string) := [\n" + ";\n".join(
                    f"(map render (check_{code} {'(ty ' + coq.coq_list(['(' + coq.coq_str(x) + ', ' + coq.coq_str(t_) + ')' for x, t_ in oracle]) + ') ' if matched[code].get('typed') else ''}{TC.expr(node)}), {coq.coq_list([coq.coq_str(m) for m in real])})" for code, node, real, oracle in chunk) + "].\n" \
                    "Eval vm_compute in (fix go i l := match l with [] => [] | (m, r) :: t => if same m r then go (S i) t else i :: go (S i) t end) 0 cs.\n"
                shards.append(body)
                metas.append(chunk)
            res = coq.eval_shards(ctx, "matchers", hdr, shards, timeout=900)
            mism = []
            for (rc, out, err), chunk in zip(res, metas):
                vals = coq.parse_eval_values(out)
                if rc != 0 or not vals:
                    mism.append("coqc failed: " + err[-300:])
                    continue
                for i in [int(x) for x in vals[0].strip("[]").split(";") if x.strip()][:4]:
                    code, node, real, _ = chunk[i]
                    mism.append(f"FURB{code} on `{str(node)[:60]}` line {node.line}: real {real}")
            ctx.obligation("correspondence: translated check() of FURB" + "/".join(map(str, sorted(matched))) + " (GenMatch.v, rendered with Lib/Stringify.v) = the real check functions on every harvested node",
                           not mism, "; ".join(mism[:5]))
            ctx.extra["matcher_tie_nodes"] = len(rows)
    finally:
        shutil.rmtree(td, ignore_errors=True)


def run(ctx: Ctx) -> None:
    ctx.trusted_base += [
        "Coq 8.16.1 kernel",
        "tools/vf/translate/matchers.py: typed symbolic translation of check() (match patterns, guards, f-string messages) into Gallina, fail-closed; tied to the real functions by the matcher correspondence",
        "Lib/PySyn.v: evaluation of the pure fragment on syntax trees (uses Lib/PyEval.v's operations); literals and names are parameters",
        "Lib/PyEval.v: hand-written big-step model of the pure Python fragment the P1 rules use (tied to CPython by evaluating closed instances both ways)",
        "tools/vf/props/c01_rules.py: one executable instance per idiom; the replacement is taken from the message refurb prints",
        "CPython as the oracle of behaviour for every rule (exec of original and replacement on generated environments)",
    ]
    ctx.assumptions += ["operands are side-effect free, never raise and have exactly their declared static types (the property's hypotheses): generated values are of the exact type",
                        "checks whose documentation states that the rewrite is a heuristic or changes behaviour are outside the claim: " + ", ".join(f"FURB{k}" for k in DOC_EXCLUSIONS)]
    ctx.assumptions.append("Lib/PyEval.v: elements of model lists/tuples carry no identity, so the model's container equality is CPython's only for reflexive elements (no NaN inside a container); "
                           "proved rules cover the operand types named in each theorem, the other instances of the same check are decided by execution only")
    ctx.rule("every rule instance of the table x the product (sampled to the budget) of its operands' value lists (ints incl. big, floats incl. NaN/+-0.0/inf, strings sharing prefixes/suffixes, "
             "lists with ties, empty containers, a scratch directory for file-system rules); observables: value+type or exception class, operands after the call, stdout, aliasing, directory tree; "
             "non-trivial = environment where the original does not raise; distinct by (rule instance, environment)")
    gen = {}
    try:
        gen["GenCasts"] = translate_casts(REPO)
    except Exception as e:  # noqa: BLE001
        ctx.obligation("translate FUNC_NAME_MAPPING (FURB123)", False, str(e))
    order = (["GenCasts"] if gen else []) + ["C01", "C01Heap"] + (["C01Tables"] if gen else [])
    # the check functions themselves: FURB110/114/136/171 translated to matchers with message templates (GenMatch.v), with the
    # translated is_equivalent (GenEquiv.v) and its soundness proof (C06Proofs.v) as their sameness guard
    matched: dict[int, dict] = {}
    try:
        from ..translate.catalogue import catalogue
        from ..translate.equiv import translate as translate_equiv
        from ..translate.matchers import translate_check
        cat = {c["code"]: c for c in catalogue(REPO) if c["prefix"] == "FURB"}
        parts = ["(* generated from refurb/checks: check() of FURB" + ", ".join(map(str, sorted(MATCHED_CHECKS))) + " as matchers over PyAst with message templates *)",
                 "From Lib Require Import Base PyAst Equiv Stringify PyMatch.", "From P Require Import GenEquiv.", "Open Scope list_scope.", "",
                 "Section Checks.", "  (* what refurb's type resolution answers for an operand: is_same_type(get_mypy_type(e), T) *)",
                 "  Variable type_is : expr -> string -> bool.", ""]
        for code in MATCHED_CHECKS:
            info = dict(cat[code])
            text = translate_check(Path(info["path"]), code, info["msg"], REPO, info)
            info["typed"] = "type_is " in text
            info["file"] = "GenMatch"
            parts.append(text)
            matched[code] = info
        parts.append("End Checks.")
        gen["GenEquiv"] = translate_equiv(REPO)
        gen["C06Proofs"] = (coq.PROPS / "C06" / "C06Proofs.v").read_text()
        gen["GenMatch"] = "\n".join(parts)
        order += ["GenEquiv", "C06Proofs", "GenMatch", "C01Match"]
    except Exception as e:  # noqa: BLE001
        matched = {}
        for k in ("GenEquiv", "C06Proofs", "GenMatch"):
            gen.pop(k, None)
        ctx.obligation("translate check() of FURB" + "/".join(map(str, sorted(MATCHED_CHECKS))) + " (matchers with message templates)", False, f"{type(e).__name__}: {e}")
    # the library idioms: one generated file and one statement file per check, so that a check that stops translating
    # leaves the others proved
    order.append("C01LibSpec")
    for code in LIBRARY_CHECKS:
        try:
            from ..translate.catalogue import catalogue
            from ..translate.matchers import translate_check
            info = dict(next(c for c in catalogue(REPO) if c["prefix"] == "FURB" and c["code"] == code))
            text = translate_check(Path(info["path"]), code, info["msg"], REPO, info)
            info["typed"] = "type_is " in text
            info["file"] = f"GenLib{code}"
            gen[f"GenLib{code}"] = "\n".join([f"(* generated from {Path(info['path']).relative_to(REPO)}: check() of FURB{code} as a matcher over PyAst with message templates *)",
                                              "From Coq Require Import ZArith.", "From Lib Require Import Base PyAst Equiv Stringify PyMatch.", "Open Scope list_scope.", "",
                                              "Section Check.", "  Variable type_is : expr -> string -> bool.", "", text, "End Check.", ""])
            order += [f"GenLib{code}", f"C01Lib{code}"]
            matched[code] = info
        except Exception as e:  # noqa: BLE001
            ctx.obligation(f"translate check() of FURB{code} (matcher with message templates)", False, f"{type(e).__name__}: {e}")
    b = coq.compile_props(ctx, gen, order)
    coq.record_build(ctx, b)
    from refurb.main import run_refurb
    from refurb.settings import Settings
    rng = ctx.rng
    base_n = len(RULES)
    base_index = {id(r): i for i, r in enumerate(RULES)}
    ALL = list(RULES)
    for r in RULES:
        ALL += variants(r)
    # the same idiom with an operand of another type: a check whose type guard is too weak accepts it
    SWAP = ["int", "float", "bool", "str", "bytes", "list_int", "tuple_int", "set_int", "dict_str_int", "opt_int", "list_str"]
    seen_t = {(r.code, norm(r.lhs), tuple(r.params.values())) for r in ALL}
    for r in RULES:
        if r.rhs is not None or r.annot or r.fs:
            continue
        for pname, tag in r.params.items():
            if tag not in SWAP:
                continue
            for alt in SWAP:
                if alt == tag:
                    continue
                ps = dict(r.params)
                ps[pname] = alt
                k = (r.code, norm(r.lhs), tuple(ps.values()))
                if k not in seen_t:
                    seen_t.add(k)
                    ALL.append(Rule(r.code, r.lhs, ps, mode=r.mode, setup=r.setup, cls=r.cls, note=f"`{r.lhs}` with {pname}: {alt}"))
    # the bytes twin of a str idiom: the operand typed bytes and every str literal of the instance written as a bytes literal
    # (a check that accepts both types must also write the replacement for both)
    class _Bytes(ast.NodeTransformer):
        def visit_Constant(self, n):
            return ast.copy_location(ast.Constant(value=n.value.encode("utf8")), n) if isinstance(n.value, str) else n
    n_twins = 0
    for r in list(RULES) + list(OPTIONAL_RULES):
        if r.rhs is not None or r.annot or r.fs or "str" not in r.params.values():
            continue
        try:
            t0 = ast.parse(textwrap.dedent(r.lhs))
        except SyntaxError:
            continue
        if not any(isinstance(x, ast.Constant) and isinstance(x.value, str) for x in ast.walk(t0)):
            continue
        try:
            txt = ast.unparse(ast.fix_missing_locations(_Bytes().visit(t0)))
            compile(txt, "twin", "exec")
        except Exception:  # noqa: BLE001
            continue
        ps = {k: ("bytes" if v == "str" else v) for k, v in r.params.items()}
        k = (r.code, norm(txt), tuple(ps.values()))
        if k not in seen_t:
            seen_t.add(k)
            ALL.append(Rule(r.code, txt, ps, mode=r.mode, setup=r.setup, cls=r.cls, note=f"`{r.lhs}` with bytes operands and bytes literals"))
            n_twins += 1
    ctx.count("bytes-twins-of-str-idioms", n_twins)
    seen_c = {(r.code, norm(r.lhs)) for r in ALL}
    n_compound = 0
    for r in RULES:
        for v in compound_variants(r):
            k = (v.code, norm(v.lhs))
            if k not in seen_c:
                seen_c.add(k)
                ALL.append(v)
                n_compound += 1
    ctx.count("compound-operand-instances", n_compound)
    have = {(r.code, norm(r.lhs), tuple(r.params.values())) for r in ALL}
    for r in OPTIONAL_RULES:
        if (r.code, norm(r.lhs), tuple(r.params.values())) not in have:
            ALL.append(r)
    have = {(r.code, norm(r.lhs)) for r in ALL}
    for r in OPTIONAL_RULES:
        for v in variants(r):
            if (v.code, norm(v.lhs)) not in have:
                have.add((v.code, norm(v.lhs)))
                ALL.append(v)
    td = Path(tempfile.mkdtemp(prefix="c01-"))
    try:
        # ---- one lint run over all rule instances
        lines = ["from typing import Any", "import os, io, re, math, hashlib, shlex, string", "from pathlib import Path"]
        spans = {}
        for i, r in enumerate(ALL):
            prog = (r.setup or "") + lint_program(r, i)
            start = sum(x.count("\n") + 1 for x in lines) + 1
            lines.append(prog.rstrip("\n"))
            spans[i] = (start, start + prog.count("\n"))
        f = td / "rules.py"
        f.write_text("\n".join(lines) + "\n")
        out = run_refurb(Settings(files=[str(f)], enable_all=True, quiet=True))
        strs = [e for e in out if isinstance(e, str)]
        if strs:
            ctx.obligation("rule corpus builds under mypy", False, strs[0][:300])
            return
        by_rule: dict[int, list] = {}
        for e in out:
            for i, (a, z) in spans.items():
                if a <= e.line <= z and e.code == ALL[i].code:
                    by_rule.setdefault(i, []).append(e)
        docs = {}
        from refurb.loader import get_error_class, get_modules
        for m in get_modules([]):
            ec = get_error_class(m)
            if ec:
                docs[ec.code] = ec.__doc__ or ""
        unmatched, underivable, stale, variant_underivable = [], [], [], []
        swapped_reported: set = set()
        derived: dict = {}
        msgs_by_index: dict = {}
        scratch = td / "scratch"
        for i, r in enumerate(ALL):
            es = by_rule.get(i)
            is_variant = i >= base_n
            if not es:
                if is_variant:
                    ctx.count("variant-not-flagged")          # the check's guard rejects the neighbouring shape: nothing is advised
                else:
                    unmatched.append(f"FURB{r.code}: {r.lhs!r}")
                continue
            msg = es[0].msg
            rhs, how = derive_rhs(r, msg)
            msgs_by_index[i] = msg
            if rhs is None and id(r) in COMPOUND_INFO:
                # the quoted original no longer matches the instance (it lost the operand's parentheses): when the base
                # idiom's advice replaces the whole instance, so does this one, by the text it prints
                bi_ = base_index.get(id(COMPOUND_INFO[id(r)][0]))
                mb = re.fullmatch(r"Replace `(.*)` with `(.*)`", msgs_by_index.get(bi_, ""), flags=re.S)
                mv = re.fullmatch(r"Replace `(.*)` with `(.*)`", msg, flags=re.S)
                if mb and mv and norm(mb.group(1)) == norm(ALL[bi_].lhs) and "..." not in mv.group(2):
                    rhs, how = (mv.group(2), "message (whole instance)") if _parse_fragment(mv.group(2)) is not None else ("<<invalid>>" + mv.group(2), "message")
                    ctx.count("compound:quoted-original-does-not-match-the-instance")
            if is_variant:
                ctx.count("variant-flagged")
            if rhs is not None and rhs.startswith("<<invalid>>") and "[table rule]" in r.note:
                rhs, how = None, "the message quotes a fragment that is not standalone code"
            if rhs is None:
                if is_variant:
                    variant_underivable.append(f"FURB{r.code}: {r.lhs!r}: {msg}")
                else:
                    underivable.append(f"FURB{r.code}: {r.lhs!r}: {how}")
                continue
            if rhs.startswith("<<invalid>>"):
                ctx.report(f"invalid-python:FURB{r.code}", f"FURB{r.code}: the proposed replacement `{rhs[11:]}` for `{r.lhs}` is not valid Python",
                           {"original": r.lhs, "replacement": rhs[11:], "message": msg})
                continue
            if id(r) in COMPOUND_INFO:
                base_rule, p_, sub_src = COMPOUND_INFO[id(r)]
                bi = base_index.get(id(base_rule))
                if bi is None or bi not in derived:
                    ctx.count("compound:base-underivable")
                    continue
                want = intended_replacement(derived[bi][1], base_rule, p_, sub_src)
                if want is None or norm(want) == norm(rhs):
                    ctx.count("compound:same-tree-as-intended")       # nothing beyond the base idiom, which is executed on its own
                    continue
                ctx.count("compound:tree-differs-from-intended")
                intended_txt = want
            if r.code in DOC_EXCLUSIONS and DOC_EXCLUSIONS[r.code] in " ".join(docs.get(r.code, "").split()):
                ctx.count("documented-heuristic")
                continue
            ns: dict = {}
            exec(compile("from typing import Any\nimport os, io, re, math, hashlib, shlex, string, operator, itertools, functools, contextlib, secrets, datetime as _dt\n"
                         "from pathlib import Path\nfrom itertools import chain, starmap\nfrom contextlib import suppress\nfrom functools import cache\n" + (r.setup or ""), "<setup>", "exec"), ns)
            try:
                lf = make_fn(r.lhs, r, ns)
            except SyntaxError as e:
                ctx.notes.append(f"FURB{r.code}: instance does not compile: {e}")
                continue
            try:
                rf = make_fn(rhs, r, ns)
            except SyntaxError as e:
                ctx.report(f"invalid-python:FURB{r.code}", f"FURB{r.code}: the proposed replacement `{rhs}` for `{r.lhs}` is not valid Python: {e}",
                           {"original": r.lhs, "replacement": rhs, "message": msg})
                continue
            bound_only = set()
            if r.mode == "stmt":
                for n in ast.walk(ast.parse(textwrap.dedent(r.lhs))):
                    if isinstance(n, (ast.For, ast.comprehension)):
                        bound_only |= {x.id for x in ast.walk(n.target) if isinstance(x, ast.Name)}
                    if isinstance(n, ast.withitem) and n.optional_vars is not None:
                        bound_only |= {x.id for x in ast.walk(n.optional_vars) if isinstance(x, ast.Name)}
            combos = list(itertools.product(*[VALUES[t] for t in r.params.values()])) or [()]
            cap = ctx.budget(60, 600) if r.note.startswith("compound:") else ctx.budget(700, 6000)
            if len(combos) > cap:
                combos = rng.sample(combos, cap)
            reported: set[str] = set()
            pending_raises: list = []
            n_original_ok = 0
            envs: list = []
            derived[i] = (r, rhs, envs)
            mm = MODEL_RULES.get((r.code, r.lhs))
            hm = HEAP_RULES.get((r.code, r.lhs))
            if hm is not None and norm(hm[2]) != norm(rhs):
                stale.append(f"FURB{r.code} `{r.lhs}`: model replacement `{hm[2]}`, refurb prints `{rhs}`")
            if mm is not None and norm(mm[2]) != norm(rhs):
                stale.append(f"FURB{r.code} `{r.lhs}`: model replacement `{mm[2]}`, refurb prints `{rhs}`")
            for vals in combos:
                args = dict(zip(r.params, vals))
                a = observe(lf, args, r, scratch if r.fs else None)
                raw_a = (observe.raw, observe.raw_args)
                c = observe(rf, args, r, scratch if r.fs else None)
                raw_c = (observe.raw, observe.raw_args)
                ctx.case((i, repr(vals)), nontrivial=a["result"][0] == "ok",
                         sample={"rule": f"FURB{r.code}", "original": r.lhs, "replacement": rhs, "env": {k: repr(v) for k, v in args.items()}} if rng.random() < 0.002 else None)
                ctx.count(f"class-{r.cls}")
                if (mm is not None or hm is not None) and len(envs) < 400:
                    envs.append((args, raw_a, raw_c))
                n_original_ok += a["result"][0] == "ok"
                if a["result"][0] == "exc":
                    # whether an exception is raised is an observable (which one is not): both raising is agreement
                    if c["result"][0] == "exc":
                        continue
                    cause = f"original-raises:{a['result'][1]}"
                    if cause not in reported:
                        reported.add(cause)
                        inst = f"{r.lhs}[{','.join(r.params.values())}]"
                        if r.note.startswith("`"):
                            if (r.code, r.lhs, cause) in swapped_reported:
                                continue
                            swapped_reported.add((r.code, r.lhs, cause))
                            inst = f"{r.lhs}[other-operand-types]"
                        elif r.note.startswith("compound:"):
                            continue
                        pending_raises.append((f"semantics:FURB{r.code}:{inst}:{cause}", f"FURB{r.code}: `{r.lhs}` -> `{rhs}` differ on {', '.join(f'{k}={v!r}' for k, v in args.items())}: "
                                               f"the original raises {a['result'][1]}, the replacement returns {str(c['result'])[:100]}",
                                               {"rule": r.code, "original": r.lhs, "replacement": rhs, "message": msg, "replacement_from": how, "environment": {k: repr(v) for k, v in args.items()},
                                                "cause_class": cause, "original_outcome": {k: repr(v) for k, v in a.items()}, "replacement_outcome": {k: repr(v) for k, v in c.items()}}))
                    continue
                if a["result"][0] == "ok" and c["result"][0] == "ok" and r.mode == "stmt":
                    la, lc = dict(a["result"][1][1]), dict(c["result"][1][1])
                    for k in set(la) ^ set(lc):
                        if k[1].strip("'") in bound_only:
                            la.pop(k, None), lc.pop(k, None)
                    a = dict(a, result=("ok", ("dict", tuple(sorted(la.items())))))
                    c = dict(c, result=("ok", ("dict", tuple(sorted(lc.items())))))
                if a != c:
                    diff = [k for k in a if a[k] != c[k]]
                    cause = cause_of(args, a, c, diff)
                    if cause in reported:
                        continue
                    reported.add(cause)
                    inst = f"{r.lhs}[{','.join(r.params.values())}]"
                    if r.note.startswith("`"):
                        # the idiom with an operand of another type: one finding per (idiom, cause), whatever the types
                        cause = cause.split(":")[0] if cause.startswith("result-type") else cause
                        if (r.code, r.lhs, cause) in swapped_reported:
                            continue
                        swapped_reported.add((r.code, r.lhs, cause))
                        inst = f"{r.lhs}[other-operand-types]"
                    elif r.note.endswith("[one operand occurrence substituted]") and cause in ("nan", "signed-zero", "ties", "float-rounding", "result-type", "operand-object-mutated"):
                        # the substituted shape is still (another arrangement of) the idiom: what special values do to it is listed for the idiom itself
                        ctx.count("substituted-operand:known-cause-of-the-idiom")
                        continue
                    elif r.note.startswith("compound:"):
                        # the idiom with a compound operand: one finding per (idiom, form of the operand)
                        _, fname, rest_ = r.note.split(":", 2)
                        base_ = rest_.split(" in `", 1)[1][:-1]
                        if (r.code, base_, fname) in swapped_reported:
                            continue
                        swapped_reported.add((r.code, base_, fname))
                        ctx.report(f"replacement-misparses:FURB{r.code}:{base_}[{fname}]",
                                   f"FURB{r.code}: for `{r.lhs}` the message proposes `{rhs}`, which does not parse as the intended `{intended_txt}` (an operand needs parentheses) and "
                                   f"differs on {', '.join(f'{k}={v!r}' for k, v in args.items())}: {diff[0]}: {str(a[diff[0]])[:100]} vs {str(c[diff[0]])[:100]}",
                                   {"rule": r.code, "original": r.lhs, "replacement": rhs, "intended": intended_txt, "message": msg, "environment": {k: repr(v) for k, v in args.items()},
                                    "original_outcome": {k: repr(v) for k, v in a.items()}, "replacement_outcome": {k: repr(v) for k, v in c.items()}})
                        continue
                    ctx.report(f"semantics:FURB{r.code}:{inst}:{cause}", f"FURB{r.code}: `{r.lhs}` -> `{rhs}` differ on {', '.join(f'{k}={v!r}' for k, v in args.items())}: "
                               f"{diff[0]}: {str(a[diff[0]])[:120]} vs {str(c[diff[0]])[:120]}",
                               {"rule": r.code, "original": r.lhs, "replacement": rhs, "message": msg, "replacement_from": how, "environment": {k: repr(v) for k, v in args.items()},
                                "cause_class": cause, "original_outcome": {k: repr(v) for k, v in a.items()}, "replacement_outcome": {k: repr(v) for k, v in c.items()}})
            # an instance whose original raises on EVERY environment is not an instance of the idiom (it is ill-typed
            # for these operands): nothing to preserve.  Otherwise raising where the replacement does not is a difference.
            if pending_raises and n_original_ok:
                for k_, w_, rep_ in pending_raises:
                    ctx.report(k_, w_, rep_)
            elif pending_raises:
                ctx.count("instances-that-always-raise")
        ctx.extra["rule_instances"] = len(RULES)
        ctx.extra["neighbouring_shapes_generated"] = len(ALL) - base_n
        ctx.extra["flagged_variants_with_underivable_replacement"] = variant_underivable
        ctx.extra["checks_covered"] = len({r.code for i, r in enumerate(RULES) if i in by_rule})
        ctx.extra["instances_not_flagged_by_refurb"] = unmatched
        ctx.extra["instances_with_underivable_replacement"] = underivable
        ctx.obligation("rule table tie: every instance of the table is flagged by refurb with its own code (table and checks agree on the idiom)",
                       len(unmatched) <= 0, "; ".join(unmatched[:6]))
        ctx.obligation("rule table tie: the replacement of every flagged instance is derivable from the printed message", not underivable, "; ".join(underivable[:6]))
        ctx.obligation("model tie: the replacement each proved rule models is the replacement refurb prints", not stale, "; ".join(stale[:6]))
        ctx.extra["modelled_rule_instances"] = sorted(f"FURB{r.code} `{r.lhs}` [{','.join(r.params.values())}]" for (r, _, _) in derived.values()
                                                      if (r.code, r.lhs) in MODEL_RULES and set(r.params.values()) <= MODEL_TYPES)
        model_tie(ctx, derived)
        heap_tie(ctx, derived)
        matcher_tie(ctx, {c: i for c, i in matched.items() if b.files.get(i["file"], {}).get("rc") == 0}, ALL, True)
    finally:
        shutil.rmtree(td, ignore_errors=True)
    explained = {"furb123_table_sound": "semantics:FURB123", "furb123_table_keys_unique": "semantics:FURB123", "translate FUNC_NAME_MAPPING (FURB123)": "semantics:FURB123"}
    # a translated check that no longer translates, or whose statement no longer checks, is explained by an input on which that check's advice now fails
    legacy = tuple(f"semantics:FURB{c}:" for c in MATCHED_CHECKS) + tuple(f"invalid-python:FURB{c}" for c in MATCHED_CHECKS)
    explained["translate check() of FURB" + "/".join(map(str, sorted(MATCHED_CHECKS))) + " (matchers with message templates)"] = legacy
    for o in ctx.obligations:
        m_ = re.search(r"check_(\d+)_|translate check\(\) of FURB(\d+) \(matcher with", o["name"])
        if m_:
            c_ = m_.group(1) or m_.group(2)
            explained[o["name"]] = (f"semantics:FURB{c_}:", f"invalid-python:FURB{c_}")
    explained["log_advice_only_for_its_own_base"] = ("semantics:FURB163:", "invalid-python:FURB163")
    explained["stat_advice_names_the_matching_field"] = ("semantics:FURB155:", "invalid-python:FURB155")
    explained["hexdigest_advice_keeps_root_and_length"] = ("semantics:FURB181:", "invalid-python:FURB181")
    ctx.resolve_broken(explained, b.first_error)
