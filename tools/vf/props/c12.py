"""C12 — per-path (amend) ignores cover exactly the files under that path."""
from __future__ import annotations

import json
import os
import tempfile
from pathlib import Path

from .. import coq
from ..core import REPO, Ctx
from ..harness import lint as L
from .c14 import coq_cl

S = coq.coq_str
DIRS = ["src", "src2", "sr", "src/util", "src/util2", "pkg", "pkg/sub", "conf", "a b", "é"]
FILES = ["a.py", "util.py", "mod.py"]


def build_tree(root: Path) -> list[str]:
    files = []
    for d in DIRS:
        (root / d).mkdir(parents=True, exist_ok=True)
        for f in FILES:
            p = root / d / f
            p.write_text("x = int(0)\n")
            files.append(f"{d}/{f}")
    (root / "top.py").write_text("x = int(0)\n")
    files.append("top.py")
    return files


def decorate(rng, rel: str) -> str:
    """the same location spelled with ./, x/.., // and a trailing slash"""
    parts = rel.split("/")
    out = []
    for p in parts:
        r = rng.random()
        if r < 0.15:
            out.append(".")
        elif r < 0.3:
            out += [rng.choice(["src", "pkg", "zz"]), ".."] if rng.random() < 0.7 else ["..", ".."] if False else [p, "..", p][:0] or [p]
            if out[-1] != p:
                out.append(p)
            continue
        out.append(p)
    s = "/".join(out)
    if rng.random() < 0.1:
        s = s.replace("/", "//", 1)
    if rng.random() < 0.1:
        s += "/"
    return s


def run(ctx: Ctx) -> None:
    ctx.trusted_base += [
        "Coq 8.16.1 kernel",
        "Lib/Paths.v: hand-written model of is_ignored_via_amend over component lists (no symbolic links); tied by the correspondence below",
        "os.path.realpath + os.path.commonpath as the oracle of 'lies at or below'",
    ]
    ctx.assumptions += ["POSIX paths; symbolic links are outside the Coq model and decided by execution only (partial)"]
    ctx.rule("real temp directory trees (sibling names sharing a prefix, nested dirs, names with space / non-ASCII) x entry paths spelled with ./, x/.., //, trailing /, absolute, "
             "x config file in the root, a sub- or parent directory x working directory in root/subdir x code, category and foreign entries; plus symlinked dirs/files (execution only); "
             "non-trivial = entry has a path; distinct by (cwd, config, entry, file, code)")
    gens, order = {}, ["C12"]
    try:
        from ..translate.amend import translate as translate_amend
        gens["GenAmend"] = translate_amend(REPO)
        order += ["GenAmend", "C12Amend"]
    except Exception as e:  # noqa: BLE001
        ctx.obligation("translate is_ignored_via_amend (the loop over settings.ignore)", False, f"{type(e).__name__}: {e}")
    b = coq.compile_props(ctx, gens, order)
    coq.record_build(ctx, b)
    translated_ok = b.files.get("GenAmend", {}).get("rc") == 0
    import refurb.main as rmain
    from refurb.error import Error, ErrorCategory, ErrorCode
    from refurb.settings import Settings
    rng = ctx.rng
    K = type("ErrorInfo", (Error,), {"prefix": "FURB", "code": 123, "categories": ("readability", "python39")})
    K0 = K
    KS = [K, K, type("ErrorInfo", (Error,), {"prefix": "XYZ", "code": 123, "categories": ("readability",)}),
          type("ErrorInfo", (Error,), {"prefix": "FURB", "code": 124, "categories": ()}),
          type("ErrorInfo", (Error,), {"prefix": "ABCD", "code": 100, "categories": ("pathlib", "read")})]
    cases = []
    old_cwd = os.getcwd()
    with tempfile.TemporaryDirectory(prefix="c12-") as td:
        root = Path(os.path.realpath(td)) / "proj"
        root.mkdir()
        files = build_tree(root)
        # symlinks (execution only)
        os.symlink(root / "src", root / "link_to_src")
        os.symlink(root / "src" / "a.py", root / "pkg" / "linked_a.py")
        try:
            for _ in range(ctx.budget(500, 12000)):
                cwd_rel = rng.choice(["", "", "src", "pkg/sub", "conf"])
                cwd = root / cwd_rel if cwd_rel else root
                os.chdir(cwd)
                cfg_dir = rng.choice(["", "", "conf", "pkg/sub", ".."])
                cfg_abs = os.path.normpath(root / cfg_dir / "pyproject.toml")
                cf_spelling = rng.choice([None if cfg_dir == "" and cwd == root else "rel", "rel", "abs"])
                if cf_spelling is None:
                    config_file = None
                elif cf_spelling == "abs":
                    config_file = cfg_abs
                else:
                    config_file = os.path.relpath(cfg_abs, cwd)
                cfg_base = Path(cfg_abs).parent if config_file is not None else cwd
                frel = rng.choice(files)
                if rng.random() < 0.5:
                    parts = frel.split("/")                       # an ancestor of the file (or the file itself): the covered half of the space
                    target = "/".join(parts[: rng.randrange(1, len(parts) + 1)])
                    if rng.random() < 0.25:
                        target = os.path.dirname(target) + ("/" if os.path.dirname(target) else "") + os.path.basename(target)[:-1]   # a sibling that shares a prefix
                else:
                    target = rng.choice(DIRS + [f for f in files] + ["", "."])
                entry_abs = os.path.normpath(root / target)
                r = rng.random()
                if r < 0.15:
                    entry = entry_abs
                else:
                    entry = os.path.relpath(entry_abs, cfg_base)
                    if rng.random() < 0.5:
                        entry = decorate(rng, entry)
                def classifier(path_text):
                    kind = rng.random()
                    if kind < 0.45:
                        return ErrorCode(123, "FURB", Path(path_text))
                    if kind < 0.6:
                        return ErrorCategory("readability", Path(path_text))
                    if kind < 0.85:          # same number under another prefix, same prefix with another number, a plugin's code
                        return ErrorCode(*rng.choice([(123, "XYZ"), (124, "FURB"), (100, "FURB"), (100, "ABCD"), (123, "ABCD")]), Path(path_text))
                    return ErrorCategory(rng.choice(["pathlib", "python39", "read", "readability2"]), Path(path_text))
                ign = classifier(entry)
                raw = {id(ign): entry}
                # further entries: for the same path (one amend table listing several codes) or for another directory
                more = []
                for _ in range(rng.choice([0, 0, 1, 2])):
                    r2 = rng.random()
                    if r2 < 0.4:
                        text = entry
                    elif r2 < 0.75:
                        # another ancestor of the same file (or the file itself): nested tables that both cover it
                        ps_ = frel.split("/")
                        text = os.path.relpath(os.path.normpath(root / "/".join(ps_[: rng.randrange(0, len(ps_) + 1)])), cfg_base)
                        ctx.count("amend-tables-on-nested-paths")
                    else:
                        text = os.path.relpath(os.path.normpath(root / rng.choice(DIRS)), cfg_base)
                    m = classifier(text)
                    raw[id(m)] = text
                    more.append(m)
                entries = [ign] + [m for m in more if m != ign]
                K = rng.choice(KS)
                fabs = str(root / frel)
                fname = fabs if rng.random() < 0.3 else os.path.relpath(fabs, cwd)
                if rng.random() < 0.3:
                    fname = decorate(rng, fname) if not fname.startswith("/") else fname
                st = Settings(config_file=config_file, ignore={*entries, ErrorCode(999, "FURB", None)})
                if config_file is not None and rng.random() < 0.5:
                    # the same entries as the user would write them, through the real config parser (what it stores is part of the contract)
                    from refurb.settings import load_settings
                    def spell(c):
                        return f"{c.prefix}{c.id}" if isinstance(c, ErrorCode) else f"#{c.value}"
                    by_path: dict[str, list[str]] = {}
                    for c in entries:
                        by_path.setdefault(raw[id(c)], []).append(spell(c))
                    if rng.random() < 0.5:
                        # one table per classifier: several tables then name the same directory (also under different spellings of it)
                        rows_ = [(raw[id(c)] + rng.choice(["", "", "/", "/."]) if raw[id(c)] not in ("", ".") else raw[id(c)], [spell(c)]) for c in entries]
                        ctx.count("amend-tables-sharing-a-path", sum(1 for i_, r_ in enumerate(rows_) if any(os.path.normpath(r_[0] or ".") == os.path.normpath(q_[0] or ".") for q_ in rows_[:i_])))
                    else:
                        rows_ = list(by_path.items())
                    tables = "".join(f'[[tool.refurb.amend]]\npath = {json.dumps(pth)}\nignore = {json.dumps(cs)}\n' for pth, cs in rows_)
                    Path(cfg_abs).write_text(f'[tool.refurb]\nignore = ["FURB999"]\n{tables}')
                    try:
                        st = load_settings(["x.py", "--config-file", config_file])
                        ctx.count("entry-through-config-parser")
                    except ValueError as ex:
                        ctx.report("amend:config-rejected", f"a well-formed amend entry {entry!r} is rejected: {ex}", {"entry": entry, "config": Path(cfg_abs).read_text()})
                        continue
                err = K(line=1, column=0, msg="m", filename=fname)
                real = bool(rmain.is_ignored_via_amend(err, st))
                # oracle: at or below, by real path, and the classifier names this error
                fp = os.path.realpath(os.path.join(cwd, fname))
                want = False
                for c in entries:
                    names = (isinstance(c, ErrorCode) and (c.prefix, c.id) == (K.prefix, K.code)) or \
                            (isinstance(c, ErrorCategory) and c.value in K.categories)
                    ep = os.path.realpath(os.path.join(cfg_base, raw[id(c)]))
                    below = fp == ep or fp.startswith(ep.rstrip("/") + "/")
                    want = want or (names and below)
                ctx.case((str(cwd), config_file, str(entries), K.prefix, K.code, fname), nontrivial=True,
                         sample={"cwd": cwd_rel, "config_file": config_file, "entry": entry, "file": fname, "ignored": real} if rng.random() < 0.004 else None)
                ctx.count("ignored" if real else "not-ignored")
                ctx.count(f"entries:{len(entries)}")
                ctx.count("error:" + K.prefix + str(K.code))
                cases.append((str(cwd), config_file, [(c, raw[id(c)]) for c in entries], fname, real, K))
                if real != want:
                    ctx.report("amend:" + ("covers-too-much" if real else "covers-too-little"),
                               f"entry {entry!r} (config {config_file!r}, cwd {cwd_rel!r}) vs file {fname!r}: ignored={real}, expected {want}",
                               {"cwd": str(cwd), "config_file": config_file, "entry": entry, "file": fname, "real": real, "expected": want})
            # symlinks: execution only
            os.chdir(root)
            K = K0
            os.symlink(root / "src" / "util", root / "link_to_util")          # link_to_util/.. is src, not the root
            from refurb.settings import load_settings
            for entry, fname, want in (("link_to_src", "src/a.py", True), ("src", "link_to_src/a.py", True), ("src", "pkg/linked_a.py", True),
                                       ("pkg", "pkg/linked_a.py", False), ("link_to_src", "src2/a.py", False),
                                       ("link_to_util/../a.py", "src/a.py", True), ("link_to_util/../a.py", "a.py", False), ("link_to_util/..", "src/a.py", True),
                                       ("link_to_util/..", "pkg/a.py", False), ("./link_to_src/util/..", "src/a.py", True)):
                (root / "pyproject.toml").write_text(f'[tool.refurb]\n[[tool.refurb.amend]]\npath = {json.dumps(entry)}\nignore = ["FURB123"]\n')
                st = load_settings(["x.py"])                                  # through the real parser, cwd = root
                real = bool(rmain.is_ignored_via_amend(K(line=1, column=0, msg="m", filename=fname), st))
                ctx.case(("symlink", entry, fname), nontrivial=True, sample={"symlink-entry": entry, "file": fname, "ignored": real})
                ctx.count("symlink")
                if real != want:
                    ctx.report("amend:symlink", f"entry {entry} / file {fname} through a symbolic link: ignored={real}, expected {want}", {"entry": entry, "file": fname})
            e2e(ctx, root)
        finally:
            os.chdir(old_cwd)
    if b.files.get("C12", {}).get("rc") == 0:
        hdr = ("From Lib Require Import Base Select Paths GenTpl.\n" + ("From P Require Import GenAmend.\n" if translated_ok else "") + "Open Scope list_scope.\nSet Printing Width 100000.\n"
               "Definition chk (c : list string * option string * list cls * string * bool * (string * N * list string)) : bool := let '(cwd, cf, igs, f, r, (pre, id, cats)) := c in\n"
               "  Bool.eqb (ignored_via_amend cwd cf (igs ++ [Code \"FURB\" 999 None]) f pre id cats) r"
               + (" && Bool.eqb (amend_translated (fun p n => (p ++ N_to_dec n)%string) cwd cf (igs ++ [Code \"FURB\" 999 None]) f pre id cats) r" if translated_ok else "") + ".\n")
        shards, per = [], 400
        for i in range(0, len(cases), per):
            rows = []
            for cwd, cf, igs, fname, real, KK in cases[i:i + per]:
                cw = coq.coq_list([S(x) for x in cwd.strip("/").split("/")])
                from refurb.error import ErrorCode as EC
                ts = [("code", ign.prefix, ign.id, str(ign.path)) if isinstance(ign, EC) else ("cat", ign.value, None, str(ign.path)) for ign, _ in igs]
                kk = f"({S(KK.prefix)}, {KK.code}%N, {coq.coq_list([S(x) for x in KK.categories])})"
                rows.append(f"({cw}, {'None' if cf is None else '(Some ' + S(cf) + ')'}, {coq.coq_list([coq_cl(t) for t in ts])}, {S(fname)}, {coq.coq_bool(real)}, {kk})")
            shards.append("Definition cs := [\n" + ";\n".join(rows) + "].\n"
                          "Eval vm_compute in (fix go i l := match l with [] => [] | c :: t => if chk c then go (S i) t else i :: go (S i) t end) 0 cs.\n")
        res = coq.eval_shards(ctx, "amend", hdr, shards, timeout=900)
        mism = []
        for si, (rc, out, err) in enumerate(res):
            vals = coq.parse_eval_values(out)
            if rc != 0 or not vals:
                mism.append(f"shard {si}: coqc failed: {err[-300:]}")
                continue
            for j in [int(x) for x in vals[0].strip("[]").split(";") if x.strip()][:3]:
                c = cases[si * per + j]
                mism.append(f"cwd={c[0]} cf={c[1]} ign={c[2]} file={c[3]} real={c[4]}")
        ctx.obligation("correspondence: Lib/Paths.v ignored_via_amend" + (" and the translated loop (GenAmend.v)" if translated_ok else "") + " = refurb.main.is_ignored_via_amend on every symlink-free layout",
                       not mism, "; ".join(mism[:4]))
    ctx.resolve_broken({"correspondence: Lib/Paths.v ignored_via_amend = refurb.main.is_ignored_via_amend on every symlink-free layout": ("amend:",),
                        "correspondence: Lib/Paths.v ignored_via_amend and the translated loop (GenAmend.v) = refurb.main.is_ignored_via_amend on every symlink-free layout": ("amend:",),
                        "translate is_ignored_via_amend (the loop over settings.ignore)": ("amend:",), "amend_translated_is_the_model": ("amend:",), "amend_order_irrelevant": ("amend:",)}, b.first_error)


def e2e(ctx: Ctx, root: Path) -> None:
    """Through the real CLI with a config file in a sub-directory and another cwd."""
    (root / "conf" / "pyproject.toml").write_text(
        '[tool.refurb]\n[[tool.refurb.amend]]\npath = "../src"\nignore = ["FURB123"]\n[[tool.refurb.amend]]\npath = "../pkg/sub"\nignore = ["#readability"]\n')
    for cwd, cfg in ((root, "conf/pyproject.toml"), (root / "pkg", "../conf/pyproject.toml")):
        files = ["src/e1.py", "src2/e2.py", "src/util/e3.py", "pkg/sub/e4.py", "pkg/e5.py", "e6.py"]
        for f in files:
            (root / f).write_text("x = int(0)\n")
        args = [os.path.relpath(root / f, cwd) for f in files] + ["--config-file", cfg, "--quiet"]
        rc, out, err = L.cli(args, cwd=str(cwd))
        reported = {os.path.normpath(os.path.join(cwd, l.split(":")[0])) for l in out.splitlines() if "[FURB123]" in l}
        want = {str(root / f) for f in ("src2/e2.py", "pkg/e5.py", "e6.py")}
        ctx.case(("e2e", str(cwd)), nontrivial=True, sample={"cwd": str(cwd.name), "reported": sorted(os.path.relpath(x, root) for x in reported)})
        ctx.count("cli-amend")
        if reported != want or not L.clean_verdict(rc, out, err):
            ctx.report("amend:e2e", f"with cwd {cwd.name} and --config-file {cfg} the files still reported are {sorted(os.path.relpath(x, root) for x in reported)}",
                       {"cwd": str(cwd), "argv": args, "stdout": out[-600:], "stderr": err[-600:]})
    implicit_config(ctx, root)
    several_files_one_run(ctx, root)


def implicit_config(ctx: Ctx, root: Path) -> None:
    """No --config-file: whichever pyproject.toml turns out to be in use (told by a marker: a global
    ignore of FURB114 that only that file contains), its amend paths are resolved against ITS directory."""
    proj = root / "implicit"
    body = "x = int(0)\ny = not not x\n"
    layout = ["src/e1.py", "src/util/e2.py", "src2/e3.py", "sub/e4.py", "sub/src/e5.py", "sub/deep/e6.py", "sub/deep/src/e7.py", "e8.py"]
    for f in layout:
        (proj / f).parent.mkdir(parents=True, exist_ok=True)
        (proj / f).write_text(body)
    top = '[tool.refurb]\nignore = ["FURB114"]\n[[tool.refurb.amend]]\npath = "src"\nignore = ["FURB123"]\n'
    inner = '[tool.refurb]\nignore = ["FURB114"]\n[[tool.refurb.amend]]\npath = "deep"\nignore = ["FURB123"]\n'
    scenarios = [
        ("cwd-is-project-root", {"pyproject.toml": top}, proj),
        ("cwd-is-subfolder-without-config", {"pyproject.toml": top}, proj / "sub"),
        ("cwd-two-levels-down", {"pyproject.toml": top}, proj / "sub" / "deep"),
        ("cwd-subfolder-with-its-own-config", {"pyproject.toml": top.replace("FURB114", "FURB999"), "sub/pyproject.toml": inner}, proj / "sub"),
        ("cwd-below-a-subfolder-config", {"pyproject.toml": top.replace("FURB114", "FURB999"), "sub/pyproject.toml": inner}, proj / "sub" / "deep"),
    ]
    for label, configs, cwd in scenarios:
        for old in proj.rglob("pyproject.toml"):
            old.unlink()
        for rel, text in configs.items():
            (proj / rel).write_text(text)
        args = [os.path.relpath(proj / f, cwd) for f in layout] + ["--quiet"]
        rc, out, err = L.cli(args, cwd=str(cwd))
        seen = {(os.path.relpath(os.path.normpath(os.path.join(cwd, l.split(":")[0])), proj), code)
                for l in out.splitlines() for code in ("FURB123", "FURB114") if f"[{code}]" in l}
        marker_files = {f for f, c in seen if c == "FURB114"}
        ctx.case(("implicit-config", label), nontrivial=True, sample={"cwd": os.path.relpath(cwd, proj), "marker_reported_for": len(marker_files)})
        ctx.count("cli-implicit-config")
        if not L.clean_verdict(rc, out, err):
            ctx.report(f"amend:implicit:{label}:crash", f"refurb without --config-file in {label} ends with status {rc}: {err[-300:]}", {"cwd": str(cwd), "argv": args})
            continue
        # which config file is in use: the one whose marker took effect (none: every file keeps both diagnostics)
        in_use = [rel for rel, text in configs.items() if "FURB114" in text]
        if marker_files == set(layout):
            want = set(layout)                       # no config in use
            using = None
        elif not marker_files:
            using = in_use[0]
            base = os.path.dirname(using)
            amend_dir = os.path.normpath(os.path.join(base, "src" if using == "pyproject.toml" else "deep"))
            want = {f for f in layout if not (f == amend_dir or f.startswith(amend_dir + "/"))}
        else:
            ctx.report(f"amend:implicit:{label}:marker", f"{label}: the global ignore of the config file applies to some files only: {sorted(marker_files)} still reported",
                       {"cwd": str(cwd), "argv": args, "stdout": out[-600:]})
            continue
        got = {f for f, c in seen if c == "FURB123"}
        if got != want:
            ctx.report(f"amend:implicit:{label}", f"{label}: config file in use is {using or 'none'}; FURB123 should remain for {sorted(want)} but remains for {sorted(got)}",
                       {"cwd": os.path.relpath(cwd, proj), "configs": configs, "files": layout, "file_body": body, "argv": args, "stdout": out[-800:],
                         "rule": "amend paths resolve against the directory of the config file in use"})


def several_files_one_run(ctx: Ctx, root: Path) -> None:
    """What is decided for one file must not leak to its neighbours: amend entries naming a single file, a folder, and a nested
    folder, with several files of the same folders (each reporting the same code) checked in ONE run, in every order."""
    import itertools
    proj = root / "together"
    body = "x = int(0)\ny = not not x\n"
    layout = ["src/util.py", "src/app.py", "src/views.py", "src/gen/models.py", "src/gen/extra.py", "lib/util.py", "top.py"]
    for f in layout:
        (proj / f).parent.mkdir(parents=True, exist_ok=True)
        (proj / f).write_text(body)
    configs = {
        "one-file": ('[[tool.refurb.amend]]\npath = "src/util.py"\nignore = ["FURB123"]\n', lambda f, c: c == "FURB123" and f == "src/util.py"),
        "file-and-folder": ('[[tool.refurb.amend]]\npath = "src/app.py"\nignore = ["FURB114"]\n[[tool.refurb.amend]]\npath = "src/gen"\nignore = ["FURB123"]\n',
                            lambda f, c: (c == "FURB114" and f == "src/app.py") or (c == "FURB123" and f.startswith("src/gen/"))),
        "two-files-same-folder": ('[[tool.refurb.amend]]\npath = "src/util.py"\nignore = ["FURB123"]\n[[tool.refurb.amend]]\npath = "src/views.py"\nignore = ["FURB114"]\n',
                                  lambda f, c: (c == "FURB123" and f == "src/util.py") or (c == "FURB114" and f == "src/views.py")),
        "category-on-one-file": ('[[tool.refurb.amend]]\npath = "lib/util.py"\nignore = ["#readability"]\n', lambda f, c: f == "lib/util.py"),
    }
    for cname, (tables, covered) in configs.items():
        (proj / "pyproject.toml").write_text("[tool.refurb]\n" + tables)
        orders = [["src"], ["."], layout, layout[::-1], ["src/util.py", "src/views.py"], ["src/views.py", "src/util.py"], ["src/app.py", "src/util.py", "src/gen/models.py"],
                  ["lib/util.py", "src/util.py"], ["src/util.py", "lib/util.py", "top.py"]]
        for args in orders:
            rc, out, err = L.cli([*args, "--quiet"], cwd=str(proj))
            got = {(os.path.normpath(l.split(":")[0]), c) for l in out.splitlines() for c in ("FURB123", "FURB114") if f"[{c}]" in l}
            checked = set()
            for a in args:
                checked |= {f for f in layout if a == "." or f == a or f.startswith(a.rstrip("/") + "/")}
            want = {(f, c) for f in checked for c in ("FURB123", "FURB114") if not covered(f, c)}
            ctx.case(("several-files", cname, tuple(args)), nontrivial=True)
            ctx.count("cli-several-files-one-run")
            if not L.clean_verdict(rc, out, err) or got != want:
                ctx.report(f"amend:several-files:{cname}", f"amend tables `{cname}`, files {args} checked in one run: wrongly silenced {sorted(want - got)[:4]}, wrongly reported {sorted(got - want)[:4]}",
                           {"pyproject.toml": "[tool.refurb]\n" + tables, "argv": [*args, "--quiet"], "cwd": "the project root", "file_body": body, "layout": layout,
                            "silenced_but_not_covered": sorted(want - got), "reported_although_covered": sorted(got - want), "stdout": out[-600:]})
                break
