"""C07 — reported positions are real token positions inside the reported file."""
from __future__ import annotations

import ast
import re
import glob
import io
import tempfile
import tokenize
from pathlib import Path

from .. import coq
from ..core import REPO, VERIF, Ctx
from ..translate.catalogue import TranslateError, catalogue


# ---------------------------------------------------------------- translator: hand-computed positions
KNOWN_SITES = {
    # (module suffix, line arg, column arg) -> (which layout function, parameters)
    ("string/expandtabs.py", "func.end_line or func.line", "(func.end_column or 0) - len('replace')"): ("106", dict(end_line=True, offset=7)),
    ("string/expandtabs.py", "func.line", "(func.end_column or 0) - len('replace')"): ("106", dict(end_line=False, offset=7)),
    ("builtin/list_extend.py", "last.line", "last.column"): ("113", {}),
}


def hand_sites(repo: Path):
    sites = []
    for c in catalogue(repo):
        tree = c["tree"]
        rel = c["path"].split("refurb/checks/")[1]
        assigns = {}
        for n in ast.walk(tree):
            if isinstance(n, ast.Assign) and len(n.targets) == 1 and isinstance(n.targets[0], ast.Name):
                assigns[n.targets[0].id] = ast.unparse(n.value)
        for n in ast.walk(tree):
            if isinstance(n, ast.Call) and isinstance(n.func, ast.Name) and n.func.id == c["class"]:
                args = {k.arg: ast.unparse(k.value) for k in n.keywords}
                pos = [ast.unparse(a) for a in n.args]
                line = args.get("line", pos[0] if pos else None)
                col = args.get("column", pos[1] if len(pos) > 1 else None)
                if line is None or col is None:
                    raise TranslateError(f"{rel}:{n.lineno}: {c['class']}(...) without line/column")
                col = assigns.get(col, col)
                sites.append((rel, n.lineno, line, col, c["code"]))
    return sites


def translate(repo: Path) -> str:
    sites = hand_sites(repo)
    out = ["From Coq Require Import ZArith Bool.", "From Lib Require Import Layout.", "Open Scope Z_scope."]
    seen = set()
    p106 = None
    for rel, lineno, line, col, code in sites:
        if rel == "readability/use_abc_shorthand.py" and line == "metaclass.line" and col.startswith("metaclass.column - "):
            try:
                off = int(col.split(" - ")[1])
            except ValueError as e:
                raise TranslateError(f"{rel}:{lineno}: unrecognised column expression {col}") from e
            out.append(f"Definition offset_180 : Z := {off}.")
            seen.add("180")
            continue
        k = KNOWN_SITES.get((rel, line, col))
        if k is None:
            raise TranslateError(f"{rel}:{lineno}: position computed by hand in an unrecognised way: line={line!r} column={col!r}")
        if k[0] == "106":
            if p106 is not None and p106 != k[1]:
                raise TranslateError(f"{rel}: the two FURB106 sites compute their position differently")
            p106 = k[1]
        seen.add(k[0])
    if p106 is None or "180" not in seen or "113" not in seen:
        raise TranslateError(f"hand-computed position sites changed: found {sorted(seen)}")
    out.append(f"Definition uses_end_line_106 : bool := {'true' if p106['end_line'] else 'false'}.")
    out.append(f"Definition offset_106 : Z := {p106['offset']}.")
    out.append("Definition reported_180_src (l : kw_layout) : Z * Z := (fst (arg_pos l), snd (arg_pos l) - offset_180).")
    out.append("Definition reported_106_src (l : member_layout) : Z * Z :=\n"
               "  (if uses_end_line_106 then fst (member_end l) else recv_line l, snd (member_end l) - offset_106).")
    return "\n".join(out) + "\n", sites


# ---------------------------------------------------------------- token oracle
def token_starts(path: str):
    """{(line, col_in_characters)} and {(line, col_in_utf8_bytes)} of every token."""
    data = Path(path).read_bytes()
    chars, bts = set(), set()
    try:
        toks = list(tokenize.tokenize(io.BytesIO(data).readline))
    except (tokenize.TokenError, SyntaxError, IndentationError):
        return None, None, None
    enc = toks[0].string if toks and toks[0].type == tokenize.ENCODING else "utf-8"
    text = data.decode(enc, errors="replace")
    if text.startswith("﻿"):
        text = text[1:]
    lines = text.replace("\r\n", "\n").replace("\r", "\n").split("\n")
    for t in toks:
        if t.type in (tokenize.ENCODING, tokenize.NL, tokenize.NEWLINE, tokenize.INDENT, tokenize.DEDENT, tokenize.ENDMARKER, tokenize.COMMENT):
            continue
        ln, col = t.start
        chars.add((ln, col))
        if ln - 1 < len(lines):
            bts.add((ln, len(lines[ln - 1][:col].encode("utf8"))))
        # Python 3.12 tokenises f-strings into parts; expressions inside keep their own tokens
    return chars, bts, lines


def verdict(e, chars, bts, lines) -> str | None:
    if e.line < 1 or e.line > len(lines):
        return "line-out-of-file"
    if e.column < 0:
        return "negative-column"
    if e.column > len(lines[e.line - 1].encode("utf8")):
        return "column-beyond-line"
    if (e.line, e.column) in chars:
        return None
    if (e.line, e.column) in bts:
        return "utf8-byte-offset"
    return "not-a-token-start"


def _quiet_compile(src: str) -> None:
    import warnings
    with warnings.catch_warnings():
        warnings.simplefilter("ignore")
        compile(src, "v", "exec")


class Prefixer(ast.NodeVisitor):
    """line numbers of single-line simple statements (safe to prefix with `"é"; `)"""

    def __init__(self):
        self.lines = set()

    def generic_visit(self, n):
        if isinstance(n, (ast.Expr, ast.Assign, ast.AugAssign, ast.AnnAssign, ast.Return, ast.Assert, ast.Delete, ast.Pass)) \
                and getattr(n, "end_lineno", None) == n.lineno:
            self.lines.add(n.lineno)
        super().generic_visit(n)


def exploded(src: str, every: int = 1) -> str:
    """The same token sequence with a line break before every `every`-th token that sits inside brackets
    (where Python allows a break between any two tokens): every bracketed construct spans several lines."""
    import io
    import tokenize as tk
    lines = src.split("\n")

    def between(a, b):
        if a[0] == b[0]:
            return lines[a[0] - 1][a[1]:b[1]]
        return lines[a[0] - 1][a[1]:] + "\n" + "\n".join(lines[a[0]:b[0] - 1]) + ("\n" if b[0] - a[0] > 1 else "") + lines[b[0] - 1][:b[1]]
    out, prev_end, depth, fdepth, k = [], (1, 0), 0, 0, 0
    prev_type = None
    indent = 0
    skip = {tk.NL, tk.NEWLINE, tk.COMMENT, tk.ENDMARKER, tk.INDENT, tk.DEDENT}
    fstart, fend = getattr(tk, "FSTRING_START", -1), getattr(tk, "FSTRING_END", -2)
    for t in tk.generate_tokens(io.StringIO(src).readline):
        if t.type in (tk.INDENT, tk.DEDENT, tk.ENDMARKER):
            continue
        gap = between(prev_end, t.start) if prev_end <= t.start else ""
        if depth == 0 and t.start[1] == 0 or (prev_type in (tk.NEWLINE, None) and depth == 0):
            indent = len(lines[t.start[0] - 1]) - len(lines[t.start[0] - 1].lstrip())
        if depth > 0 and fdepth == 0 and t.type not in skip and prev_type not in (tk.COMMENT, tk.NL) and t.start[0] == prev_end[0] and "\\" not in gap:
            k += 1
            if k % every == 0:
                gap = "\n" + " " * (indent + 4 * depth + (0 if t.string in ")]}" else 2))
        out.append(gap + t.string)
        if t.type == fstart:
            fdepth += 1
        elif t.type == fend:
            fdepth -= 1
        elif t.type == tk.OP and fdepth == 0:
            if t.string in "([{":
                depth += 1
            elif t.string in ")]}":
                depth -= 1
        prev_end, prev_type = ((t.end[0] + 1, 0) if t.type in (tk.NEWLINE, tk.NL) and t.string.endswith("\n") else t.end), t.type
    return "".join(out)


def variants(src: str, name: str) -> dict[str, bytes]:
    out = {f"{name}": src.encode("utf8")}
    for every in (1, 3):
        try:
            cand = exploded(src, every)
            if cand != src and ast.dump(ast.parse(cand)) == ast.dump(ast.parse(src)):
                out[f"exploded{every}_{name}"] = cand.encode("utf8")
        except Exception:  # noqa: BLE001
            pass
    out[f"crlf_{name}"] = src.replace("\n", "\r\n").encode("utf8")
    out[f"bom_{name}"] = b"\xef\xbb\xbf" + src.encode("utf8")
    out[f"tabs_{name}"] = "\n".join(("\t" * ((len(l) - len(l.lstrip(" "))) // 4) + l.lstrip(" ")) if l.startswith("    ") else l
                                    for l in src.split("\n")).encode("utf8")
    try:
        p = Prefixer()
        p.visit(ast.parse(src))
        ls = src.split("\n")
        for ln in p.lines:
            l = ls[ln - 1]
            ind = len(l) - len(l.lstrip())
            if l.strip() and not l.lstrip().startswith(("@", "#")):
                ls[ln - 1] = l[:ind] + '"é中"; ' + l[ind:]
        cand = "\n".join(ls)
        _quiet_compile(cand)
        out[f"nonascii_{name}"] = cand.encode("utf8")
    except Exception:  # noqa: BLE001
        pass
    out[f"ff_{name}"] = ("\x0c\n" + src).encode("utf8")
    # non-ASCII on both sides of every position: a long multi-byte prefix statement and multi-byte
    # text at the start of every plain string literal (a column computed from a byte offset by
    # anything other than decoding the bytes before it goes wrong on one side or the other)
    try:
        import io
        import tokenize as tk
        ls = src.split("\n")
        edits = []
        for t in tk.generate_tokens(io.StringIO(src).readline):
            if t.type == tk.STRING and t.start[0] == t.end[0]:
                m = re.match(r"([rRuU]?)('|\")(?!\2)", t.string)
                if m and len(t.string) > 2:
                    edits.append((t.start[0], t.start[1] + len(m.group(0))))
        for ln, col in sorted(edits, reverse=True):
            l = ls[ln - 1]
            ls[ln - 1] = l[:col] + "é中ü" + l[col:]
        p = Prefixer()
        p.visit(ast.parse(src))
        for ln in p.lines:
            l = ls[ln - 1]
            ind = len(l) - len(l.lstrip())
            if l.strip() and not l.lstrip().startswith(("@", "#")):
                ls[ln - 1] = l[:ind] + '"éééé中中"; ' + l[ind:]
        cand = "\n".join(ls)
        _quiet_compile(cand)
        out[f"nonascii2_{name}"] = cand.encode("utf8")
    except Exception:  # noqa: BLE001
        pass
    return out


# statements that are diagnosed at a column > 1 when they are line 1 of a file
FIRST_LINES = ['text = repr(print(""))', "x = int(0)", "y = 1; z = not not y", "print(str(''), int(0), sep='')",
               "ok = 1 if 1 else (1 == 1 or 1 == 2)", "nums = [1]; nums.append(2); w = list(nums)[::-1]"]


def run(ctx: Ctx) -> None:
    ctx.trusted_base += [
        "Coq 8.16.1 kernel",
        "tools/vf/props/c07.py translate(): fail-closed recognition of every ErrorInfo(...) built with explicit line/column (all other diagnostics use Error.from_node)",
        "Python's tokenize module as the oracle of token starts; mypy's line/column/end_column of nodes (copied from ast) are outside the model",
    ]
    ctx.rule("every diagnostic on test/data, the hand-position layout corpus and their CRLF / BOM / tab-indented / non-ASCII-prefixed / form-feed variants; "
             "non-trivial = diagnostic on a transformed layout or from a hand-computed site; distinct by (variant, file, line, column, code)")
    b = None
    sites = []
    try:
        gen, sites = translate(REPO)
    except TranslateError as e:
        ctx.obligation("translate hand-computed positions", False, str(e))
        gen = None
    if gen is not None:
        b = coq.compile_props(ctx, {"GenPositions": gen}, ["GenPositions", "C07", "C07Findings"])
        fin = {k: v for k, v in b.theorems.items() if v["file"] == "C07Findings"}
        for k in fin:
            del b.theorems[k]
        coq.record_build(ctx, b)
        ctx.extra["hand_position_sites"] = [f"{r}:{ln} line={l} column={c}" for r, ln, l, c, _ in sites]
    from refurb.main import run_refurb
    from refurb.settings import Settings
    rng = ctx.rng
    seeds = [str(VERIF / "corpus" / "C07" / "layouts.py")] + sorted(glob.glob(str(REPO / "test" / "data" / "err_*.py")))
    if ctx.tier != "thorough":
        rest = seeds[1:]
        rng.shuffle(rest)
        seeds = seeds[:1] + rest[:30]
    with tempfile.TemporaryDirectory(prefix="c07-") as td:
        files = []
        for sp in seeds:
            for nm, data in variants(Path(sp).read_text("utf8"), Path(sp).name).items():
                p = Path(td) / nm
                p.write_bytes(data)
                files.append(str(p))
        # diagnostics on the very first line, where a byte-order mark (and what is done about it) shifts columns
        for k, first in enumerate(FIRST_LINES):
            for nm, data in {
                f"first{k}_plain.py": first.encode("utf8") + b"\n",
                f"bomfirst{k}_plain.py": b"\xef\xbb\xbf" + first.encode("utf8") + b"\n",
                f"bomfirst{k}_crlf.py": b"\xef\xbb\xbf" + first.encode("utf8") + b"\r\nz = int(0)\r\n",
                f"bomfirst{k}_nonascii.py": b"\xef\xbb\xbf" + ('"\u00e9\u4e2d"; ' + first).encode("utf8") + b"\n",
                f"bomfirst{k}_cookie.py": b"\xef\xbb\xbf" + first.encode("utf8") + b"\n# -*- coding: utf-8 -*-\nz = int(0)\n",
                f"bomfirst{k}_noeol.py": b"\xef\xbb\xbf" + first.encode("utf8"),
            }.items():
                p = Path(td) / nm
                p.write_bytes(data)
                files.append(str(p))
        # files whose traversal hits the recursion limit (refurb swallows that error and goes on with the next file):
        # whatever was found in them before must still be reported for THEM, at positions that exist in THEM
        deep_src = "rows = []\nrows.append(1)\nrows.append(2)\nx = int(0)\ntotal = 1" + " + 1" * 700 + "\n"
        deep_files = []
        for k, at in enumerate((0, len(files) // 2)):
            p = Path(td) / f"deep{k}_sum.py"
            p.write_text(deep_src)
            files.insert(at, str(p))
            deep_files.append(str(p))
        out = run_refurb(Settings(files=files, enable_all=True, quiet=True))
        strs = [e for e in out if isinstance(e, str)]
        if strs:
            ctx.obligation("layout corpus builds under mypy", False, strs[0][:300])
        tokcache = {}
        for e in out:
            if isinstance(e, str):
                continue
            if e.filename not in tokcache:
                tokcache[e.filename] = token_starts(e.filename)
            chars, bts, lines = tokcache[e.filename]
            if chars is None:
                continue
            variant = Path(e.filename).name.split("_")[0] if "_" in Path(e.filename).name and not Path(e.filename).name.startswith("err_") else "plain"
            v = verdict(e, chars, bts, lines)
            ctx.case((Path(e.filename).name, e.line, e.column, e.code), nontrivial=variant != "plain" or e.code in (106, 113, 180),
                     sample={"file": Path(e.filename).name, "pos": [e.line, e.column], "code": e.code} if rng.random() < 0.003 else None)
            ctx.count(variant)
            if e.filename not in files:
                ctx.report("foreign-file", f"diagnostic names {e.filename}, which is not one of the checked files", {"file": e.filename})
            if v:
                key = f"position:{v}" + (f":FURB{e.code}" if v != "utf8-byte-offset" else "")
                ctx.report(key, f"FURB{e.code} at {Path(e.filename).name}:{e.line}:{e.column + 1} is not where a token starts ({v}): "
                                f"{lines[e.line - 1][:100] if 0 < e.line <= len(lines) else ''!r}",
                           {"file": Path(e.filename).name, "line": e.line, "column0": e.column, "code": e.code, "verdict": v,
                            "source_line": lines[e.line - 1] if 0 < e.line <= len(lines) else None,
                            "content": Path(e.filename).read_text("utf8", errors="replace") if len(Path(e.filename).read_bytes()) < 6000 else None})
        # a diagnostic names the file it was found in: what is reported for the file that follows a recursion-limit
        # file must be what that file gets when checked alone
        for at in [files.index(d) for d in deep_files if files.index(d) + 1 < len(files)]:
            succ = files[at + 1]
            alone = {(e.line, e.column, e.code) for e in run_refurb(Settings(files=[succ], enable_all=True, quiet=True)) if not isinstance(e, str)}
            together = {(e.line, e.column, e.code) for e in out if not isinstance(e, str) and e.filename == succ}
            ctx.case(("after-deep", Path(succ).name), nontrivial=True)
            ctx.count("file-after-recursion-limit-file")
            if alone != together:
                extra = sorted(together - alone)[:4]
                ctx.report("position:belongs-to-another-file", f"{Path(succ).name}, checked after a file whose traversal hits the recursion limit, is reported {sorted(together ^ alone)[:4]} differently from when it is checked alone",
                           {"files": [Path(files[at]).name, Path(succ).name], "only_together": extra, "only_alone": sorted(alone - together)[:4]})
    ctx.resolve_broken({"furb106_position": "position:", "furb180_position_guarded": "position:", "translate hand-computed positions": "position:"}, b.first_error if b else "")
