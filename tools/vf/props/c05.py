"""C05 — type-conditioned diagnostics agree with the types mypy infers."""
from __future__ import annotations

import ast
import shutil
import tempfile
from collections import defaultdict
from pathlib import Path

from .. import coq
from ..core import REPO, Ctx
from ..translate.catalogue import TranslateError

S = coq.coq_str
CASTS = ["bool", "bytes", "complex", "dict", "float", "int", "list", "set", "str", "tuple"]

PRELUDE = '''\
import enum
import os
import pathlib
import re
import functools
import contextlib
import asyncio
from collections.abc import Awaitable, Callable, Coroutine, Generator, Iterator
from typing import Generic
from typing import Any, ClassVar, Final, Literal, NamedTuple, NewType, Optional, TypeAlias, TypedDict, TypeVar, cast, overload


class MyStr(str): ...
class MyInt(int): ...
class MyList(list[int]): ...
class MyDict(dict[str, int]): ...
class MySet(set[int]): ...
class NT(NamedTuple):
    a: int
    b: str
class TD(TypedDict):
    a: int
class IE(enum.IntEnum):
    A = 1
class SE(str, enum.Enum):
    A = "a"
UserId = NewType("UserId", int)
IntAlias: TypeAlias = int
ListAlias = list[int]
T = TypeVar("T")
K = TypeVar("K")

v_bool: bool = True
v_int: int = 1
v_float: float = 1.0
v_complex: complex = 1j
v_str: str = ""
v_bytes: bytes = b""
v_bytearray: bytearray = bytearray()
v_list: list[int] = []
v_set: set[int] = set()
v_frozenset: frozenset[int] = frozenset()
v_dict: dict[str, int] = {}
v_lstr: list[str] = []
v_dint: dict[int, int] = {}
v_sstr: set[str] = set()
v_tuple2: tuple[int, str] = (1, "")
v_tuplen: tuple[int, ...] = ()
v_path: pathlib.Path = pathlib.Path()
v_any: Any = None
v_obj: object = object()
v_union: int | str = 1
v_opt: Optional[int] = None
v_lit: Literal[1] = 1
v_final: Final = 3
v_newtype: UserId = UserId(1)
v_intenum: IE = IE.A
v_strenum: SE = SE.A
v_mystr: MyStr = MyStr()
v_myint: MyInt = MyInt()
v_mylist: MyList = MyList()
v_mydict: MyDict = MyDict()
v_myset: MySet = MySet()
v_nt: NT = NT(1, "")
v_td: TD = {"a": 1}
v_alias: IntAlias = 1
v_lalias: ListAlias = []
v_callable: Callable[[], int] = lambda: 1
v_pattern: re.Pattern[str] = re.compile("")
v_environ = os.environ
v_none: None = None
v_type: type[int] = int


def f_int() -> int: ...
def f_str() -> str: ...
def f_list() -> list[int]: ...
def f_any() -> Any: ...
def f_opt() -> int | None: ...
def f_nt() -> NT: ...
def f_untyped(): ...
async def co_int() -> int: ...
async def co_str() -> str: ...
async def co_list() -> list[int]: ...
class Fetch(Awaitable[bytes], Generic[K]):          # one type parameter, which is NOT what awaiting yields
    def __await__(self) -> Generator[Any, None, bytes]: ...
class Job(Generic[K]):                              # awaitable by protocol only
    def __await__(self) -> Generator[Any, None, int]: ...
class Plain:
    def __await__(self) -> Generator[Any, None, str]: ...
class Wrap(Awaitable[K]):                           # the parameter IS the result
    def __await__(self) -> Generator[Any, None, K]: ...
class TaskOfStr(asyncio.Task[str]): ...
aw_task: asyncio.Task[int]
aw_task_str: asyncio.Task[str]
aw_future: asyncio.Future[str]
aw_awaitable: Awaitable[int]
aw_coroutine: Coroutine[Any, Any, str]
aw_fetch_str: Fetch[str]
aw_fetch_int: Fetch[int]
aw_job_str: Job[str]
aw_plain: Plain
aw_wrap_str: Wrap[str]
aw_subtask: TaskOfStr
def generic(x: T) -> T: ...
def either(a: T, b: T) -> T: ...
def second(a: K, b: T) -> T: ...
def first_of(a: T, *rest: T) -> T: ...
def pick(xs: list[T]) -> T: ...
def kw_either(*, a: T, b: T) -> T: ...
class Box(Generic[T]):
    def get(self) -> T: ...
    def put(self, x: K) -> K: ...
    def mix(self, x: T, y: T) -> T: ...
box_int: Box[int]
V = TypeVar("V")
class Slot(Generic[T]):
    item: T
    both: tuple[T, T]
class Labelled(Slot[str], Generic[T]):      # rebinds the base's parameter and has one of its own under the same name
    payload: T
class Entry(Generic[K, V]):
    key: K
    value: V
class Inverted(Entry[V, K], Generic[K, V]):  # the base's parameters in the other order
    pass
class Passes(Slot[T]):                       # hands its parameter on
    pass
class Fixed(Slot[int]):                      # not generic itself
    pass
class Conf:
    verbose: int = 0
    label: str = ""
    items_: ClassVar[list[int]] = []
class StrictConf(Conf):                      # re-declares an attribute with a narrower type, inherits the others
    verbose: bool = True
class DeepConf(StrictConf):
    label: MyStr = MyStr()
slot_int: Slot[int]
slot_str: Slot[str]
lab_int: Labelled[int]
inv_int_str: Inverted[int, str]
pass_int: Passes[int]
fixed_: Fixed
@overload
def ov(x: int) -> int: ...
@overload
def ov(x: str) -> str: ...
def ov(x: Any) -> Any: ...


def to_str(fn: Callable[[], int]) -> Callable[[], str]: ...
def same(fn: Callable[[], int]) -> Callable[[], int]: ...
def generic_deco(fn: Callable[[], T]) -> Callable[[], T]: ...
def untyped_deco(fn): ...
def deco_factory(n: int) -> Callable[[Callable[[], int]], Callable[[], list[int]]]: ...
@to_str
def d_int_to_str() -> int: ...
@same
def d_same_int() -> int: ...
@generic_deco
def d_generic_int() -> int: ...
@untyped_deco
def d_untyped() -> int: ...
@deco_factory(2)
def d_factory() -> int: ...
@same
@to_str
def d_stack_bad() -> int: ...
@functools.cache
def d_cached() -> int: ...
@functools.lru_cache(maxsize=None)
def d_lru() -> str: ...
@contextlib.contextmanager
def d_ctx() -> Iterator[int]: ...
lam_int = lambda: 1
part_int = functools.partial(int, "1")
class Deco:
    @to_str
    def m_changed(self) -> int: ...
    @functools.cached_property
    def cp_int(self) -> int: ...
deco = Deco()


class Pair(tuple[int, int]): ...
class Triple(tuple[int, str, float]):
    def first(self) -> int: ...
class VarTuple(tuple[int, ...]): ...
v_pair: Pair = Pair((1, 2))
v_triple: Triple = Triple((1, "", 1.0))
v_vartuple: VarTuple = VarTuple((1,))


class Col:
    """rich comparisons and operators that do not return what the operator usually returns"""
    def __eq__(self, other: object) -> "Col": ...  # type: ignore[override]
    def __ne__(self, other: object) -> "Col": ...  # type: ignore[override]
    def __lt__(self, other: object) -> "Col": ...
    def __ge__(self, other: object) -> str: ...
    def __contains__(self, other: object) -> bool: ...
    def __add__(self, other: object) -> int: ...
    def __neg__(self) -> str: ...
    def __invert__(self) -> "Col": ...
    def __getitem__(self, i: int) -> float: ...
    def __call__(self) -> bytes: ...
    def __bool__(self) -> bool: ...
col = Col()


class C:
    attr_int: int = 1
    attr_any: Any = None
    cls_var: ClassVar[int] = 1
    def __init__(self) -> None:
        self.inst_str: str = ""
    @property
    def prop_str(self) -> str: ...
    def m_list(self) -> list[int]: ...
    @staticmethod
    def s_int() -> int: ...
    @classmethod
    def c_str(cls) -> str: ...
c = C()
'''

# operand forms: (expression, statement context with {P} for the probe statements)
OPERANDS = [
    # names of every declared type
    *[f"v_{n}" for n in ("bool", "int", "float", "complex", "str", "bytes", "bytearray", "list", "set", "frozenset", "dict", "tuple2", "tuplen", "path", "any",
                         "obj", "union", "opt", "lit", "final", "newtype", "intenum", "strenum", "mystr", "myint", "mylist", "mydict", "myset", "nt", "td", "alias",
                         "lalias", "callable", "pattern", "environ", "none", "type")],
    # literals and displays
    "1", "1.5", "2j", "''", "b''", "True", "None", "[1]", "{1}", "{1: 2}", "(1, 'a')", "()", "[]", "{}",
    # calls
    "f_int()", "f_str()", "f_list()", "f_any()", "f_opt()", "f_nt()", "f_untyped()", "generic(1)", "generic('')", "ov(1)", "ov('')", "C()", "MyStr()", "NT(1, '')",
    "int('1')", "str(1)", "list(v_set)", "len(v_list)", "v_str.upper()", "v_list.copy()", "v_dict.keys()", "v_dict.get('k')", "c.m_list()", "C.s_int()", "C.c_str()",
    "os.getcwd()", "undefined_function()", "(lambda: 1)()",
    # decorated callables: the name's type is what the decorators return, not what the def says
    "d_int_to_str()", "d_same_int()", "d_generic_int()", "d_untyped()", "d_factory()", "d_stack_bad()", "d_cached()", "d_lru()", "d_ctx()", "lam_int()", "part_int()",
    "deco.cp_int", "d_int_to_str", "d_same_int", "deco.m_changed()",
    # operators whose result type is decided by the operand's own methods (or is Any)
    "v_any == 1", "v_any < 1", "v_any != v_any", "v_int == v_any", "v_any in v_list", "v_int in v_any", "v_any is None", "not v_any", "-v_any", "v_any + 1", "v_any[0]",
    "v_pair", "v_triple", "v_vartuple", "Pair((1, 2))", "v_pair[0]", "v_pair + v_pair", "v_triple.first()", "col == 1", "col != col", "col < 1", "col >= 1", "1 in col", "col + 1", "-col", "~col", "col[0]", "col()", "not col", "col is None", "1 < v_int < 3", "v_int == 1 == v_any",
    # attributes
    "c.attr_int", "c.attr_any", "c.cls_var", "C.cls_var", "c.inst_str", "c.prop_str", "v_nt.a", "v_path.name", "os.sep", "IE.A", "c.missing",
    # operators and subscripts
    "v_int + 1", "v_int / 2", "v_str + ''", "-v_int", "not v_int", "v_int < 2", "v_int and v_str", "v_int or 0", "v_list[0]", "v_list[:]", "v_dict['k']", "v_tuple2[0]",
    "v_tuple2[1]", "v_str[0]", "v_int if v_bool else v_str", "v_int if v_bool else 2", "(w := v_int)", "cast(int, v_any)", "cast(str, v_int)", "v_list + v_list", "v_int ** 2",
    "v_int ** -1", "v_list * 2", "[i for i in v_list]", "v_str % 3", "f'{v_int}'",
    # generic functions: the type variable is solved from ALL the arguments that mention it (a join), positionally or by keyword
    "either(v_int, v_int)", "either(v_bool, v_int)", "either(v_int, v_bool)", "either(v_int, v_str)", "either(v_str, v_int)", "either(v_list, v_str)", "either(v_list, v_lstr)",
    "either(v_int, v_any)", "either(v_any, v_int)", "either(b=v_int, a=v_str)", "either(b=v_int, a=v_int)", "either(v_int, b=v_float)", "second(v_int, v_str)", "second(v_str, v_int)",
    "second(b=v_int, a=v_str)", "first_of(v_int)", "first_of(v_int, v_str)", "first_of(v_int, v_int, v_float)", "pick(v_list)", "pick(v_lstr)", "pick([v_int, v_str])",
    "kw_either(a=v_int, b=v_int)", "kw_either(b=v_int, a=v_str)", "box_int.get()", "box_int.put('')", "box_int.put(v_list)", "box_int.mix(v_int, v_bool)", "generic(v_list)", "generic(x=v_int)",
    "generic(generic(v_str))", "either(generic(v_int), v_str)",
    # attributes declared with a class type variable, read through instances of generic subclasses
    "slot_int.item", "slot_str.item", "slot_int.both", "lab_int.item", "lab_int.payload", "inv_int_str.key", "inv_int_str.value", "pass_int.item", "fixed_.item",
    "Slot[int]().item", "box_int.get", "slot_int.item + 1",
    # attributes read through the class object itself, declared in the class, inherited, and re-declared narrower in a subclass
    "Conf.verbose", "StrictConf.verbose", "DeepConf.verbose", "StrictConf().verbose", "DeepConf().verbose", "Conf.label", "StrictConf.label", "DeepConf.label", "DeepConf().label",
    "StrictConf.items_", "DeepConf.items_", "type(c).cls_var",
    # two branches / two operands of the same class that differ in their type arguments, or of related classes (mypy: a union or a join)
    "v_list if v_bool else v_lstr", "v_lstr if v_bool else v_list", "v_list if v_bool else v_list", "v_dict if v_bool else v_dint", "v_set if v_bool else v_sstr",
    "v_list or v_lstr", "v_list and v_lstr", "v_lstr or v_list", "v_int if v_bool else v_bool", "v_mylist if v_bool else v_list", "v_list if v_bool else v_mylist",
    "v_opt if v_bool else v_int", "v_str if v_bool else v_mystr", "v_tuple2 if v_bool else v_tuplen", "v_list if v_bool else f_any()", "v_dict or v_dint",
]

CONTEXTS = [
    ("plain", "{P}"),
    ("isinstance-int", "if isinstance(v_obj, int):\n    n1 = v_obj\n{P1}"),
    ("isinstance-bool", "if isinstance(v_int, bool):\n{P1}"),
    ("not-none", "if v_opt is not None:\n{P1}"),
    ("truthy", "if v_union:\n{P1}"),
    ("unreachable", "import sys\nif sys.version_info < (3, 0):\n{P1}"),
    ("function", "def fn(p_int: int, p_any, p_def=1, *args: int, **kw: str) -> None:\n{P1}"),
    ("redefinition", "def redef() -> None:\n    r = 1\n    r = ''\n{P1}"),
    ("loop", "for i_loop in v_list:\n{P1}"),
    ("with", "with open('f') as fh:\n{P1}"),
    ("except", "try:\n    pass\nexcept ValueError as exc:\n{P1}"),
    ("async", "async def afn() -> None:\n{P1}"),
    ("match", "match v_union:\n    case int() as m_int:\n{P2}"),
]
CONTEXT_OPERANDS = {
    "isinstance-int": ["v_obj", "n1"], "isinstance-bool": ["v_int"], "not-none": ["v_opt"], "truthy": ["v_union"], "unreachable": ["v_int", "v_str", "undefined_name"],
    "function": ["p_int", "p_any", "p_def", "args", "kw", "args[0]"], "redefinition": ["r"], "loop": ["i_loop"], "with": ["fh", "fh.read()"], "except": ["exc", "exc.args"],
    "async": ["await co_int()", "co_int()", "await co_str()", "await co_list()", "await aw_task", "await aw_task_str", "await aw_future", "await aw_awaitable",
              "await aw_coroutine", "await aw_fetch_str", "await aw_fetch_int", "await aw_job_str", "await aw_plain", "await aw_wrap_str", "await aw_subtask", "aw_task"], "match": ["m_int", "v_union"],
}


def translate(repo: Path) -> str:
    tree = ast.parse((repo / "refurb" / "checks" / "common.py").read_text("utf8"))
    simple = None
    for n in tree.body:
        if isinstance(n, ast.AnnAssign) and isinstance(n.target, ast.Name) and n.target.id == "SIMPLE_TYPES" and isinstance(n.value, ast.Dict):
            simple = [(k.value, ast.unparse(v)) for k, v in zip(n.value.keys, n.value.values)]
    if simple is None:
        raise TranslateError("SIMPLE_TYPES literal not found")
    fn = next((n for n in tree.body if isinstance(n, ast.FunctionDef) and n.name == "_is_same_type"), None)
    ref = '''
def _is_same_type(ty: Type | SymbolNode | None, expected: TypeLike) -> bool:
    if ty is expected is None:
        return True

    if isinstance(ty, TypeAliasType):
        if not ty.alias:
            return False  # pragma: no cover

        return _is_same_type(ty.alias.target, expected)

    if isinstance(ty, TupleType) and expected is tuple:
        # A named tuple is a TupleType as well, but `tuple(x)` is not redundant for it
        return ty.partial_fallback.type.fullname == "builtins.tuple"

    if isinstance(ty, AnyType) and expected is Any:
        return True

    if isinstance(ty, Instance | TypeInfo):
        str_type = ty.type.fullname if isinstance(ty, Instance) else ty.fullname

        if str_type in SIMPLE_TYPES and SIMPLE_TYPES[str_type] is expected:
            return True

        if isinstance(expected, str) and str_type == expected:
            return True

    return False
'''
    if fn is None or ast.dump(fn) != ast.dump(ast.parse(ref).body[0]):
        raise TranslateError("_is_same_type changed shape")

    def exp(v):
        return "EAny" if v == "Any" else "ENone" if v == "None" else f"(EType {S(v)})"
    # FURB123's table
    t2 = ast.parse((repo / "refurb" / "checks" / "readability" / "no_unnecessary_cast.py").read_text("utf8"))
    fm = None
    for n in t2.body:
        if isinstance(n, ast.Assign) and any(isinstance(t, ast.Name) and t.id == "FUNC_NAME_MAPPING" for t in n.targets) and isinstance(n.value, ast.Dict):
            fm = []
            for k, v in zip(n.value.keys, n.value.values):
                elts = v.elts[1:]
                fm.append((k.value, [f"(EName {S(e.value)})" if isinstance(e, ast.Constant) else f"(EType {S(ast.unparse(e))})" for e in elts]))
    if fm is None:
        raise TranslateError("FUNC_NAME_MAPPING not found")
    return ("From Lib Require Import Base Types.\nOpen Scope list_scope.\n"
            f"Definition simple_types : list (string * expected) := {coq.coq_list([f'({S(k)}, {exp(v)})' for k, v in simple])}.\n"
            f"Definition cast_table : list (string * list expected) := {coq.coq_list([f'({S(k)}, {coq.coq_list(es)})' for k, es in fm])}.\n")


def ser_type(t) -> str:
    """real mypy Type | SymbolNode | None -> Coq `option mty`"""
    import mypy.nodes as N
    import mypy.types as T

    def go(x, depth=0):
        if isinstance(x, T.TypeAliasType):
            return f"(TAlias {('(Some ' + go(x.alias.target, depth + 1) + ')') if x.alias and depth < 5 else 'None'})"
        if isinstance(x, T.TupleType):
            return "TTuple" if x.partial_fallback.type.fullname == "builtins.tuple" else f"(TOther {S('TupleType:' + x.partial_fallback.type.fullname)})"
        if isinstance(x, T.AnyType):
            return "TAny"
        if isinstance(x, T.Instance):
            return f"(TInst {S(x.type.fullname)})"
        if isinstance(x, N.TypeInfo):
            return f"(TInfo {S(x.fullname)})"
        return f"(TOther {S(type(x).__name__)})"
    return "None" if t is None else f"(Some {go(t)})"


def exact(ty, cast_name: str) -> tuple[bool, str]:
    """does mypy infer exactly the class `cast_name` (a builtin) for this expression?"""
    import mypy.types as T
    if ty is None:
        return False, "no inferred type"
    p = T.get_proper_type(ty)
    if isinstance(p, T.LiteralType):
        p = p.fallback
    if isinstance(p, T.Instance):
        if p.last_known_value is not None:
            pass
        ok = p.type.fullname == f"builtins.{cast_name}" or (cast_name == "dict" and p.type.fullname == "os._Environ")
        return ok, str(p)
    if isinstance(p, T.TupleType):
        fb = p.partial_fallback.type.fullname
        return cast_name == "tuple" and fb == "builtins.tuple", f"{p} (fallback {fb})"
    return False, f"{type(p).__name__}: {p}"


def run(ctx: Ctx) -> None:
    ctx.trusted_base += [
        "Coq 8.16.1 kernel",
        "tools/vf/props/c05.py translate(): SIMPLE_TYPES and FURB123's FUNC_NAME_MAPPING as literals; _is_same_type must have the recognised shape (fail-closed)",
        "Lib/Types.v: hand-written model of _is_same_type, tied by the correspondence below",
        "mypy's own type map (BuildResult.types) as the oracle of 'the type mypy infers'",
    ]
    ctx.assumptions += ["get_mypy_type (the resolution of an operand to a declared type) is not modelled in Coq; its agreement with mypy's inferred types is decided by execution over the operand universe (partial)"]
    ctx.rule("10 cast functions x ~150 operand forms (names of 37 declared types, literals, calls, attributes, operators, subscripts, await, lambda, walrus, cast, narrowing/unreachable/loop/with/except/match contexts); "
             "oracle = mypy's inferred type of the operand; non-trivial = operand typed by mypy; distinct by (cast, operand, context)")
    b = None
    try:
        gen = translate(REPO)
    except TranslateError as e:
        ctx.obligation("translate SIMPLE_TYPES / _is_same_type", False, str(e))
        gen = None
    if gen is not None:
        b = coq.compile_props(ctx, {"GenTypes": gen}, ["GenTypes", "C05"])
        coq.record_build(ctx, b)
    # ---- probes
    lines = [PRELUDE]
    probes = {}     # line -> (cast, operand, context)
    def emit(stmts, ctx_name, tpl):  # noqa: E306
        nonlocal lines
        body = []
        for cast_, op in stmts:
            body.append(f"_p = {cast_}({op})")
        ind1 = "\n".join("    " + s for s in body)
        ind2 = "\n".join("        " + s for s in body)
        text = tpl.replace("{P2}", ind2).replace("{P1}", ind1).replace("{P}", "\n".join(body))
        start = sum(l.count("\n") + 1 for l in lines) + 1
        for k, ln in enumerate(text.split("\n")):
            for cast_, op in stmts:
                if ln.strip() == f"_p = {cast_}({op})":
                    probes[start + k] = (cast_, op, ctx_name)
        lines.append(text)
    casts = CASTS if ctx.tier == "thorough" else CASTS
    emit([(c, op) for op in OPERANDS for c in casts], "plain", "{P}")
    for name, tpl in CONTEXTS[1:]:
        emit([(c, op) for op in CONTEXT_OPERANDS[name] for c in casts], name, tpl)
    src = "\n".join(lines) + "\n"
    td = Path(tempfile.mkdtemp(prefix="c05-"))
    try:
        f = td / "probes.py"
        f.write_text(src)
        import mypy.nodes as N
        import refurb.main as rmain
        from refurb.checks import common
        from refurb.error import ErrorCode
        from refurb.settings import Settings
        holder = {}
        orig_build = rmain.build

        def build2(*a, **k):
            k["options"].export_types = True      # keep mypy's expression -> type map (no other effect)
            holder["result"] = orig_build(*a, **k)
            return holder["result"]
        calls = {}
        orig_load = rmain.load_checks

        def load2(settings):
            found = orig_load(settings)

            def rec(node, errors):
                if isinstance(node.callee, N.NameExpr) and node.callee.name in CASTS and len(node.args) == 1 and node.line in probes:
                    if node.line not in calls or node.column < calls[node.line].column:     # the outermost call of the probe
                        calls[node.line] = node
            found[N.CallExpr].append(rec)
            return found
        rmain.build, rmain.load_checks = build2, load2
        try:
            out = rmain.run_refurb(Settings(files=[str(f)], quiet=True, disable_all=True, enable={ErrorCode(123)}))
        finally:
            rmain.build, rmain.load_checks = orig_build, orig_load
        strs = [e for e in out if isinstance(e, str)]
        if strs:
            ctx.obligation("probe file builds under mypy", False, strs[0][:300])
            return
        flagged = {e.line for e in out if e.code == 123}
        # refurb builds without export_types; with fine-grained mode on the module keeps its checker
        types = dict(holder["result"].types)
        for st in holder["result"].graph.values():
            if st.path == str(f):
                types.update(st.type_map())
        tie = []
        for line, (cast_, op, cname) in probes.items():
            node = calls.get(line)
            if node is None:
                continue
            arg = node.args[0]
            inferred = types.get(arg)
            ok, shown = exact(inferred, cast_)
            resolved = common.get_mypy_type(arg)
            ctx.case((cast_, op, cname), nontrivial=inferred is not None,
                     sample={"probe": f"{cast_}({op})", "context": cname, "flagged": line in flagged, "mypy": shown} if (line in flagged and ctx.rng.random() < 0.05) else None)
            ctx.count("flagged" if line in flagged else "not-flagged")
            ctx.count(f"ctx:{cname}")
            tie.append((resolved, cast_))
            if line in flagged and not ok:
                import mypy.types as MT
                pt = MT.get_proper_type(inferred) if inferred is not None else None
                is_enum = isinstance(pt, MT.Instance) and pt.type.is_enum
                kind = "enum-member" if is_enum else ("narrowing" if cname in ("isinstance-int", "isinstance-bool", "not-none", "truthy", "match", "redefinition") else
                        "unreachable" if cname == "unreachable" else "tuple-fallback" if cast_ == "tuple" and "fallback" in shown else "declared-vs-inferred")
                ctx.report(f"type-mismatch:{kind}" + (f":{cast_}" if kind == "declared-vs-inferred" else ""), f"`{cast_}({op})` ({cname}) is reported as a redundant cast, but mypy infers {shown} for the operand",
                           {"probe": f"{cast_}({op})", "context": cname, "mypy_inferred": shown, "resolved_by_refurb": str(resolved),
                            "how": "tools/vf/props/c05.py probe file; FURB123 at the probe line vs BuildResult.types[operand]"})
        # ---- correspondence of the Coq _is_same_type with the real one on the real resolved types
        if b is not None and b.ok:
            import typing
            expected_py = {"bool": bool, "bytes": bytes, "complex": complex, "dict": dict, "float": float, "int": int, "list": list, "set": set, "str": str, "tuple": tuple,
                           "frozenset": frozenset, "bytearray": bytearray}
            rows = []
            extra_expected = [("EAny", typing.Any), ("ENone", None), ('(EName "os._Environ")', "os._Environ"), ('(EName "pathlib.Path")', "pathlib.Path"), ('(EName "builtins.int")', "builtins.int")]
            seen = set()
            for resolved, _ in tie:
                key = ser_type(resolved)
                if key in seen:
                    continue
                seen.add(key)
                for nm, py in expected_py.items():
                    rows.append(f"({key}, (EType {S(nm)}), {coq.coq_bool(common._is_same_type(resolved, py))})")
                for ce, py in extra_expected:
                    rows.append(f"({key}, {ce}, {coq.coq_bool(common._is_same_type(resolved, py))})")
            hdr = "From Lib Require Import Base Types.\nFrom P Require Import GenTypes.\nOpen Scope list_scope.\nSet Printing Width 100000.\n"
            body = ("Definition cs : list (option mty * expected * bool) := [\n" + ";\n".join(rows) + "].\n"
                    "Eval vm_compute in (fix go i l := match l with [] => [] | (t, e, r) :: q => if Bool.eqb (same_type_opt simple_types t e) r then go (S i) q else i :: go (S i) q end) 0 cs.\n")
            (rc, o, e), = coq.eval_shards(ctx, "types", hdr, [body])
            vals = coq.parse_eval_values(o)
            ok = rc == 0 and vals and vals[0].startswith("[]")
            ctx.obligation("correspondence: Lib/Types.v same_type = refurb.checks.common._is_same_type on every distinct resolved type x 17 expected values",
                           bool(ok), (e or "")[-300:] + (vals[0][:200] if vals else ""))
            ctx.extra["tie_rows"] = len(rows)
    finally:
        shutil.rmtree(td, ignore_errors=True)
    ctx.resolve_broken({"same_type_exact": "type-mismatch:", "furb123_casts_are_builtin_classes": "type-mismatch:"}, b.first_error if b else "")
