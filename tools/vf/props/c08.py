"""C08 — `# noqa` suppresses exactly the named diagnostics on its own line."""
from __future__ import annotations

import tempfile
from pathlib import Path

from .. import coq
from ..core import Ctx

SEPS = ["\x0c", "\x0b", "\x1c", "\x1d", "\x1e", "\x85", "\u2028", "\u2029"]
CODES = ["FURB123", "FURB114", "FURB105", "FURB999", "ABC100", "XYZW123"]


def cps(s: str) -> str:
    return "[" + ";".join(str(ord(c)) for c in s) + "]%N"


def gen_line(rng) -> str:
    body = rng.choice(["x = int(0)", "y = not not x", "print('')", "s = 'it''s'", 's = "q"', "z = 1  # comment", "", "    pass",
                       "s = '# noqa'", 's = "# noqa: FURB123"', "t = '#'", "é = 1", "s = 'a\x0cb'", "s = 'a b'", "#", "x = 1 # noqa : FURB123"])
    r = rng.random()
    if r < 0.35:
        return body
    sp = rng.choice(["  ", " ", "", "\t"])
    kind = rng.random()
    if kind < 0.25:
        c = "# noqa"
    elif kind < 0.85:
        n = rng.choice([1, 1, 2, 3])
        sep = rng.choice([", ", ",", " ", "  ", ", ,"])
        c = "# noqa: " + sep.join(rng.choice(CODES) for _ in range(n))
        if rng.random() < 0.15:
            c += rng.choice([" because reasons", " # another", " 'quoted'", ' "dq"', "  "])
    else:
        c = rng.choice(["#noqa", "# NOQA", "# noqa:FURB123", "# noqa: ", "# noqa:", "# noqa FURB123", "# type: ignore  # noqa", "# noqa # noqa: FURB114",
                        "# noqa: FURB123 # noqa", "# noqa: E501  # noqa", "# noqa  # type: ignore", "# noqa: E501 # noqa: FURB123", "# noqa  # noqa: E501",
                        "# noqa: E501  # noqa: ABC100, FURB114  # why"])
    tail = rng.choice(["", "", " ", "\t", "\x0c"]) if rng.random() < 0.3 else ""
    return body + sp + c + tail


def gen_content(rng) -> tuple[str, list[str]]:
    n = rng.randrange(1, 7)
    lines = [gen_line(rng) for _ in range(n)]
    nl = rng.choice(["\n", "\n", "\n", "\r\n", "\r"])
    content = nl.join(lines) + (nl if rng.random() < 0.8 else "")
    if rng.random() < 0.1:
        content = "\ufeff" + content
    return content, lines


def run(ctx: Ctx) -> None:
    ctx.trusted_base += [
        "Coq 8.16.1 kernel",
        "Lib/Noqa.v: hand-written model of get_source_lines / is_ignored_via_comment (leftmost search for a hash-noqa with no quote after it, every comment from there on); tied by the correspondence below",
        "Python's definition of a physical line: LF, CRLF, CR only (language reference 2.1.2)",
    ]
    ctx.rule("generated files (1-6 lines; bodies with quotes, '#', earlier `# noqa` text, non-ASCII, FF/VT/FS/GS/RS/NEL/LS/PS inside literals; all comment styles; LF/CRLF/CR; BOM) "
             "x every line x 3 codes; metamorphic runs through run_refurb; non-trivial = line carries a comment or the file an exotic separator; distinct by (content, line, code)")
    b = coq.compile_props(ctx, {}, ["C08"])
    coq.record_build(ctx, b)
    import refurb.main as rmain
    from refurb.error import Error
    rng = ctx.rng
    classes = {}
    for code in CODES:
        prefix, num = code[:-3], int(code[-3:])
        classes[code] = type("ErrorInfo", (Error,), {"prefix": prefix, "code": num, "categories": ()})
    cases = []
    with tempfile.TemporaryDirectory(prefix="c08-") as td:
        for i in range(ctx.budget(500, 12000)):
            content, lines = gen_content(rng)
            p = Path(td) / f"f{i}.py"
            p.write_bytes(content.encode("utf8"))
            # Python's physical lines of the decoded text
            phys = content.lstrip("\ufeff").replace("\r\n", "\n").replace("\r", "\n").split("\n")
            nlines = len(phys) - 1 if phys[-1] == "" and len(phys) > 1 else len(phys)   # no line after a final newline
            for ln in range(1, nlines + 1):
                for code in rng.sample(CODES, 2):
                    err = classes[code](line=ln, column=0, msg="m", filename=str(p))
                    if rng.random() < 0.5:           # where the node ends is no part of the rule
                        err.line_end = rng.randrange(1, nlines + 1)
                        err.column_end = rng.randrange(0, 5)
                    rmain.get_source_lines.cache_clear()
                    try:
                        real = bool(rmain.is_ignored_via_comment(err))
                    except Exception as ex:  # noqa: BLE001
                        real = type(ex).__name__
                    # oracle: the property's reading of the physical line
                    want = oracle(phys[ln - 1], code)
                    exotic = any(s in content for s in SEPS)
                    ctx.case((content, ln, code), nontrivial="noqa" in phys[ln - 1] or exotic,
                             sample={"line": phys[ln - 1], "code": code, "ignored": real} if rng.random() < 0.002 else None)
                    ctx.count("exotic-separator" if exotic else "plain")
                    cases.append((content, ln, code, real))
                    if real != want:
                        kind = "wrong-line" if exotic and not isinstance(real, str) else "crash" if isinstance(real, str) else "wrong-verdict"
                        ctx.report(f"noqa:{kind}", f"line {ln} {phys[ln - 1]!r} code {code}: suppressed={real}, by the documented rule {want}",
                                   {"content": content, "line": ln, "code": code, "real": real, "expected": want})
    if b.ok:
        hdr = ("From Lib Require Import Base Noqa.\nOpen Scope list_scope.\nSet Printing Width 100000.\n"
               "Definition chk (c : text * nat * text * option bool) : bool := let '(s, l, code, r) := c in\n"
               "  match ignored_via_comment s l code, r with Some a, Some b => Bool.eqb a b | None, None => true | _, _ => false end.\n")
        shards = []
        per = 400
        for i in range(0, len(cases), per):
            rows = []
            for content, ln, code, real in cases[i:i + per]:
                r = "None" if isinstance(real, str) else f"(Some {coq.coq_bool(real)})"
                rows.append(f"({cps(content.lstrip(chr(0xfeff)))}, {ln}, {cps(code)}, {r})")
            shards.append("Definition cs := [\n" + ";\n".join(rows) + "].\n"
                          "Eval vm_compute in (fix go i l := match l with [] => [] | c :: t => if chk c then go (S i) t else i :: go (S i) t end) 0 cs.\n")
        res = coq.eval_shards(ctx, "noqa", hdr, shards, timeout=900)
        mism = []
        for si, (rc, out, err) in enumerate(res):
            vals = coq.parse_eval_values(out)
            if rc != 0 or not vals:
                mism.append(f"shard {si}: coqc failed: {err[-300:]}")
                continue
            for j in [int(x) for x in vals[0].strip("[]").split(";") if x.strip()][:3]:
                c = cases[si * per + j]
                mism.append(f"{c[0]!r} line {c[1]} code {c[2]} -> real {c[3]}")
        ctx.obligation("correspondence: Lib/Noqa.v ignored_via_comment = refurb.main.is_ignored_via_comment on every (file, line, code)",
                       not mism, "; ".join(mism[:4]))
        ctx.extra["tie_cases"] = len(cases)
    metamorphic(ctx)
    ctx.resolve_broken({}, b.first_error)


def oracle(line: str, code: str) -> bool:
    """The property's reading of one physical line.  The comment text starts at the first
    `# noqa` that no quote follows; it may hold several `#` comments; a bare `noqa` comment
    suppresses everything, `noqa: A, B` (comma/space separated) the listed codes, and every
    other comment nothing."""
    s = line.rstrip()
    i = s.find("# noqa")
    while i >= 0 and ("'" in s[i:] or '"' in s[i:]):
        i = s.find("# noqa", i + 1)
    if i < 0:
        return False
    for part in s[i:].split("#"):
        part = part.strip()
        if part == "noqa":
            return True
        if part.startswith("noqa: ") and code in part[len("noqa: "):].replace(",", " ").split(" "):
            return True
    return False


def metamorphic(ctx: Ctx) -> None:
    """Lint P; append comments to a subset of diagnosed lines; the output must be the
    original minus exactly the named (line, code) pairs."""
    from refurb.main import run_refurb
    from refurb.settings import Settings
    rng = ctx.rng
    stmts = ["a{i} = int(0)", "b{i} = not not a0", "print('')", "c{i} = str('') and not not a0", "d{i} = 1",
             "k{i} = int(0)  # noqa: E501", "l{i} = not not a0  # an ordinary comment", "m{i} = str('#') and not not a0", "n{i} = int(0)  # noqa: FURB999, E501",
             "o{i} = int(0)  # type: ignore[misc]", "p{i} = str('# noqa: E501') and int(0)",
             "e{i} = int(\n    0\n)", "f{i} = [\n    not not a0,\n    int(0),\n]", "for g{i} in (1,):\n    print('')", "h{i} = (a0\n    if a0 else 2)"]
    # indented blocks, with diagnostics of checks that look at a whole block (consecutive appends, a swap through a temporary) beside
    # diagnostics of single expressions: a comment on one line of a block acts on that line alone
    stmts += ["def fn{i}(xs: list[int]) -> None:\n    y{i} = int(0)\n    xs.append(1)\n    xs.append(2)\n    z{i} = not not y{i}",
              "if a0:\n    t{i} = int(0)\n    u{i} = [a0]\n    u{i}.append(1)\n    u{i}.append(2)",
              "class K{i}:\n    w{i} = str('')\n    def m(self, xs: list[int]) -> None:\n        v = int(0)\n        xs.append(v)\n        xs.append(v)",
              "for q{i} in (1,):\n    r{i} = int(0)\n    tmp{i} = a0\n    a0 = r{i}\n    r{i} = tmp{i}",
              "while a0:\n    a0 = int(0)\n    ws{i} = [1]\n    ws{i}.append(2)\n    ws{i}.append(3)\n    break"]
    # expressions wrapped over several lines whose closing line is longer than the opening one, and lines with multi-byte text before the comment
    stmts += ["v{i} = list(\n    [1, 2, 3, 4, 5, 6, 7, 8, 9, 10, 11, 12, 13, 14, 15, 16, 17, 18, 19, 20, 21, 22, 23, 24, 25])",
              "w{i} = str(\n    '' '' '' '' '' '' '' '' '' '' '' '' '' '' '' '' '' '' '' '' '' '' '' '' '')",
              "t{i} = str('\u65e5\u672c\u8a9e\u306e\u30bf\u30a4\u30c8\u30eb\u65e5\u672c\u8a9e\u306e\u30bf\u30a4\u30c8\u30eb')", "u{i} = int(0) if '\u00e9\u00e9\u00e9\u00e9\u00e9\u00e9\u00e9\u00e9' else 1"]
    specials = ["s{i} = 'x\x0cy'", "s{i} = 'x\x0by'", "s{i} = 'x\x1cy'", "s{i} = 'x y'", "s{i} = 'x\x85y'", "# comment \x0c here", "s{i} = '''a\nb'''"]
    with tempfile.TemporaryDirectory(prefix="c08m-") as td:
        # systematically: a program made of every block unit; a blanket comment on each of its lines in turn
        import io as _io0
        import tokenize as _tk0
        blocks = [u.replace("{i}", str(k)) for k, u in enumerate(stmts) if "\n    " in u and not u.startswith(("e{i}", "f{i}", "h{i}", "v{i}", "w{i}"))]
        wrapped = [u.replace("{i}", str(k)) for k, u in enumerate(stmts) if u.startswith(("e{i}", "f{i}", "h{i}", "v{i}", "w{i}", "t{i}", "u{i}"))]
        for pname, units, comment in (("blocks", blocks, "  # noqa"), ("wrapped", wrapped, "  # noqa"), ("wrapped-listed", wrapped, None)):
          phys0 = ("a0 = 1\n" + "\n".join(units)).split("\n")
          base0 = Path(td) / f"{pname}_base.py"
          base0.write_text("\n".join(phys0) + "\n")
          diag0 = {(e.line, f"{e.prefix}{e.code}") for e in run_refurb(Settings(files=[str(base0)], quiet=True)) if not isinstance(e, str)}
          ctx.count(f"{pname}-program-diagnostics", len(diag0))
          for ln in range(1, len(phys0) + 1):
            cand = list(phys0)
            here0 = sorted(c for l2, c in diag0 if l2 == ln)
            if comment is None and not here0:
                continue
            cand[ln - 1] += comment if comment is not None else "  # noqa: " + ", ".join(here0)
            try:
                toks = list(_tk0.generate_tokens(_io0.StringIO("\n".join(cand) + "\n").readline))
            except (_tk0.TokenError, SyntaxError, IndentationError):
                continue
            if not any(t_.type == _tk0.COMMENT and t_.start[0] == ln for t_ in toks):
                continue
            f0 = Path(td) / f"{pname}_{ln}.py"
            f0.write_text("\n".join(cand) + "\n")
            got0 = {(e.line, f"{e.prefix}{e.code}") for e in run_refurb(Settings(files=[str(f0)], quiet=True)) if not isinstance(e, str)}
            want0 = {(l2, c) for l2, c in diag0 if l2 != ln}
            ctx.case((pname + "-line", ln), nontrivial=True)
            ctx.count("blanket-comment-on-each-line-of-the-block-program")
            if got0 != want0:
                ctx.report("noqa:metamorphic:other-line-affected" if any(l2 != ln for l2, _ in want0 - got0) else "noqa:metamorphic:any-line",
                           f"`{cand[ln - 1].strip()[-40:]}` on line {ln} of the {pname} program (`{phys0[ln - 1].strip()[:50]}`): the report lost {sorted(want0 - got0)} and kept {sorted(got0 - want0)} unexpectedly",
                           {"program": "\n".join(cand) + "\n", "comment_on_line": ln, "expected": sorted(want0), "got": sorted(got0), "without_the_comment": sorted(diag0)})
        for t in range(ctx.budget(8, 150)):
            lines = ["a0 = 1"]
            for i in range(1, rng.randrange(4, 10)):
                lines.append(rng.choice(stmts + (specials if rng.random() < 0.5 else [])).replace("{i}", str(i)))
            nl = rng.choice(["\n", "\n", "\r\n"])
            bom = "\ufeff" if rng.random() < 0.15 else ""
            base = Path(td) / f"m{t}_base.py"
            base.write_bytes((bom + nl.join(lines) + nl).encode("utf8"))
            out0 = [e for e in run_refurb(Settings(files=[str(base)], quiet=True)) if not isinstance(e, str)]
            diag = {(e.line, f"{e.prefix}{e.code}") for e in out0}
            if not diag:
                continue
            # logical line -> index in `lines` (a triple-quoted literal spans two physical lines)
            phys_to_idx, pl = {}, 1
            for idx, l in enumerate(lines):
                phys_to_idx[pl] = idx
                pl += 1 + l.count("\n")
            # logical statements with a diagnostic on any of their lines; the comment is appended to the
            # statement, i.e. lands on its LAST physical line, and acts on that line alone
            starts = sorted(phys_to_idx)
            touched = sorted({max(st for st in starts if st <= ln) for ln, _ in diag})
            chosen = rng.sample(touched, rng.randrange(1, len(touched) + 1))
            new = list(lines)
            expect = set(diag)
            for st in chosen:
                idx = phys_to_idx[st]
                ln = st + lines[idx].count("\n")
                codes_here = sorted(c for l2, c in diag if l2 == ln)
                if not codes_here:                   # decoy: the comment's line has no diagnostic of its own
                    decoy = sorted(c for l2, c in diag if st <= l2 <= ln)
                    new[idx] += rng.choice(["  # noqa", "  # noqa: " + ", ".join(decoy)])
                    ctx.count("metamorphic-comment-on-other-line-of-the-node")
                    continue
                style = rng.random()
                if style < 0.3:
                    new[idx] += "  # noqa"
                    expect -= {(ln, c) for c in codes_here}
                elif style < 0.7:
                    pick = rng.sample(codes_here, rng.randrange(1, len(codes_here) + 1))
                    new[idx] += "  # noqa: " + rng.choice([", ", " "]).join(pick)
                    expect -= {(ln, c) for c in pick}
                elif style < 0.85:
                    new[idx] += "  # noqa: FURB999, ABC100"
                else:
                    pick = [codes_here[0], "FURB999"]
                    new[idx] += "  # noqa: " + ",".join(pick)
                    expect -= {(ln, codes_here[0])}
            # the same on ANY physical line (also lines without a diagnostic, first lines of blocks, lines inside a block):
            # a comment that really is a comment there takes away what is reported for that line and nothing else
            import io as _io
            import tokenize as _tk
            phys = "\n".join(lines).split("\n")
            for ln in rng.sample(range(1, len(phys) + 1), min(len(phys), rng.choice([1, 2]))):
                codes_here = sorted(c for l2, c in diag if l2 == ln)
                style = rng.random()
                listed = rng.sample(codes_here, rng.randrange(1, len(codes_here) + 1)) if codes_here and style >= 0.5 else None
                cand = list(phys)
                cand[ln - 1] += "  # noqa" + ("" if listed is None else ": " + ", ".join(listed))
                try:
                    toks = list(_tk.generate_tokens(_io.StringIO("\n".join(cand) + "\n").readline))
                except (_tk.TokenError, SyntaxError, IndentationError):
                    continue
                if not any(t_.type == _tk.COMMENT and t_.start[0] == ln and "noqa" in t_.string for t_ in toks) or any(s_ in cand[ln - 1] for s_ in SEPS):
                    continue                      # inside a string literal, or a line the tokenizer splits differently
                f2 = Path(td) / f"m{t}_line{ln}.py"
                f2.write_bytes((bom + nl.join(cand) + nl).encode("utf8"))
                got2 = {(e.line, f"{e.prefix}{e.code}") for e in run_refurb(Settings(files=[str(f2)], quiet=True)) if not isinstance(e, str)}
                want2 = {(l2, c) for l2, c in diag if not (l2 == ln and (listed is None or c in listed))}
                ctx.case(("meta-line", "\n".join(cand)), nontrivial=True)
                ctx.count("metamorphic-any-line" + ("" if codes_here else ":line-without-diagnostic"))
                if got2 != want2:
                    ctx.report("noqa:metamorphic:other-line-affected" if (want2 - got2) and any(l2 != ln for l2, _ in want2 - got2) else "noqa:metamorphic:any-line",
                               f"`{cand[ln - 1].strip()[:60]}` on line {ln}: the report lost {sorted(want2 - got2)} and kept {sorted(got2 - want2)} unexpectedly",
                               {"program": (bom + nl.join(cand) + nl), "comment_on_line": ln, "expected": sorted(want2), "got": sorted(got2), "without_the_comment": sorted(diag)})
            f = Path(td) / f"m{t}.py"
            f.write_bytes((bom + nl.join(new) + nl).encode("utf8"))
            out1 = run_refurb(Settings(files=[str(f)], quiet=True))
            got = {(e.line, f"{e.prefix}{e.code}") for e in out1 if not isinstance(e, str)}
            exotic = any(s in "".join(lines) for s in SEPS)
            ctx.case(("meta", "\n".join(new)), nontrivial=True, sample={"program": new, "remaining": sorted(got)} if t < 2 else None)
            ctx.count("metamorphic-exotic" if exotic else "metamorphic")
            if got != expect:
                ctx.report("noqa:metamorphic" + (":exotic-separator" if exotic else ""),
                           f"after adding noqa comments the report lost {sorted(expect - got)} and kept {sorted(got - expect)} unexpectedly",
                           {"program": (bom + nl.join(new) + nl), "expected": sorted(expect), "got": sorted(got)})
