"""C04 — each occurrence is diagnosed exactly once, wherever it is nested."""
from __future__ import annotations

import glob
from collections import Counter
from pathlib import Path

from .. import coq
from ..core import REPO, VERIF, Ctx
from ..translate.catalogue import TranslateError
from ..translate.visitor_model import VisitorModel
from ..harness import trees as T


def corpus(ctx: Ctx) -> list[str]:
    files = [str(VERIF / "corpus" / "C04" / "kitchen.py")]
    data = sorted(glob.glob(str(REPO / "test" / "data" / "err_*.py")))
    ctx.rng.shuffle(data)
    files += data[: ctx.budget(6, 60)]
    return files


def translate(ctx: Ctx):
    try:
        vm = VisitorModel(REPO)
        return vm, vm.emit()
    except TranslateError as e:
        ctx.obligation("translate visitor (traverser.py, visitor.py, mapping.py, mypy sources)", False, str(e))
        return None, None


def tie_and_search(ctx: Ctx, vm: VisitorModel | None, built: bool) -> None:
    files = corpus(ctx)
    out, trees, calls = T.record_visits(files)
    strs = [e for e in out if isinstance(e, str)]
    if strs and not trees:
        ctx.obligation("corpus builds under mypy", False, strs[0])
        return
    # ---- search oracle on the real code: every syntactic node handed to its
    # subscribers exactly once
    per_node = Counter()
    by_id = {}
    for ty, node in calls:
        per_node[(ty, id(node))] += 1
        by_id[id(node)] = node
    import mypy.nodes as N
    oracle = vm
    if oracle is None:
        from ..translate.visitor_model import SpecModel
        oracle = SpecModel()               # refurb's side did not translate: mypy's side alone still says what the nodes are
    for tree in trees:
        ref = T.mypy_reference_nodes(tree, oracle)
        ref_ids = Counter(id(n) for n in ref)
        for n in ref:
            by_id[id(n)] = n
        ctx.count("trees")
        ctx.count("reference-nodes", len(ref))
        for n in ref:
            cls = type(n).__name__
            want = [cls] + (["FuncItem"] if isinstance(n, N.FuncItem) else [])
            for ty in want:
                got = per_node.get((ty, id(n)), 0)
                ctx.case((tree.path, ty, n.line, n.column, cls), sample=None)
                if got != 1 and ref_ids[id(n)] == 1:
                    parent = ""
                    key = f"visits:{cls}:{'never' if got == 0 else 'x%d' % got}"
                    ctx.report(key, f"{cls} at {tree.path}:{n.line}:{n.column} is handed to a {ty} subscriber {got} times",
                               {"file": tree.path, "line": n.line, "column": n.column, "class": cls, "times": got,
                                "how": "RefurbVisitor with a recorder subscribed to every node type (tools/vf/harness/trees.py)"})
    # the alias assumptions of the model (ALIAS_FIELDS) hold on the real trees
    alias_bad = []
    seen_alias = 0
    for ty, node in calls:
        if ty == "IndexExpr" and isinstance(getattr(node, "analyzed", None), N.TypeApplication):
            seen_alias += 1
            if node.analyzed.expr is not node.base:
                alias_bad.append(f"TypeApplication.expr is not IndexExpr.base at {node.line}")
        if ty == "ClassDef" and node.metaclass is not None:
            seen_alias += 1
            if node.keywords.get("metaclass") is not node.metaclass:
                alias_bad.append(f"ClassDef.metaclass is not keywords['metaclass'] at {node.line}")
    ctx.obligation("model assumption: TypeApplication.expr / ClassDef.metaclass alias an already-visited child (identity on real trees)",
                   not alias_bad and seen_alias > 0, "; ".join(alias_bad[:3]) or f"{seen_alias} alias sites seen")
    ctx.samples.append({"files": [Path(f).name for f in files[:4]], "calls": len(calls)})
    # ---- tie: the Coq model's traversal of the serialised tree = the real visitor
    if vm is None or not built:
        return
    shards, meta = [], []
    for tree in trees:
        ser = T.Serializer(vm)
        term = ser.term(tree)
        if ser.unknown:
            ctx.obligation(f"serialise {Path(tree.path).name}", False, f"classes outside the kind table: {dict(ser.unknown)}")
            continue
        shards.append(f"Definition t := {term}.\nEval vm_compute in visit_counts t.\n")
        meta.append((tree, ser))
    hdr = ("From Lib Require Import Base Tree.\nFrom P Require Import GenVisitor C04.\nOpen Scope list_scope.\n"
           "Set Printing Width 1000000.\nSet Printing Depth 1000000.\n"
           "Definition step_eqb (a b : nat * nat) := Nat.eqb (fst a) (fst b) && Nat.eqb (snd a) (snd b).\n"
           "Definition kq_eqb (a b : nat * path) := Nat.eqb (fst a) (fst b) && list_eqb step_eqb (snd a) (snd b).\n"
           "Definition visit_counts (t : node) : option (list nat) :=\n"
           "  match visit (depth t) reg sched [] t with\n"
           "  | inr l => Some (map (fun kq => List.length (filter (kq_eqb kq) l)) (nodes [] t))\n"
           "  | inl _ => None end.\n")
    res = coq.eval_shards(ctx, "trees", hdr, shards, timeout=900)
    mism = []
    for (rc, outp, err), (tree, ser) in zip(res, meta):
        vals = coq.parse_eval_values(outp)
        if rc != 0 or not vals or not vals[0].startswith("Some"):
            mism.append(f"{Path(tree.path).name}: model traversal failed: {(vals[0] if vals else err)[-200:]}")
            continue
        counts = [int(x) for x in vals[0][len("Some ["):].rstrip("]").split(";") if x.strip()]
        if len(counts) != len(ser.order):
            mism.append(f"{Path(tree.path).name}: {len(counts)} model nodes vs {len(ser.order)} serialised")
            continue
        model = Counter()
        for n, c in zip(ser.order, counts):
            model[id(n)] += c
        real = Counter()
        for ty, node in calls:
            if ty == type(node).__name__:
                real[id(node)] += 1
        ids = {id(n) for n in ser.order}
        bad = [i for i in ids if model[i] != real.get(i, 0)]
        ctx.count("tie-nodes", len(ids))
        if bad:
            n = by_id.get(bad[0]) or next(x for x in ser.order if id(x) == bad[0])
            mism.append(f"{Path(tree.path).name}: {type(n).__name__}@{n.line}:{n.column} model {model[bad[0]]} vs real {real.get(bad[0], 0)} visits ({len(bad)} nodes differ)")
    ctx.obligation("correspondence: Coq visit over serialised real trees = real RefurbVisitor call counts per node",
                   not mism, "; ".join(mism[:5]))
    ctx.extra["tie_trees"] = len(meta)


def run(ctx: Ctx) -> None:
    ctx.trusted_base += [
        "Coq 8.16.1 kernel + vm_compute",
        "tools/vf/translate/schedule.py + visitor_model.py (fail-closed translation of visit_* bodies, accept registry, METHOD_NODE_MAPPINGS, build_visitor shape)",
        "mypy's own TraverserVisitor (installed sources) as the definition of a node's syntactic children; `analyzed` fields are derived nodes",
        "tools/vf/harness/trees.py serialiser (real mypy tree -> Lib/Tree.v term)",
    ]
    ctx.rule("theorems: all trees; execution: every reference node of each corpus tree x its subscriber types; non-trivial = node reached by mypy's traverser; distinct by (file, type, line, col, class)")
    vm, gen = translate(ctx)
    built = False
    b = None
    if gen is not None:
        b = coq.compile_props(ctx, {"GenVisitor": gen}, ["GenVisitor", "C04", "C04Derived"])
        coq.record_build(ctx, b)
        built = b.files.get("C04", {}).get("rc") == 0
    tie_and_search(ctx, vm, built)
    from . import c04_contexts
    c04_contexts.run(ctx)
    identical_twins(ctx)
    ctx.resolve_broken({"derived_nodes_are_leaves": "visits:", "schedules_are_permutations": "visits:",
                        "every_node_once": "visits:", "spec_children_covered": "visits:",
                        "every_check_once": "visits:", "subscription_exact": "visits:",
                        "translate visitor (traverser.py, visitor.py, mapping.py, mypy sources)": ("visits:", "context:")},
                       b.first_error if b else "")


def identical_twins(ctx: Ctx) -> None:
    """"Once and only once": no run reports the very same diagnostic (file, line, column, code, message) twice.  Looked for on the
    repository's test data and on the committed corpora, which include every way a callee's signature is found (corpus/C10/callables.py)."""
    import glob
    from collections import Counter

    from refurb.main import run_refurb
    from refurb.settings import Settings
    from ..core import VERIF
    files = sorted(glob.glob(str(REPO / "test" / "data" / "*.py"))) + [str(VERIF / "corpus" / p) for p in
                                                                        ("C10/callables.py", "C04/kitchen.py", "C07/layouts.py", "C10/nested.py", "C10/same_names.py")]
    out = run_refurb(Settings(files=files, enable_all=True, quiet=True))
    seen = Counter((e.filename, e.line, e.column, f"{e.prefix}{e.code}", e.msg) for e in out if not isinstance(e, str))
    ctx.count("diagnostics-looked-at-for-identical-twins", sum(seen.values()))
    for (fn, ln, col, code, msg), n in sorted(seen.items()):
        ctx.case(("twin", Path(fn).name, ln, col, code), nontrivial=n > 1)
        if n > 1:
            text = Path(fn).read_text().split("\n")[ln - 1].strip()
            ctx.report(f"twice:{code}:{Path(fn).name}:{text[:40]}", f"{code} is reported {n} times for the same place {Path(fn).name}:{ln}:{col + 1} (`{text[:60]}`): {msg[:80]}",
                       {"file": fn, "line": ln, "column0": col, "code": code, "message": msg, "times": n, "source_line": text, "cmd": f"refurb --enable-all {fn}"})
