"""C03 — every input program gets a clean verdict; refurb never crashes."""
from __future__ import annotations

import ast
import glob
import os
import shutil
import sysconfig
import tempfile
from pathlib import Path

from .. import coq
from ..core import REPO, VERIF, Ctx
from ..harness import lint as L
from .c04 import translate


# ---------------------------------------------------------------- near-miss mutation
class Mutator(ast.NodeTransformer):
    """One structural edit per call site, chosen by the rng: arity changes, star-args,
    keywords, missing optional parts – the shapes a matcher's destructuring may not expect."""

    def __init__(self, rng, rate=0.35):
        self.rng, self.rate = rng, rate

    def visit_Call(self, n):
        self.generic_visit(n)
        if self.rng.random() > self.rate:
            return n
        k = self.rng.randrange(8)
        if k == 0:
            n.args = []
        elif k == 1 and n.args:
            n.args = n.args[:-1]
        elif k == 2:
            n.args = [ast.Starred(value=ast.Name(id="ARGS", ctx=ast.Load()), ctx=ast.Load())]
        elif k == 3:
            n.keywords = n.keywords + [ast.keyword(arg=None, value=ast.Name(id="KW", ctx=ast.Load()))]
        elif k == 4:
            n.args = n.args + [ast.Constant(value=None)]
        elif k == 5 and n.args:
            n.keywords = [ast.keyword(arg="kw", value=n.args[-1])] + n.keywords
            n.args = n.args[:-1]
        elif k == 6 and n.keywords:
            n.keywords = n.keywords[:-1]
        elif k == 7 and n.args:
            n.args = [ast.Starred(value=a, ctx=ast.Load()) if i == 0 else a for i, a in enumerate(n.args)]
        return n

    STATIC = ["sys.platform == 'linux'", "sys.platform == 'win32'", "sys.version_info >= (3, 9)", "sys.version_info < (3, 0)", "TYPE_CHECKING", "not TYPE_CHECKING", "True", "False"]

    def visit_If(self, n):
        """Branch shapes mypy resolves statically: the dead part becomes unreachable / an empty else."""
        self.generic_visit(n)
        if self.rng.random() > self.rate:
            return n
        static = ast.parse(self.rng.choice(self.STATIC), mode="eval").body
        k = self.rng.randrange(5)
        if k == 0:
            n.test = static
        elif k == 1:                       # elif <static> without else
            n.orelse = [ast.If(test=static, body=n.orelse or [ast.Pass()], orelse=[])]
        elif k == 2:                       # the whole statement inside the else part of another if
            return ast.If(test=ast.Name(id="ARGS", ctx=ast.Load()), body=[ast.Pass()], orelse=[ast.If(test=static, body=[n], orelse=[])])
        elif k == 3:
            n.orelse = []
        else:                              # static guard in front, original as elif
            return ast.If(test=static, body=[ast.Pass()], orelse=[n])
        return n

    def visit_Slice(self, n):
        self.generic_visit(n)
        if self.rng.random() < self.rate:
            k = self.rng.randrange(3)
            if k == 0:
                n.lower = None
            elif k == 1:
                n.upper = None
            else:
                n.step = ast.Constant(value=1)
        return n

    def visit_Compare(self, n):
        self.generic_visit(n)
        if self.rng.random() < self.rate and len(n.ops) == 1:
            n.ops = n.ops + [ast.Eq()]
            n.comparators = n.comparators + [ast.Constant(value=None)]
        return n

    def visit_With(self, n):
        self.generic_visit(n)
        if self.rng.random() < self.rate:
            for it in n.items:
                it.optional_vars = None
        return n

    def visit_Lambda(self, n):
        self.generic_visit(n)
        if self.rng.random() < self.rate:
            n.args.vararg = ast.arg(arg="va")
        return n

    def visit_Return(self, n):
        self.generic_visit(n)
        if self.rng.random() < self.rate / 2:
            n.value = None
        return n

    def visit_Assign(self, n):
        """Targets other than one plain name: subscript, attribute, tuple, chain, starred."""
        self.generic_visit(n)
        if self.rng.random() > self.rate or len(n.targets) != 1 or not isinstance(n.targets[0], ast.Name):
            return n
        k = self.rng.randrange(5)
        name = n.targets[0]
        if k == 0:
            n.targets = [ast.Subscript(value=ast.Name(id="KW", ctx=ast.Load()), slice=ast.Constant(value=name.id), ctx=ast.Store())]
        elif k == 1:
            n.targets = [ast.Attribute(value=ast.Name(id="OBJ", ctx=ast.Load()), attr=name.id, ctx=ast.Store())]
        elif k == 2:
            n.targets = [ast.Tuple(elts=[name, ast.Name(id=name.id + "_2", ctx=ast.Store())], ctx=ast.Store())]
            n.value = ast.Tuple(elts=[n.value, ast.Constant(value=0)], ctx=ast.Load())
        elif k == 3:
            n.targets = [name, ast.Name(id=name.id + "_2", ctx=ast.Store())]
        else:
            n.targets = [ast.List(elts=[ast.Starred(value=name, ctx=ast.Store())], ctx=ast.Store())]
            n.value = ast.List(elts=[n.value], ctx=ast.Load())
        return n

    def visit_For(self, n):
        """Loop targets other than one plain name."""
        self.generic_visit(n)
        if self.rng.random() > self.rate or not isinstance(n.target, ast.Name):
            return n
        k = self.rng.randrange(3)
        if k == 0:
            n.target = ast.Tuple(elts=[n.target, ast.Name(id=n.target.id + "_2", ctx=ast.Store())], ctx=ast.Store())
        elif k == 1:
            n.target = ast.Subscript(value=ast.Name(id="KW", ctx=ast.Load()), slice=ast.Constant(value="k"), ctx=ast.Store())
        else:
            n.target = ast.Attribute(value=ast.Name(id="OBJ", ctx=ast.Load()), attr="item", ctx=ast.Store())
        return n


class _Fixed:
    """stands in for the rng: always mutate, always the k-th alternative"""

    def __init__(self, k):
        self.k = k

    def random(self):
        return 0.0

    def randrange(self, n):
        return self.k % n

    def choice(self, seq):
        return seq[self.k % len(seq)]


KINDS = {"Call": 8, "If": 5, "Slice": 3, "Compare": 1, "With": 1, "Lambda": 1, "Return": 1, "Assign": 5, "For": 3}


class OneEdit(Mutator):
    """The k-th edit of one kind applied at EVERY site of that kind (systematic counterpart of the random mutants)."""

    def __init__(self, kind: str, k: int):
        super().__init__(_Fixed(k), rate=1.0)
        for other in KINDS:
            if other != kind:
                setattr(self, "visit_" + other, self.generic_visit)


def systematic_mutants(ctx: Ctx, outdir: Path, kinds: list[str]) -> list[str]:
    import warnings
    warnings.filterwarnings("ignore", category=SyntaxWarning)
    seeds = sorted(glob.glob(str(REPO / "test" / "data" / "err_*.py")))
    out, seen = [], set()
    for seed in seeds:
        try:
            base = ast.parse(Path(seed).read_text())
        except SyntaxError:
            continue
        seen.add(ast.unparse(base))
        for kind in kinds:
            for k in range(KINDS[kind]):
                try:
                    tree = ast.fix_missing_locations(OneEdit(kind, k).visit(ast.parse(Path(seed).read_text())))
                    body = ast.unparse(tree)
                    src = "import sys\nfrom typing import TYPE_CHECKING, Any\nARGS = []\nKW = {}\nclass _O: pass\nOBJ: Any = _O()\n" + body + "\n"
                    compile(src, "m", "exec")
                except Exception:  # noqa: BLE001
                    continue
                if body in seen:
                    continue
                seen.add(body)
                p = outdir / f"sys_{kind}{k}_{Path(seed).stem}.py"
                p.write_text(src)
                out.append(str(p))
    return out


# two operands that a check compares for sameness, made ALMOST the same: the forms differ in one structural respect
# (arity, a keyword, a star, subscript vs slice, one more attribute, a call of the result, a lambda parameter)
NEAR_EQUAL_FORMS = [("g({n})", "g({n}, 1)"), ("{n}.get(0)", "{n}.get(0, 1)"), ("g({n}, k=1)", "g({n})"), ("{n}[0]", "{n}[0:1]"), ("g(*{n})", "g({n})"),
                    ("{n}.a", "{n}.a.b"), ("g({n})()", "g({n})"), ("(lambda: {n})", "(lambda q: {n})"), ("g({n}, 1)", "g({n}, k=1)"), ("{{{n}: 1}}", "{{{n}: 1, **KW}}"),
                    ("[{n}, {n}]", "[{n}]"), ("({n} < {n} < 1)", "({n} < {n})")]


class _Occurrences(ast.NodeTransformer):
    """in every statement where a name is read at least twice: its first reading becomes form A of it, its second form B"""

    def __init__(self, form: tuple[str, str]):
        self.form, self.edits = form, 0

    def visit(self, node):
        if isinstance(node, ast.stmt) and not isinstance(node, (ast.FunctionDef, ast.AsyncFunctionDef, ast.ClassDef, ast.If, ast.For, ast.While, ast.With, ast.Try, ast.Match)):
            reads: dict[str, list] = {}
            for x in ast.walk(node):
                if isinstance(x, ast.Name) and isinstance(x.ctx, ast.Load):
                    reads.setdefault(x.id, []).append(x)
            twice = {k: sorted(v, key=lambda x: (x.lineno, x.col_offset))[:2] for k, v in reads.items() if len(v) >= 2 and k not in ("g", "KW", "print", "len", "isinstance", "type")}
            if twice:
                repl = {}
                for k, (a, b) in twice.items():
                    repl[id(a)] = ast.parse(self.form[0].format(n=k), mode="eval").body
                    repl[id(b)] = ast.parse(self.form[1].format(n=k), mode="eval").body
                    self.edits += 1

                class Put(ast.NodeTransformer):
                    def visit_Name(self, n):
                        return repl.get(id(n), n)
                return Put().visit(node)
            return node
        return self.generic_visit(node)


def near_equal_operands(ctx: Ctx, outdir: Path) -> list[str]:
    seeds = sorted(glob.glob(str(REPO / "test" / "data" / "err_*.py")))
    out = []
    per_seed = len(NEAR_EQUAL_FORMS) if ctx.tier == "thorough" else 3
    for si, seed in enumerate(seeds):
        for fi in range(per_seed):
            form = NEAR_EQUAL_FORMS[(si + fi * 5) % len(NEAR_EQUAL_FORMS)]
            try:
                tr = _Occurrences(form)
                tree = ast.fix_missing_locations(tr.visit(ast.parse(Path(seed).read_text())))
                if not tr.edits:
                    continue
                src = "import sys\nfrom typing import TYPE_CHECKING, Any\nARGS = []\nKW: Any = {}\nclass _O: pass\nOBJ: Any = _O()\ndef g(*a: Any, **k: Any) -> Any: ...\n" + ast.unparse(tree) + "\n"
                compile(src, "m", "exec")
            except Exception:  # noqa: BLE001
                continue
            p = outdir / f"near_{NEAR_EQUAL_FORMS.index(form)}_{Path(seed).stem}.py"
            p.write_text(src)
            out.append(str(p))
    return out


def mutants(ctx: Ctx, outdir: Path, n: int) -> list[str]:
    seeds = sorted(glob.glob(str(REPO / "test" / "data" / "err_*.py")))
    out = []
    for i in range(n):
        seed = ctx.rng.choice(seeds)
        try:
            tree = ast.parse(Path(seed).read_text())
            tree = ast.fix_missing_locations(Mutator(ctx.rng).visit(tree))
            src = "import sys\nfrom typing import TYPE_CHECKING, Any\nARGS = []\nKW = {}\nclass _O: pass\nOBJ: Any = _O()\n" + ast.unparse(tree) + "\n"
            compile(src, "m", "exec")
        except Exception:  # noqa: BLE001
            continue
        p = outdir / f"mut_{i}_{Path(seed).stem}.py"
        p.write_text(src)
        out.append(str(p))
    return out


def fault_files(td: Path) -> list[tuple[str, list[str]]]:
    """(name, CLI args) single-run scenarios: encodings, missing things, odd layouts."""
    sc = []
    body = "x = int(0)\n"

    def w(name, data: bytes):
        p = td / name
        p.parent.mkdir(parents=True, exist_ok=True)
        p.write_bytes(data)
        return str(p)

    sc.append(("utf8-bom", [w("bom.py", b"\xef\xbb\xbf" + body.encode())]))
    sc.append(("crlf", [w("crlf.py", b"x = int(0)\r\ny = 1\r\n")]))
    sc.append(("cr-only", [w("cr.py", b"x = int(0)\ry = 1\r")]))
    # findings on later lines (what refurb reads back for `# noqa` and columns must have as many lines as mypy saw)
    late = "a = 1\nx = int(0)\ns = 'q'\ny = int(a)  # noqa: FURB999\nz = str('')\n"
    sc.append(("cr-only-late-findings", [w("cr_late.py", late.replace("\n", "\r").encode())]))
    sc.append(("crlf-late-findings", [w("crlf_late.py", late.replace("\n", "\r\n").encode())]))
    sc.append(("mixed-line-endings", [w("mixed.py", b"a = 1\rx = int(0)\r\ns = 'q'\ny = int(a)\rz = str('')")]))
    sc.append(("exotic-separators-late-findings", [w("exo.py", "a = '\x0b'\nx = int(0)  # \x0c\ns = '\x1c\x1d\x1e'\ny = int(1)  # \x85\u2028\nz = str('')\n".encode())]))
    sc.append(("formfeed", [w("ff.py", b"s = 'a\x0cb'\nx = int(0)\n")]))
    sc.append(("unicode-linesep", [w("ls.py", "s = 'a\u2028b'\nx = int(0)\n".encode())]))
    sc.append(("nul-byte", [w("nul.py", b"x = int(0)\x00\n")]))
    sc.append(("invalid-utf8", [w("bad8.py", b"x = int(0)  # \xff\xfe\n")]))
    sc.append(("latin1-cookie", [w("lat1.py", b"# -*- coding: latin-1 -*-\ns = '\xe9'\nx = int(0)\n")]))
    sc.append(("gbk-cookie", [w("gbk.py", "# coding: gbk\ns = '\u4e2d\u6587'\nx = int(0)\n".encode("gbk"))]))
    sc.append(("utf16-cookie", [w("u16.py", b"# coding: utf-16\nx = int(0)\n")]))
    sc.append(("empty-file", [w("empty.py", b"")]))
    sc.append(("only-comment", [w("cmt.py", b"# nothing")]))
    sc.append(("no-final-newline", [w("nonl.py", b"x = int(0)")]))
    sc.append(("syntax-error", [w("syn.py", b"def f(:\n")]))
    sc.append(("tuple-times-huge-int", [w("huge.py", b"t = (1,) * 100000000000000000000\n")]))     # found by the C06 thorough generator
    ok = w("ok_for_stats.py", body.encode())
    sc.append(("timing-stats-into-missing-dir", [ok, "--timing-stats", str(td / "no" / "such" / "dir" / "stats.json")]))
    sc.append(("timing-stats-is-a-directory", [ok, "--timing-stats", str(td)]))
    sc.append(("indent-error", [w("ind.py", b"if 1:\nx = 1\n")]))
    sc.append(("missing-file", [str(td / "does_not_exist.py")]))
    (td / "emptydir").mkdir()
    sc.append(("empty-dir", [str(td / "emptydir")]))
    (td / "pkg").mkdir()
    w("pkg/__init__.py", b"")
    w("pkg/mod.py", body.encode())
    sc.append(("package-dir", [str(td / "pkg")]))
    sc.append(("same-file-twice", [w("twice.py", body.encode())] * 2))
    w("dup/a/m.py", body.encode())
    w("dup/b/m.py", body.encode())
    sc.append(("duplicate-module-name", [str(td / "dup/a/m.py"), str(td / "dup/b/m.py")]))
    sc.append(("stub-file", [w("st.pyi", b"x: int\n")]))
    sc.append(("not-python", [w("data.txt", b"hello world\n")]))
    deep = "x = " + "(" * 150 + "1" + ")" * 150 + "\n"
    sc.append(("deep-parens", [w("deep.py", deep.encode())]))
    chain = "x = 1" + " + 1" * 1200 + "\n"
    sc.append(("long-binop-chain", [w("chain.py", chain.encode())]))
    nest = "".join("    " * i + "if x:\n" for i in range(60)) + "    " * 60 + "y = int(0)\n"
    sc.append(("deep-nesting", [w("nest.py", ("x = 1\n" + nest).encode())]))
    sc.append(("pep695", [str(VERIF / "corpus/C03/pep695.py")]))
    sc.append(("typing-states", [str(VERIF / "corpus/C03/typing_states.py")]))
    sc.append(("debug-flag", [w("dbg.py", body.encode()), "--debug"]))
    sc.append(("enable-all-verbose", [w("ver.py", body.encode()), "--enable-all", "--verbose"]))
    sc.append(("mypy-arg-bad", [w("ma.py", body.encode()), "--", "--no-such-mypy-flag"]))
    sc.append(("sort-error", [w("se.py", body.encode()), "--sort", "error"]))
    # every output format on files named in every way: absolute elsewhere, through `..`, through a symbolic link, inside a folder argument
    import os
    other = td.parent / (td.name + "-elsewhere")
    other.mkdir(exist_ok=True)
    (other / "mod.py").write_bytes(body.encode())
    try:
        os.symlink(other / "mod.py", td / "link_out.py")
    except OSError:
        pass
    for fmt in ("text", "github"):
        sc.append((f"{fmt}-format-file-elsewhere", [str(other / "mod.py"), "--format", fmt]))
        sc.append((f"{fmt}-format-relative-parent", [os.path.join("..", other.name, "mod.py"), "--format", fmt]))
        sc.append((f"{fmt}-format-symlink-out", [str(td / "link_out.py"), "--format", fmt]))
        sc.append((f"{fmt}-format-folder", [str(td / "pkg"), "--format", fmt, "--sort", "error"]))
        sc.append((f"{fmt}-format-error-lines-only", [str(td / "does_not_exist.py"), "--format", fmt]))
        sc.append((f"{fmt}-format-explain", ["--explain", "FURB123", "--format", fmt]))
    sc.append(("explain-unknown-code", ["--explain", "FURB999"]))
    sc.append(("explain-three-letter-prefix", ["--explain", "XYZ100"]))
    sc.append(("verbose-disable-all", [w("vd.py", body.encode()), "--verbose", "--disable-all"]))
    sc.append(("quiet-and-verbose", [w("qv.py", body.encode()), "--quiet", "--verbose", "--enable-all"]))
    sc.append(("no-color-env", [w("nc.py", body.encode())]))
    return sc


def stdlib_sample(ctx: Ctx, n: int) -> list[str]:
    root = Path(sysconfig.get_paths()["stdlib"])
    files = sorted(str(p) for p in root.glob("*.py")) + sorted(str(p) for p in root.glob("*/*.py"))
    files = [f for f in files if "/test" not in f and "/idlelib" not in f and "/lib2to3" not in f and "site-packages" not in f]
    ctx.rng.shuffle(files)
    return files[:n]


def classify(r: dict) -> str:
    tb = r.get("tb") or r.get("out") or ""
    last = [l for l in tb.strip().splitlines() if l.strip()][-1:] or ["?"]
    frames = [l.strip() for l in tb.splitlines() if l.strip().startswith("File ") and "/refurb/" in l]
    where = frames[-1].split('"')[1].split("/refurb/")[-1] + ":" + frames[-1].split(", in ")[-1] if frames else "outside-refurb"
    return f"{r.get('exc') or last[0].split(':')[0]}@{where}"


def run(ctx: Ctx) -> None:
    ctx.trusted_base += [
        "Coq 8.16.1 kernel + vm_compute",
        "schedule/visitor_model translators (shared with C04); mypy/nodes.py + patterns.py accept() methods as the universe of node classes",
        "Optional-ness of child fields read from mypy's class-level annotations",
    ]
    ctx.assumptions += ["uncaught exceptions inside individual check() bodies and inside mypy are covered by the search only (partial)"]
    ctx.rule("CLI/in-process runs on: fault scenarios (encodings, missing/odd inputs), typing-state and PEP 695 files, kitchen sink, "
             "AST-mutated near-misses of test/data idioms, a stdlib sample; non-trivial = input reaches the checks or a distinct fault path; distinct by file content")
    vm, gen = translate(ctx)
    b = None
    gens, order = {}, []
    if gen is not None:
        gens["GenVisitor"] = gen
        order += ["GenVisitor", "C03", "C03Guards"]
    try:
        from ..translate.routing import translate as translate_routing
        gens["GenRouting"], rsum = translate_routing(REPO)
        order += ["GenRouting", "C03Routing"]
        ctx.extra["routing_summary"] = {"functions": len(rsum.funcs), "functions_that_let_something_out": sum(1 for v in rsum.direct.values() if v),
                                        "call_sites": sum(len(v) for v in rsum.calls.values())}
    except Exception as e:  # noqa: BLE001
        ctx.obligation("translate exception routing (driver modules)", False, f"{type(e).__name__}: {e}")
    if order:
        b = coq.compile_props(ctx, gens, order)
        coq.record_build(ctx, b)
        if vm is not None and gen is not None:
            for k, info in vm.kind_info.items():
                if not info["registered"]:
                    ctx.notes.append(f"no accept() overload for mypy node class {k}")
    td = Path(tempfile.mkdtemp(prefix="c03-"))
    try:
        # 1. single-run fault scenarios through the real CLI
        for name, args in fault_files(td):
            rc, out, err = L.cli(args, cwd=str(td))
            ok = L.clean_verdict(rc, out, err)
            ctx.case(("fault", name), sample={"scenario": name, "rc": rc, "first": (out + err).strip().splitlines()[:1]})
            ctx.count("fault-scenarios")
            if not ok:
                r = {"tb": err if "Traceback" in err else out, "exc": None}
                ctx.report(f"crash:{name}:{classify(r)}", f"scenario {name}: exit {rc}, " + (err.strip().splitlines() or ["?"])[-1][:160],
                           {"cmd": ["python", "-m", "refurb", *args], "rc": rc, "stderr": err[-1500:], "stdout": out[-500:]})
        # 2. batched in-process runs (bisected on failure)
        kitchen = [str(VERIF / "corpus/C04/kitchen.py"), str(VERIF / "corpus/C03/typing_states.py"), str(VERIF / "corpus/C03/static_conditions.py")]
        kitchen += sorted(glob.glob(str(VERIF / "corpus/C03/regress_*.py")))   # minimised earlier failures run first
        data = sorted(glob.glob(str(REPO / "test" / "data*" / "*.py")))
        muts = mutants(ctx, td, ctx.budget(60, 1500))
        smuts = systematic_mutants(ctx, td, list(KINDS))
        ctx.count("systematic-mutants", len(smuts))
        near = near_equal_operands(ctx, td)
        ctx.count("near-equal-operand-files", len(near))
        smuts = smuts + near
        std = stdlib_sample(ctx, ctx.budget(48, 100000))
        ctx.count("mutants", len(muts))
        ctx.count("stdlib-files", len(std))
        ctx.count("test-data-files", len(data))

        def chunks(xs, n):
            return [xs[i:i + n] for i in range(0, len(xs), n)]
        batches = [kitchen] + chunks(data, 25) + chunks(muts, 10) + chunks(smuts, 12) + chunks(std, 8)
        res = L.lint_batches(batches, ["--enable-all", "--quiet"], workers=14, timeout=ctx.budget(900, 14000))
        for r in res:
            for f in r["files"]:
                ctx.case(("file", Path(f).name), nontrivial=True)
            if not r["ok"]:
                f = r["files"][0] if r["files"] else "?"
                keep = VERIF / "replays" / f"C03-input-{Path(f).name}"
                try:
                    keep.parent.mkdir(exist_ok=True)
                    shutil.copy(f, keep)
                except OSError:
                    keep = f
                ctx.report(f"crash:{classify(r)}", f"refurb --enable-all on {Path(f).name}: rc={r['rc']} " +
                           ((r.get("tb") or r.get("out") or "").strip().splitlines() or ["?"])[-1][:200],
                           {"file": str(keep), "cmd": f"python -m refurb --enable-all {keep}", "rc": r["rc"],
                            "traceback": (r.get("tb") or r.get("out") or "")[-2500:], "n_files_in_failing_batch": len(r["files"])})
        ctx.samples.append({"mutant_example": Path(muts[0]).read_text()[:300] if muts else ""})
    finally:
        shutil.rmtree(td, ignore_errors=True)
        shutil.rmtree(str(td) + "-elsewhere", ignore_errors=True)
    ctx.resolve_broken({"dispatch_total": "crash:", "traverse_no_exn": "crash:", "no_none_deref": "crash:", "main_routes_every_exception": "crash:",
                        "translate exception routing (driver modules)": "crash:"},
                       b.first_error if b else "")
