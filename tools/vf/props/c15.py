"""C15 — suggestions never need a newer Python than the configured target."""
from __future__ import annotations

import ast
import glob
import re
from pathlib import Path

from .. import coq
from ..core import REPO, VERIF, Ctx
from ..translate.catalogue import TranslateError, catalogue
from ..translate.gates import module_gates

TYPESHED = Path("/venv/lib/python3.12/site-packages/mypy/typeshed/stdlib")

# features typeshed cannot date (its floor is 3.8): Python 3.8 "What's New"
HAND_FEATURES = [
    (r"\bshlex\.join\(|(?<![\w.\"] )(?<![\w.])join\((?:y|\.\.\. for)", 8, "shlex.join (3.8)"),
    (r":=", 8, "assignment expression (3.8)"),
    (r"\bmath\.(prod|isqrt|dist|comb|perm)\(", 8, "math 3.8 functions"),
    (r"\bcached_property\b", 8, "functools.cached_property (3.8)"),
    (r"isinstance\(x, y \| z\)|issubclass\(x, y \| z\)", 10, "X | Y in isinstance (3.10)"),
    (r"@(functools\.)?cache\b", 9, "functools.cache (3.9)"),
]
# replacement semantics that are version dependent although the API name is old
CODE_FEATURES = {162: (11, "fromisoformat parses a trailing Z (3.11)"), 173: (9, "dict | dict (3.9)")}


def target_defs(repo: Path) -> str:
    """GenTarget.v: Settings.get_python_version, the order load_settings merges its two sources in,
    and the single place the target reaches mypy.  Fail-closed: any other shape raises."""
    st = ast.parse((repo / "refurb" / "settings.py").read_text("utf8"))
    mn = ast.parse((repo / "refurb" / "main.py").read_text("utf8"))

    def body_of(fn):
        return [x for x in fn.body if not (isinstance(x, ast.Expr) and isinstance(x.value, ast.Constant))]

    def same(node, src: str) -> bool:
        return ast.dump(node) == ast.dump(ast.parse(src).body[0])
    top = next((n for n in st.body if isinstance(n, ast.FunctionDef) and n.name == "get_python_version"), None)
    if top is None or len(body_of(top)) != 1 or not same(body_of(top)[0], "return sys.version_info[:2]"):
        raise TranslateError("target: settings.get_python_version() is not `return sys.version_info[:2]`")
    cls = next(n for n in st.body if isinstance(n, ast.ClassDef) and n.name == "Settings")
    meth = next((n for n in cls.body if isinstance(n, ast.FunctionDef) and n.name == "get_python_version"), None)
    if meth is None or len(body_of(meth)) != 1 or not same(body_of(meth)[0], "return self.python_version or get_python_version()"):
        raise TranslateError("target: Settings.get_python_version is not `return self.python_version or get_python_version()`")
    ls = next((n for n in st.body if isinstance(n, ast.FunctionDef) and n.name == "load_settings"), None)
    if ls is None:
        raise TranslateError("target: load_settings not found")
    b = body_of(ls)
    if not same(b[0], "cli_args = parse_command_line_args(args)") or not same(b[-1], "return Settings.merge(config_file, cli_args)"):
        raise TranslateError("target: load_settings does not start with cli_args = parse_command_line_args(args) and end with return Settings.merge(config_file, cli_args)")
    for n in ast.walk(ls):
        if isinstance(n, (ast.Assign, ast.AugAssign, ast.AnnAssign)):
            tg = n.targets if isinstance(n, ast.Assign) else [n.target]
            for t in tg:
                nm = ast.unparse(t)
                if nm.split(".")[0] == "cli_args" and n is not b[0]:
                    raise TranslateError(f"target: load_settings modifies cli_args: {ast.unparse(n)[:80]}")
                if nm == "config_file" and ast.unparse(n.value) not in ("parse_config_file(file.read_text())", "Settings()"):
                    raise TranslateError(f"target: config_file comes from {ast.unparse(n.value)[:80]}")
                if nm.startswith("config_file."):
                    raise TranslateError(f"target: load_settings modifies the parsed config: {ast.unparse(n)[:80]}")
    # the target reaches mypy once, unmodified; nothing else assigns python_version after the merge
    sites = []
    for tree, fname in ((mn, "main.py"), (st, "settings.py")):
        for fn in [n for n in ast.walk(tree) if isinstance(n, (ast.FunctionDef, ast.AsyncFunctionDef))]:
            for n in ast.walk(fn):
                if isinstance(n, ast.Assign) and any(isinstance(t, ast.Attribute) and t.attr == "python_version" for t in n.targets):
                    sites.append((fname, fn.name, ast.unparse(n)))
    want = {("main.py", "run_refurb", "opt.python_version = settings.get_python_version()"),
            ("settings.py", "parse_config_file", "settings.python_version = parse_python_version(version)"),
            ("settings.py", "parse_command_line_args", "settings.python_version = parse_python_version(version)")}
    if set(sites) != want:
        raise TranslateError(f"target: python_version is assigned at {sorted(set(sites) ^ want)} (expected only the two parsers and mypy's options)")
    return ("(* generated from refurb/settings.py (get_python_version, load_settings) and refurb/main.py *)\n"
            "From Lib Require Import Base Select.\nFrom P Require Import GenSelect.\n"
            "Definition effective_target (s : settings) (running : N * N) : N * N :=\n"
            "  match or_opt (python_version s) (Some running) with Some v => v | None => running end.\n"
            "Definition load_merge (config cli : settings) : settings := merge config cli.\n")


KW_INDEX: dict[tuple[str, str], int] = {}


def typeshed_index() -> tuple[dict[str, int], dict[str, int]]:
    """name -> minimal minor version guard, for module-level names ("shlex.join") and
    for methods of builtins classes (".removeprefix")."""
    mod_names: dict[str, int] = {}
    methods: dict[str, int] = {}

    def guard(test) -> int | None:
        if (isinstance(test, ast.Compare) and isinstance(test.left, ast.Attribute)
                and test.left.attr == "version_info" and isinstance(test.ops[0], ast.GtE)
                and isinstance(test.comparators[0], ast.Tuple)):
            e = test.comparators[0].elts
            if len(e) == 2 and e[0].value == 3:
                return e[1].value
        return None

    def walk(body, lo: int, prefix: str, sink: dict[str, int]):
        for st in body:
            if isinstance(st, ast.If):
                g = guard(st.test)
                walk(st.body, max(lo, g) if g is not None else lo, prefix, sink)
                walk(st.orelse, lo, prefix, sink)
            elif isinstance(st, (ast.FunctionDef, ast.AsyncFunctionDef, ast.ClassDef)):
                k = prefix + st.name
                sink[k] = min(sink.get(k, 99), lo)
                if not isinstance(st, ast.ClassDef):
                    # keyword arguments: the oldest version in which a function of that name takes that keyword
                    for a in st.args.args + st.args.kwonlyargs:
                        KW_INDEX[st.name, a.arg] = min(KW_INDEX.get((st.name, a.arg), 99), lo)
                if isinstance(st, ast.ClassDef):
                    walk(st.body, lo, k + ".", sink)
            elif isinstance(st, (ast.Assign, ast.AnnAssign)):
                for t in (st.targets if isinstance(st, ast.Assign) else [st.target]):
                    if isinstance(t, ast.Name):
                        k = prefix + t.id
                        sink[k] = min(sink.get(k, 99), lo)

    for stub in ["builtins", "shlex", "functools", "math", "os/__init__", "os/path", "pathlib", "itertools", "operator",
                 "datetime", "hashlib", "secrets", "decimal", "fractions", "contextlib", "re", "string", "abc",
                 "collections/__init__", "posixpath", "genericpath"]:
        p = TYPESHED / f"{stub}.pyi"
        if not p.exists():
            continue
        tree = ast.parse(p.read_text())
        mod = stub.replace("/__init__", "").replace("/", ".")
        sink: dict[str, int] = {}
        walk(tree.body, 0, "", sink)
        for k, v in sink.items():
            mod_names[f"{mod}.{k}"] = v
            if mod == "builtins" and k.count(".") == 1:
                m = k.split(".")[1]
                methods[m] = min(methods.get(m, 99), v) if False else max(methods.get(m, 0), 0)
        if mod == "builtins":
            per: dict[str, list[int]] = {}
            for k, v in sink.items():
                if k.count(".") == 1 and k.split(".")[0] in {"str", "bytes", "bytearray", "int", "float", "dict", "list", "set", "frozenset", "tuple"}:
                    per.setdefault(k.split(".")[1], []).append(v)
            methods = {m: min(vs) for m, vs in per.items()}
    return mod_names, methods


def replacement_parts(msg: str) -> str:
    ticks = re.findall(r"`([^`]*)`", msg)
    if len(ticks) >= 2 and re.search(r"\bwith\b|\binstead\b|\buse\b", msg, flags=re.I):
        return " ; ".join(ticks[1:])
    return " ; ".join(ticks)


def features_of(code: int, msg: str, mod_names, methods) -> list[tuple[int, str]]:
    text = replacement_parts(msg)
    out = []
    for rx, v, name in HAND_FEATURES:
        if re.search(rx, text):
            out.append((v, name))
    for m, a in re.findall(r"\b([a-z_]+(?:\.path)?)\.([A-Za-z_]\w*)", text):
        v = mod_names.get(f"{m}.{a}")
        if v:
            out.append((v, f"{m}.{a} (typeshed guard 3.{v})"))
    for a in re.findall(r"\.([a-z_]\w*)\(", text):
        v = methods.get(a)
        if v:
            out.append((v, f".{a}() (typeshed guard 3.{v})"))
    for m in re.finditer(r"([A-Za-z_]\w*)\(([^()]*)\)", text):
        for kw in re.findall(r"(?<![\w.])([a-z_]\w*)=(?!=)", m.group(2)):
            v = KW_INDEX.get((m.group(1), kw))
            if v and v < 99:
                out.append((v, f"{m.group(1)}({kw}=) (typeshed guard 3.{v})"))
    if code in CODE_FEATURES:
        out.append(CODE_FEATURES[code])
    return out


def lines_and(path: Path, line: int) -> str:
    ls = path.read_text().split("\n")
    return " / ".join(x.strip() for x in ls[max(0, line - 1): line + 2])[:160]


def third_party(path: str) -> bool:
    """Files importing site-packages modules are left out: their dependencies may use
    syntax newer than the target and make mypy refuse the whole build."""
    import importlib.util
    try:
        tree = ast.parse(Path(path).read_text())
    except SyntaxError:
        return False
    for n in ast.walk(tree):
        names = [a.name for a in n.names] if isinstance(n, ast.Import) else \
            [n.module] if isinstance(n, ast.ImportFrom) and n.module and n.level == 0 else []
        for nm in names:
            try:
                spec = importlib.util.find_spec(nm.split(".")[0])
            except Exception:  # noqa: BLE001
                spec = None
            if spec and spec.origin and "site-packages" in spec.origin:
                return True
    return False


def lint(files: list[str], minor: int):
    from refurb.main import run_refurb
    from refurb.settings import Settings
    dropped = [f for f in files if third_party(f)]
    files = [f for f in files if f not in dropped]
    for _ in range(len(files) + 1):
        errs = run_refurb(Settings(files=files, enable_all=True, python_version=(3, minor), quiet=True))
        strs = [e for e in errs if isinstance(e, str)]
        if not strs:
            return errs, dropped
        bad = {m.split(":")[0] for m in strs if ":" in m}
        bad = [f for f in files if f in bad]
        if not bad:
            return errs, dropped
        for f in bad:
            files.remove(f)
            dropped.append(f)
    return [], dropped


def run(ctx: Ctx) -> None:
    ctx.trusted_base += [
        "Coq 8.16.1 kernel + vm_compute",
        "tools/vf/translate/gates.py (fail-closed ast recognition of the two gate shapes)",
        "Lib/Gates.v base_min/text_min feature table (hand-written; cross-checked each run against typeshed guards and the 3.8 feature list on every emitted message)",
    ]
    ctx.assumptions += ["feature detection on messages: HAND_FEATURES regexes + typeshed sys.version_info guards (typeshed floor is 3.8)"]
    cat = None
    try:
        cat = catalogue(REPO)
        table = [(c["code"], module_gates(c)) for c in cat if c["prefix"] == "FURB"]
    except TranslateError as e:
        ctx.obligation("translate gates", False, str(e))
        table = None
    b = None
    if table is not None:
        def g(x):
            if x[0] == "return":
                return f"ReturnBelow {x[1]}"
            return f"Switch {x[1]} {coq.coq_str(x[2])} {coq.coq_str(x[3])}"
        gen = ("From Lib Require Import Base Gates.\nDefinition gates : list (N * list gate) := [\n"
               + ";\n".join(f"  ({c}%N, {coq.coq_list([g(x) for x in gs])})" for c, gs in table) + "].\n")
        gens, order = {"GenGates": gen}, ["GenGates", "C15"]
        try:
            from ..translate.selection import translate as translate_selection
            gens["GenSelect"] = translate_selection(REPO)
            gens["GenTarget"] = target_defs(REPO)
            order += ["GenSelect", "GenTarget", "C15Target"]
        except TranslateError as e:
            ctx.obligation("translate Settings.merge / get_python_version / load_settings (which version is the target)", False, str(e))
        b = coq.compile_props(ctx, gens, order)
        coq.record_build(ctx, b)
        ctx.extra["gates"] = {str(c): gs for c, gs in table if gs}
    # ---- search + tie on the real code: every diagnostic at every target version
    mod_names, methods = typeshed_index()
    ctx.extra["typeshed_guarded_methods"] = {k: v for k, v in methods.items() if v}
    files = [str(VERIF / "corpus" / "C15" / "idioms.py")]
    files += sorted(glob.glob(str(REPO / "test" / "data" / "err_*.py")))
    if ctx.tier == "thorough":
        files += sorted(glob.glob(str(REPO / "test" / "data_3.*" / "*.py")))
    import sys
    top = sys.version_info[1]
    per_v = {}
    for minor in range(7, top + 1):
        errs, dropped = lint(files, minor)
        per_v[minor] = {(e.filename, e.line, e.column, e.code): e.msg for e in errs if not isinstance(e, str)}
        ctx.count(f"diagnostics@3.{minor}", len(per_v[minor]))
        ctx.count(f"files-unparseable@3.{minor}", len(dropped))
        per_v[minor, "dropped"] = set(dropped)
    gates = dict(table) if table else {}
    seen_codes = set()
    for minor in range(7, top + 1):
        for (fn, line, col, code), msg in per_v[minor].items():
            feats = features_of(code, msg, mod_names, methods)
            need = max([v for v, _ in feats], default=7)
            key = (code, msg, minor)
            ctx.case(key, nontrivial=bool(feats) or bool(gates.get(code)),
                     sample={"target": f"3.{minor}", "code": code, "msg": msg, "features": feats} if feats and minor in (7, 9) else None)
            seen_codes.add(code)
            if need > minor:
                why = [n for v, n in feats if v > minor]
                ctx.report(f"too-new:FURB{code}@3.{minor}" if False else f"too-new:FURB{code}",
                           f"FURB{code} at --python-version 3.{minor} proposes {why[0]}: {msg}",
                           {"file": fn, "line": line, "python_version": f"3.{minor}", "message": msg,
                            "cmd": f"refurb --enable-all --python-version 3.{minor} {fn}"})
        # monotone: raising the target never removes a diagnostic (files parseable at both)
        if minor > 7:
            lost = [k for k in per_v[minor - 1] if k not in per_v[minor] and k[0] not in per_v[minor, "dropped"]]
            for k in lost[:3]:
                ctx.report(f"not-monotone:FURB{k[3]}", f"FURB{k[3]} reported at 3.{minor-1} but not at 3.{minor}",
                           {"file": k[0], "line": k[1], "versions": [minor - 1, minor]})
    # every idiom of the C01 rule table and every neighbouring shape of it (other keywords, bounds, sibling methods): a check
    # that accepts one of them must not answer with something newer than the target
    try:
        from .c01 import lint_program, variants
        from .c01_rules import RULES
        allr = list(RULES)
        for r0 in RULES:
            allr += variants(r0)
        lines_ = ["from typing import Any", "import os, io, re, math, hashlib, shlex, string", "from pathlib import Path"]
        for i, r0 in enumerate(allr):
            lines_.append(((r0.setup or "") + lint_program(r0, i)).rstrip("\n"))
        # the untyped twin of every idiom: the same statement with unannotated parameters (a check whose version test hangs on what it
        # knows about an operand's type must still honour the target when it knows nothing)
        for i, r0 in enumerate(RULES):
            prog = lint_program(r0, i).split("\n")
            names_ = list(r0.params) + [n_ for n_ in r0.annot if n_ not in r0.params]
            prog[0] = f"def _u{i}({', '.join(names_)}):"
            lines_.append(((r0.setup or "") + "\n".join(prog)).rstrip("\n"))
        import tempfile as _tf
        with _tf.TemporaryDirectory(prefix="c15v-") as tdv:
            vf = Path(tdv) / "shapes.py"
            vf.write_text("\n".join(lines_) + "\n")
            for minor in (7, 9):
                errs, _ = lint([str(vf)], minor)
                n_ = 0
                for e in errs:
                    if isinstance(e, str):
                        continue
                    n_ += 1
                    feats = features_of(e.code, e.msg, mod_names, methods)
                    need = max([v for v, _ in feats], default=7)
                    ctx.case(("shape", e.code, e.msg, minor), nontrivial=bool(feats))
                    if need > minor:
                        why = [n for v, n in feats if v > minor]
                        src_line = lines_and(vf, e.line)
                        ctx.report(f"too-new:FURB{e.code}", f"FURB{e.code} at --python-version 3.{minor} proposes {why[0]} for `{src_line}`: {e.msg}",
                                   {"source": src_line, "python_version": f"3.{minor}", "message": e.msg, "cmd": f"refurb --enable-all --python-version 3.{minor} <file with that statement>"})
                ctx.count(f"shape-diagnostics@3.{minor}", n_)
    except TranslateError:
        raise
    except Exception as ex:  # noqa: BLE001
        ctx.notes.append(f"neighbouring-shape corpus not linted: {type(ex).__name__}: {ex}")
    # both sources name a version: the command line's is the target (load_settings -> merge -> get_python_version)
    import tempfile
    from refurb.main import run_refurb
    from refurb.settings import load_settings
    idf0 = files[0]
    for cfg_v, cli_v in [(top, 8), (top, 7), (11, 9), (7, top), (8, 10)]:
        with tempfile.TemporaryDirectory(prefix="c15-") as td:
            toml = Path(td) / "cfg.toml"
            toml.write_text(f'[tool.refurb]\npython_version = "3.{cfg_v}"\nenable_all = true\n')
            argv = ["--config-file", str(toml), "--python-version", f"3.{cli_v}", "--quiet", idf0]
            try:
                errs = run_refurb(load_settings(argv))
            except Exception as ex:  # noqa: BLE001
                errs = [f"{type(ex).__name__}: {ex}"]
        got = {(e.filename, e.line, e.column, e.code): e.msg for e in errs if not isinstance(e, str)}
        want = {k: v for k, v in per_v[cli_v].items() if k[0] == idf0}
        ctx.case(("both-sources", cfg_v, cli_v), nontrivial=True,
                 sample={"config": f"3.{cfg_v}", "command_line": f"3.{cli_v}", "diagnostics": len(got)} if cfg_v == top and cli_v == 8 else None)
        ctx.count("config-and-command-line-disagree")
        if got != want:
            newer = [(k, m) for k, m in got.items() if max([v for v, _ in features_of(k[3], m, mod_names, methods)], default=7) > cli_v]
            detail = {"config python_version": f"3.{cfg_v}", "argv": argv, "only_with_both": sorted(f"{k[1]}:{k[2]} FURB{k[3]} {m}" for k, m in got.items() if want.get(k) != m)[:8],
                      "missing": sorted(f"{k[1]}:{k[2]} FURB{k[3]} {m}" for k, m in want.items() if got.get(k) != m)[:8]}
            if newer:
                k, m = newer[0]
                ctx.report(f"too-new:FURB{k[3]}", f"--python-version 3.{cli_v} with python_version = \"3.{cfg_v}\" in the config file: FURB{k[3]} proposes a feature newer than 3.{cli_v}: {m}", detail)
            else:
                ctx.report("target:not-the-command-line-version", f"--python-version 3.{cli_v} with python_version = \"3.{cfg_v}\" in the config file does not report what --python-version 3.{cli_v} alone reports", detail)
    # a third place that can name a version: mypy's own configuration (mypy.ini, [tool.mypy], an argument after `--`).  Whatever it
    # says, an explicit refurb target (command line or [tool.refurb]) is the target of the suggestions.
    import os as _os
    for where, mypy_v, how, tgt in [("mypy.ini", 11, "cli", 8), ("mypy.ini", 11, "config", 9), ("pyproject-tool-mypy", 11, "cli", 8), ("pyproject-tool-mypy", 10, "config", 7),
                                    ("mypy-argument", 11, "cli", 8), ("mypy-argument", 10, "config", 9), ("setup.cfg", 11, "cli", 10), ("mypy.ini", 8, "cli", top)]:
        with tempfile.TemporaryDirectory(prefix="c15-") as td:
            extra_args: list[str] = []
            toml_text = "[tool.refurb]\nenable_all = true\n" + (f'python_version = "3.{tgt}"\n' if how == "config" else "")
            if where == "mypy.ini":
                (Path(td) / "mypy.ini").write_text(f"[mypy]\npython_version = 3.{mypy_v}\n")
            elif where == "setup.cfg":
                (Path(td) / "setup.cfg").write_text(f"[mypy]\npython_version = 3.{mypy_v}\n")
            elif where == "pyproject-tool-mypy":
                toml_text += f'[tool.mypy]\npython_version = "3.{mypy_v}"\n'
            else:
                extra_args = ["--", "--python-version", f"3.{mypy_v}"]
            (Path(td) / "pyproject.toml").write_text(toml_text)
            argv = (["--python-version", f"3.{tgt}"] if how == "cli" else []) + ["--quiet", idf0, *extra_args]
            cwd0 = _os.getcwd()
            _os.chdir(td)
            try:
                errs = run_refurb(load_settings(argv))
            except Exception as ex:  # noqa: BLE001
                errs = [f"{type(ex).__name__}: {ex}"]
            finally:
                _os.chdir(cwd0)
        got = {(e.filename, e.line, e.column, e.code): e.msg for e in errs if not isinstance(e, str)}
        want = {k: v for k, v in per_v[tgt].items() if k[0] == idf0}
        ctx.case(("mypy-names-a-version", where, mypy_v, how, tgt), nontrivial=True)
        ctx.count("mypy-configuration-names-another-version")
        if got != want:
            newer = [(k, m) for k, m in got.items() if max([v for v, _ in features_of(k[3], m, mod_names, methods)], default=7) > tgt]
            detail = {"mypy python_version": f"3.{mypy_v}", "given by": where, "refurb target": f"3.{tgt}", "given by the": "command line" if how == "cli" else "[tool.refurb]", "argv": argv,
                      "pyproject.toml": toml_text, "errors": [e for e in errs if isinstance(e, str)][:3],
                      "only_here": sorted(f"{k[1]}:{k[2]} FURB{k[3]} {m}" for k, m in got.items() if want.get(k) != m)[:8],
                      "missing": sorted(f"{k[1]}:{k[2]} FURB{k[3]} {m}" for k, m in want.items() if got.get(k) != m)[:8]}
            if newer:
                k, m = newer[0]
                ctx.report(f"too-new:FURB{k[3]}", f"refurb target 3.{tgt} ({how}) with mypy's python_version 3.{mypy_v} ({where}): FURB{k[3]} proposes a feature newer than 3.{tgt}: {m}", detail)
            else:
                ctx.report("target:mypy-configuration-changes-the-report", f"refurb target 3.{tgt} ({how}) with mypy's python_version 3.{mypy_v} ({where}) does not report what the target alone reports", detail)
    # tie: the model's `fires` agrees with the real run for every gated check on the idiom corpus
    if table is not None:
        idf = files[0]
        mism = []
        for c, gs in table:
            rets = [x[1] for x in gs if x[0] == "return"]
            if not rets and not gs:
                continue
            present = {m for m in range(7, top + 1) if any(k[0] == idf and k[3] == c for k in per_v[m])}
            if not present:
                mism.append(f"FURB{c}: gated check never fires on the idiom corpus")
                continue
            model = {m for m in range(7, top + 1) if all(n <= m for n in rets)}
            if present != model:
                mism.append(f"FURB{c}: fires at {sorted(present)} but gates say {sorted(model)}")
            for x in gs:
                if x[0] == "switch":
                    for m in range(7, top + 1):
                        msgs = [v for k, v in per_v[m].items() if k[0] == idf and k[3] == c]
                        want = x[2] if m >= x[1] else x[3]
                        if msgs and not all(want in s for s in msgs):
                            mism.append(f"FURB{c}@3.{m}: message lacks {want!r}")
        ctx.obligation("correspondence: model fires/variant = real run_refurb on the idiom corpus for 3.7..running interpreter",
                       not mism, "; ".join(mism))
    ctx.rule("every diagnostic emitted on (idiom corpus + test/data) at every target 3.7..3.13; non-trivial = message with a dated feature or from a gated check; distinct by (code, message, target)")
    ctx.extra["codes_observed"] = len(seen_codes)
    ctx.resolve_broken({"translate gates": "too-new:", "never_too_new": "too-new:", "monotone": "not-monotone:", "command_line_version_is_the_target": "too-new:", "config_version_otherwise": "target:", "both_sources_disagree": "too-new:", "message_switch_only_upgrades": "too-new:", "gated_exists": "too-new:",
                        "translate Settings.merge / get_python_version / load_settings (which version is the target)": "too-new:"}, b.first_error if b else "")
