"""C09 — which checks run follows the documented enable/disable/ignore precedence."""
from __future__ import annotations

import itertools
import re
import tempfile
from pathlib import Path

from .. import coq
from ..core import REPO, Ctx
from ..harness import lint as L
from ..translate.catalogue import TranslateError
from ..translate.selection import translate

S = coq.coq_str


def universe():
    """Three real checks: on-by-default K1 with category A, off-by-default K2 with a
    different category B, and K3 on-by-default sharing A."""
    from refurb.loader import get_error_class, get_modules
    errs = [get_error_class(m) for m in get_modules([])]
    errs = [e for e in errs if e and e.categories]
    k1 = next(e for e in errs if e.enabled and e.code == 123)
    a = k1.categories[0]
    k2 = next(e for e in errs if not e.enabled and a not in e.categories)
    b = k2.categories[0]
    k3 = next(e for e in errs if e.enabled and a in e.categories and e.code != k1.code and b not in e.categories)
    return [k1, k2, k3], a, b


def cls_text(c):  # command-line / toml spelling
    return c


def coq_cls(c: str, path: str | None = None) -> str:
    pth = "None" if path is None else f"(Some {S(path)})"
    if c.startswith("#"):
        return f"(Cat {S(c[1:])} {pth})"
    m = re.fullmatch(r"([A-Z]{3,4})?(\d{3})", c)
    return f"(Code {S(m.group(1) or 'FURB')} {int(m.group(2))}%N {pth})"


def argv_of(opts):
    out = []
    for o in opts:
        if o[0] in ("enable", "disable", "ignore"):
            out += [f"--{o[0]}", ",".join(o[1])]
        else:
            out.append(f"--{o[0]}")
    return out


def toml_of(cfg) -> str:
    lines = ["[tool.refurb]"]
    for k in ("enable", "disable", "ignore"):
        if cfg[k]:
            lines.append(f"{k} = [" + ", ".join(f'"{x}"' for x in cfg[k]) + "]")
    for k in ("enable_all", "disable_all"):
        if cfg[k]:
            lines.append(f"{k} = true")
    for path, cs in cfg.get("amend", []):
        lines += ["[[tool.refurb.amend]]", f'path = "{path}"', "ignore = [" + ", ".join(f'"{x}"' for x in cs) + "]"]
    return "\n".join(lines) + "\n"


def coq_case(cfg, opts) -> tuple[str, str]:
    def lst(xs):
        return "[" + "; ".join(coq_cls(x) for x in xs) + "]"
    c = ("{| c_enable := %s; c_disable := %s; c_ignore := %s; c_enable_all := %s; c_disable_all := %s |}"
         % (lst(cfg["enable"]), lst(cfg["disable"]),
            "[" + "; ".join([coq_cls(x) for x in cfg["ignore"]] + [coq_cls(x, path) for path, cs in cfg.get("amend", []) for x in cs]) + "]", coq.coq_bool(cfg["enable_all"]), coq.coq_bool(cfg["disable_all"])))
    os_ = []
    for o in opts:
        os_.append({"enable": "OEnable %s", "disable": "ODisable %s", "ignore": "OIgnore %s"}.get(o[0], "").replace("%s", lst(o[1]) if len(o) > 1 else "")
                   or {"enable-all": "OEnableAll", "disable-all": "ODisableAll"}[o[0]])
    return c, "[" + "; ".join(os_) + "]"


# ---- the property's text as a function of the option history (independent of the model)
def spec(cfg, opts, chk) -> bool | None:
    def last(c):
        st = None
        for o in opts:
            if o[0] == "enable" and c in o[1]:
                st = True
            elif o[0] == "disable" and c in o[1]:
                st = False
            elif o[0] == "disable-all" and st is True:
                st = None
            elif o[0] == "enable-all" and st is False:
                st = None
        return st
    cli_ea = any(o[0] == "enable-all" for o in opts)
    cli_da = any(o[0] == "disable-all" for o in opts)
    ea, da = cli_ea or cfg["enable_all"], cli_da or cfg["disable_all"]
    if ea and da:
        return None
    reset = (cli_da and not cfg["disable_all"]) or (cli_ea and not cfg["enable_all"])   # a CLI all-switch resets the config's lists

    def disabled(c):
        return last(c) is False or (not reset and c in cfg["disable"])

    def enabled(c):
        if reset:
            return last(c) is True
        return (last(c) is True or (c in cfg["enable"] and c not in cfg["disable"])) and not disabled(c)
    ignored = set(cfg["ignore"]) | {c for o in opts if o[0] == "ignore" for c in o[1]}
    code = f"{chk.prefix}{chk.code}"
    cats = ["#" + c for c in chk.categories]
    if code in ignored or any(c in ignored for c in cats):
        return False
    if enabled(code):
        return True
    if disabled(code):
        return False
    if any(enabled(c) for c in cats):
        return True
    if any(disabled(c) for c in cats):
        return False
    if da:
        return False
    return chk.enabled or ea


_MODULE_CODE: dict = {}


def really_loaded(merged) -> set:
    """(prefix, code) of the checks whose functions load_checks hands to the visitor: what actually runs"""
    import sys
    from refurb.loader import get_error_class, load_checks
    out = set()
    for fs in load_checks(merged).values():
        for f in fs:
            if f.__module__ not in _MODULE_CODE:
                e = get_error_class(sys.modules[f.__module__])
                _MODULE_CODE[f.__module__] = (e.prefix, e.code) if e else None
            if _MODULE_CODE[f.__module__]:
                out.add(_MODULE_CODE[f.__module__])
    return out


def real_eval(cfg, opts, checks, through_loader: bool = False):
    from refurb.loader import should_load_check
    from refurb.settings import Settings, parse_command_line_args, parse_config_file
    try:
        cli = parse_command_line_args(["f.py", *argv_of(opts)])
        cf = parse_config_file(toml_of(cfg))
        merged = Settings.merge(cf, cli)
    except ValueError:
        return None
    ans = [bool(should_load_check(merged, k)) for k in checks]
    if through_loader:
        loaded = really_loaded(merged)
        real_eval.loader_says = [(k.prefix, k.code) in loaded for k in checks]
    else:
        real_eval.loader_says = None
    return ans


def classify(cfg, opts, code, got, want) -> str:
    ign = {c for o in opts if o[0] == "ignore" for c in o[1]} | set(cfg["ignore"])
    if any(c.startswith("#") for c in ign) and got and not want:
        return "category-ignore-has-no-effect"
    if ign and got and not want:
        return "enable-beats-ignore"
    if any(o[0] in ("enable-all", "disable-all") for o in opts):
        return "merge-drops-cli-list-after-all-switch"
    return "selection-differs"


def run(ctx: Ctx) -> None:
    ctx.trusted_base += [
        "Coq 8.16.1 kernel",
        "tools/vf/translate/selection.py (fail-closed translation of should_load_check and Settings.merge)",
        "Lib/Select.v cli_fold / cfg_settings: hand model of the selection part of parse_command_line_args / parse_config_file (tied by correspondence)",
    ]
    ctx.assumptions += ["conventions where the README is silent: a config-file `disable` beats a command-line `--enable` of the same classifier; an enabled category beats a disabled category of the same check"]
    b = None
    try:
        gen = translate(REPO)
    except TranslateError as e:
        ctx.obligation("translate should_load_check / Settings.merge", False, str(e))
        gen = None
    if gen is not None:
        b = coq.compile_props(ctx, {"GenSelect": gen}, ["GenSelect", "C09", "C09Findings"])
        fin = {k: v for k, v in b.theorems.items() if v["file"] == "C09Findings"}
        for k in fin:
            del b.theorems[k]
        coq.record_build(ctx, b)
        ctx.extra["findings_lemmas"] = {k: ("derivable" if v["ok"] else "no longer derivable") for k, v in fin.items()}
    checks, A, B = universe()
    k1, k2, k3 = checks
    alpha = [f"FURB{k1.code}", f"FURB{k2.code}", "#" + A, "#" + B]
    # category names no check has, but which begin like a real one or use other characters: they select nothing
    odd_cats = ["#" + A + "_strict", "#" + A + ".x", "#" + A.capitalize() if A.capitalize() != A else "#X" + A, "#" + B + "2", "#" + A[:-1]]
    optalpha = [(kind, [c]) for kind in ("enable", "disable", "ignore") for c in alpha] + [("enable-all",), ("disable-all",)]
    optalpha.append(("enable", [alpha[0], alpha[3]]))     # comma-separated list
    oddopts = [(kind, [c]) for kind in ("enable", "disable", "ignore") for c in odd_cats]
    cfgs = [dict(enable=[], disable=[], ignore=[], enable_all=False, disable_all=False)]
    for e in [[]] + [[c] for c in alpha]:
        for d in [[]] + [[c] for c in alpha]:
            for i in [[], [alpha[0]], [alpha[2]]]:
                for ea, da in ((False, False), (True, False), (False, True)):
                    cfgs.append(dict(enable=e, disable=d, ignore=i, enable_all=ea, disable_all=da))
    # ignores scoped to a directory ([[tool.refurb.amend]]): they silence diagnostics under that path and must not
    # change which checks are loaded (files elsewhere still get the diagnostic)
    for am in ([("legacy", [alpha[0]])], [("legacy", [alpha[2]])], [("legacy", [alpha[3]]), ("other", [alpha[1]])], [(".", [alpha[2], alpha[0]])]):
        for base in (cfgs[0], dict(enable=[alpha[1]], disable=[], ignore=[], enable_all=False, disable_all=False),
                     dict(enable=[], disable=[alpha[3]], ignore=[alpha[3]], enable_all=True, disable_all=False),
                     dict(enable=[alpha[2]], disable=[], ignore=[], enable_all=False, disable_all=True)):
            cfgs.append(dict(base, amend=am))
    rng = ctx.rng
    seqs = [()] + [(o,) for o in optalpha] + list(itertools.product(optalpha, repeat=2))
    seqs += list(itertools.product(optalpha, repeat=3))        # an earlier mention, an all-switch and a later selector: the shortest shape where order matters three ways
    if ctx.tier == "thorough":
        seqs += [tuple(rng.choice(optalpha) for _ in range(4)) for _ in range(12000)]
    else:
        seqs += [tuple(rng.choice(optalpha) for _ in range(rng.choice([4, 5]))) for _ in range(300)]
    cases = [(cfgs[0], list(s)) for s in seqs]                      # CLI only
    for o in oddopts:                                               # unknown look-alike categories, alone and around one ordinary option
        cases.append((cfgs[0], [o]))
        for o2 in optalpha[:8] + [("enable-all",), ("disable-all",)]:
            cases.append((cfgs[0], [o, o2]))
            cases.append((cfgs[0], [o2, o]))
    for c in odd_cats:
        for fld in ("enable", "disable", "ignore"):
            cases.append((dict(cfgs[0], **{fld: [c]}), [("enable-all",)] if fld != "enable" else [("disable-all",)]))
    cases += [(c, []) for c in cfgs]                                # config only
    cases += [(c, list(sq)) for c in cfgs if c.get("amend") for sq in seqs[1: 1 + len(optalpha)]]   # path-scoped ignores x every single option
    n_merge = ctx.budget(1500, 60000)
    for _ in range(n_merge):
        cases.append((rng.choice(cfgs), list(rng.choice(seqs[: 1 + len(optalpha) + len(optalpha) ** 2]))))
    ctx.rule("option sequences over {enable,disable,ignore}x{on-code,off-code,its category,another category} + all-switches: exhaustive to length 3 "
             "plus sampled longer ones, config-file combinations, and CLI x config merges; non-trivial = at least one selection option; distinct by (config, argv)")
    shards_src = []
    results = []
    n_loader = 0
    loader_budget = ctx.budget(700, 8000)
    for ci, (cfg, opts) in enumerate(cases):
        # what the loader really hands to the visitor, for every short case and a sample of the rest
        through = (len(opts) <= 2 or rng.random() < 0.05) and n_loader < loader_budget
        real = real_eval(cfg, opts, checks, through)
        results.append(real)
        if through and real is not None:
            n_loader += 1
            ctx.count("selection-through-load_checks")
            for k, g, l_ in zip(checks, real, real_eval.loader_says):
                if g != l_:
                    ctx.report("selection-differs:loader-vs-ladder", f"FURB{k.code} is {'loaded' if l_ else 'not loaded'} by load_checks although should_load_check says {g}: config {toml_of(cfg)!r}, argv {argv_of(opts)}",
                               {"config": toml_of(cfg), "argv": argv_of(opts), "check": f"FURB{k.code}", "load_checks": l_, "should_load_check": g,
                                "cmd": "refurb --verbose file.py " + " ".join(argv_of(opts))})
                    break
        want = [spec(cfg, opts, k) for k in checks]
        key = (toml_of(cfg), tuple(argv_of(opts)))
        ctx.case(key, nontrivial=bool(opts) or any(cfg[k] for k in cfg),
                 sample={"config": toml_of(cfg), "argv": argv_of(opts), "loaded": real} if rng.random() < 0.002 else None)
        ctx.count("merge" if opts and any(cfg[k] for k in cfg) else "cli-only" if opts else "config-only")
        if (real is None) != (want[0] is None):
            ctx.report("all-switch-exclusion", f"enable-all/disable-all exclusion differs for {argv_of(opts)} + {cfg}",
                       {"config": toml_of(cfg), "argv": argv_of(opts), "real": real, "spec": want})
            continue
        if real is None:
            continue
        for k, g, w in zip(checks, real, want):
            if g != w:
                ctx.report(classify(cfg, opts, k.code, g, w),
                           f"FURB{k.code} {'can' if g else 'cannot'} report with config {toml_of(cfg)!r} and argv {argv_of(opts)}; the documented precedence says it {'can' if w else 'cannot'}",
                           {"config": toml_of(cfg), "argv": argv_of(opts), "check": f"FURB{k.code}", "categories": list(k.categories),
                            "default_enabled": k.enabled, "loaded": g, "documented": w,
                            "cmd": "refurb --verbose file.py " + " ".join(argv_of(opts))})
    # ---- correspondence with the Coq model (generated ladder+merge, hand-written folds)
    if b is not None and b.files.get("GenSelect", {}).get("rc") == 0:
        ks = "[" + "; ".join("{| k_prefix := %s; k_id := %d%%N; k_cats := %s; k_enabled := %s |}" %
                             (S(k.prefix), k.code, coq.coq_list([S(c) for c in k.categories]), coq.coq_bool(k.enabled)) for k in checks) + "]"
        shards = []
        per = 400
        for i in range(0, len(cases), per):
            rows = []
            for (cfg, opts), real in zip(cases[i:i + per], results[i:i + per]):
                c, o = coq_case(cfg, opts)
                exp = "None" if real is None else "(Some [" + "; ".join(coq.coq_bool(x) for x in real) + "])"
                rows.append(f"({c}, {o}, {exp})")
            shards.append("Definition ks : list chk := " + ks + ".\nDefinition cs : list (cfgsel * list sopt * option (list bool)) := [\n"
                          + ";\n".join(rows) + "].\n"
                          "Definition model (c : cfgsel) (o : list sopt) : option (list bool) :=\n"
                          "  let m := merge (cfg_settings c) (cli_settings o) in if both_all m then None else Some (map (should_load m) ks).\n"
                          "Definition same (a b : option (list bool)) := match a, b with None, None => true | Some x, Some y => list_eqb Bool.eqb x y | _, _ => false end.\n"
                          "Eval vm_compute in (fix go i l := match l with [] => [] | (c, o, r) :: t => if same (model c o) r then go (S i) t else i :: go (S i) t end) 0 cs.\n")
        hdr = "From Lib Require Import Base Select.\nFrom P Require Import GenSelect.\nOpen Scope list_scope.\nSet Printing Width 100000.\n"
        res = coq.eval_shards(ctx, "select", hdr, shards, timeout=900)
        mism = []
        for si, (rc, out, err) in enumerate(res):
            vals = coq.parse_eval_values(out)
            if rc != 0 or not vals:
                mism.append("coqc failed: " + err[-300:])
                continue
            for j in [int(x) for x in vals[0].strip("[]").split(";") if x.strip()][:3]:
                cfg, opts = cases[si * per + j]
                mism.append(f"{toml_of(cfg)!r} {argv_of(opts)} -> real {results[si * per + j]}")
        ctx.obligation("correspondence: Coq (cfg_settings, cli_settings, generated merge + should_load) = real parse/merge/should_load_check on every case",
                       not mism, "; ".join(mism[:4]))
        ctx.extra["tie_cases"] = len(cases)
    e2e(ctx, checks, alpha)
    amend_does_not_unload(ctx, checks, alpha)
    same_number_other_prefix(ctx, checks)
    ctx.resolve_broken({"ladder_matches_readme": "", "explicit_code_beats_category": "", "ignore_silences_everywhere": "",
                        "all_switch_resets": "merge-drops", "lists_are_combined": "", "selection_matches_history": "",
                        "flags_and_ignores_merge": "", "path_scoped_never_unloads": "path-scoped",
                        "translate should_load_check / Settings.merge": ("path-scoped", "selection-differs", "merge-drops", "category-ignore", "enable-beats")}, b.first_error if b else "")


def amend_does_not_unload(ctx: Ctx, checks, alpha) -> None:
    """An ignore scoped to one directory leaves files elsewhere alone: through the real CLI, with and without the amend table."""
    k1 = checks[0]
    with tempfile.TemporaryDirectory(prefix="c09a-") as td:
        (Path(td) / "legacy").mkdir()
        (Path(td) / "src").mkdir()
        for d in ("legacy", "src"):
            (Path(td) / d / "m.py").write_text("x = int(0)\n")
        for what in (f"FURB{k1.code}", "#" + k1.categories[0]):
            (Path(td) / "pyproject.toml").write_text(f'[tool.refurb]\n[[tool.refurb.amend]]\npath = "legacy"\nignore = ["{what}"]\n')
            rc, out, err = L.cli(["legacy/m.py", "src/m.py", "--quiet"], cwd=td)
            rc2, out2, _ = L.cli(["src/m.py", "--verbose", "--quiet"], cwd=td)
            here = [l for l in out.splitlines() if f"[FURB{k1.code}]" in l]
            listed = f"FURB{k1.code}" in out2
            ctx.case(("amend-load", what), nontrivial=True, sample={"amend ignore": what, "reported": here})
            ctx.count("amend-vs-loading")
            if [l.split(":")[0] for l in here] != ["src/m.py"] or not listed:
                ctx.report("path-scoped-ignore-unloads", f"an amend entry ignoring {what} under legacy/ changes what is reported elsewhere: FURB{k1.code} lines {here}, listed by --verbose: {listed}",
                           {"config": (Path(td) / "pyproject.toml").read_text(), "argv": ["legacy/m.py", "src/m.py", "--quiet"], "stdout": out[-500:], "stderr": err[-300:]})


def e2e(ctx: Ctx, checks, alpha) -> None:
    """--verbose lists exactly the checks that can report, through the real CLI."""
    from refurb.loader import get_error_class, get_modules, should_load_check
    from refurb.settings import load_settings
    combos = [[], ["--enable-all", "--ignore", alpha[0]], ["--enable-all"], ["--disable-all", "--enable", alpha[0]], ["--enable-all", "--ignore", alpha[2]], ["--disable", alpha[2]],
              ["--disable", alpha[2], "--enable", alpha[0]], ["--enable", alpha[3]], ["--ignore", alpha[0]],
              ["--enable-all", "--disable", alpha[3]], ["--disable-all"]]
    with tempfile.TemporaryDirectory(prefix="c09-") as td:
        f = Path(td) / "t.py"
        f.write_text("x = int(0)\n")
        for argv in combos[: ctx.budget(7, 11)]:
            rc, out, err = L.cli([str(f), "--verbose", *argv], cwd=td)
            m = re.search(r"^Enabled checks: (.*)$", out, flags=re.M)
            listed = set(m.group(1).split(", ")) if m else set()
            if out.startswith("No checks enabled") or "No checks enabled" in out:
                listed = set()
            import os
            cwd = os.getcwd()
            os.chdir(td)
            try:
                st = load_settings([str(f), *argv])
            finally:
                os.chdir(cwd)
            want = set()
            for mod in get_modules([]):
                e = get_error_class(mod)
                if e and should_load_check(st, e):
                    want.add(f"{e.prefix}{e.code}")
            ctx.case(("verbose", tuple(argv)), sample={"argv": argv, "n_listed": len(listed)})
            ctx.count("cli-verbose")
            if listed != want:
                ctx.report("verbose-listing", f"--verbose with {argv} lists {len(listed)} checks, {len(want)} can report",
                           {"argv": argv, "only_listed": sorted(listed - want)[:5], "not_listed": sorted(want - listed)[:5]})


PLUGIN_SAME_NUMBER = '''\
from dataclasses import dataclass
from mypy.nodes import CallExpr, NameExpr
from refurb.error import Error


@dataclass
class ErrorInfo(Error):
    prefix = "ACME"
    code = {code}
    categories = ("acme",)
    msg: str = "probe"


def check(node: CallExpr, errors: list[Error]) -> None:
    match node:
        case CallExpr(callee=NameExpr(name="int")):
            errors.append(ErrorInfo.from_node(node, "probe"))
'''


def same_number_other_prefix(ctx: Ctx, checks) -> None:
    """A plugin check whose number a built-in check also has: every selector (ignore / disable / enable, on the command line, in the
    config file, as a bare integer) names one of the two and leaves the other alone, in what is loaded, listed and reported."""
    k1 = checks[0]
    with tempfile.TemporaryDirectory(prefix="c09p-") as td:
        (Path(td) / "acme_plug.py").write_text(PLUGIN_SAME_NUMBER.replace("{code}", str(k1.code)))
        (Path(td) / "t.py").write_text("x = int(0)\n")
        env = {"PYTHONPATH": f"{td}:{L.ENV['PYTHONPATH']}"}
        both = {f"FURB{k1.code}", f"ACME{k1.code}"}
        scen = [("nothing", [], "", both), ("ignore-builtin", ["--ignore", f"FURB{k1.code}"], "", {f"ACME{k1.code}"}), ("ignore-plugin", ["--ignore", f"ACME{k1.code}"], "", {f"FURB{k1.code}"}),
                ("ignore-bare-number", ["--ignore", str(k1.code)], "", {f"ACME{k1.code}"}), ("disable-builtin", ["--disable", f"FURB{k1.code}"], "", {f"ACME{k1.code}"}),
                ("disable-plugin", ["--disable", f"ACME{k1.code}"], "", {f"FURB{k1.code}"}), ("config-ignore-builtin", [], f'ignore = ["FURB{k1.code}"]\n', {f"ACME{k1.code}"}),
                ("config-ignore-integer", [], f"ignore = [{k1.code}]\n", {f"ACME{k1.code}"}), ("config-ignore-plugin", [], f'ignore = ["ACME{k1.code}"]\n', {f"FURB{k1.code}"}),
                ("only-plugin", ["--disable-all", "--enable", f"ACME{k1.code}"], "", {f"ACME{k1.code}"}), ("only-builtin", ["--disable-all", "--enable", f"FURB{k1.code}"], "", {f"FURB{k1.code}"}),
                ("ignore-builtin-category", ["--ignore", "#" + k1.categories[0]], "", {f"ACME{k1.code}"}), ("ignore-plugin-category", ["--ignore", "#acme"], "", {f"FURB{k1.code}"}),
                ("enable-all-ignore-builtin", ["--enable-all", "--ignore", f"FURB{k1.code}"], "", {f"ACME{k1.code}"})]
        for name, argv, cfg, want in scen:
            (Path(td) / "pyproject.toml").write_text('[tool.refurb]\nload = ["acme_plug"]\n' + cfg)
            rc, out, err = L.cli(["t.py", "--verbose", *argv], cwd=td, env_extra=env)
            reported = {c for c in both if f"[{c}]" in out}
            m = re.search(r"^Enabled checks: (.*)$", out, flags=re.M)
            listed = {c for c in both if m and c in m.group(1).split(", ")}
            ctx.case(("same-number", name), nontrivial=True)
            ctx.count("plugin-shares-a-number-with-a-builtin")
            if not L.clean_verdict(rc, out, err) or reported != want:
                ctx.report(f"selection-differs:same-number:{name}", f"plugin check ACME{k1.code} beside FURB{k1.code}, options {argv or cfg.strip()}: reported {sorted(reported)}, expected {sorted(want)} (listed as enabled: {sorted(listed)})",
                           {"argv": ["t.py", "--verbose", *argv], "pyproject.toml": '[tool.refurb]\nload = ["acme_plug"]\n' + cfg, "plugin": PLUGIN_SAME_NUMBER.replace("{code}", str(k1.code)),
                            "file": "x = int(0)", "stdout": out[-500:], "stderr": err[-300:]})
