"""C14 — CLI and config file are equivalent, merge as documented, and fail cleanly."""
from __future__ import annotations

import datetime
import io
import os
import sys
import tempfile
from pathlib import Path

from .. import coq
from ..core import REPO, Ctx
from ..harness import lint as L
from ..translate.catalogue import TranslateError
from ..translate.selection import translate
from .c09 import coq_cls

S = coq.coq_str

GOOD_CLS = ["FURB123", "123", "ABC100", "ABCD999", "#readability", "#x", "100", "FURB120"]
BAD_CLS = ["FURB12", "furb123", "12a", "", "#", "1234", "AB123", "ABCDE123", "123\n", "FURB 123", "١٢٣x"]
FLAGS = ["--debug", "--help", "-h", "--version", "--quiet", "--disable-all", "--enable-all", "--verbose", "-v", "--no-color"]
VALUED = {"--explain": ["123", "FURB123", "ABC100", "#x", "12"], "--ignore": None, "--enable": None, "--disable": None,
          "--load": ["mod", "a.b", ""], "--config-file": ["cfg.toml", "x"], "--python-version": ["3.9", "3.12", "3", "3.x", "3.9.1", "", "03.010"],
          "--format": ["text", "github", "json", ""], "--sort": ["filename", "error", "x"], "--timing-stats": ["stats.json", "s"]}
FILES = ["a.py", "dir/b.py", "c", "gen", "", "-", "-x", "--unknown", "--", "é.py", "--enable=FURB123", "--format=github", "a=b.py", "--quiet=1", "="]
# what may follow `--`: handed to mypy as it is, whatever it looks like
MYPY_ARGS = ["--strict", "--cache-dir=/tmp/c", "--exclude=build", "--exclude=-gen", "-v", "--", "--enable", "FURB123", "--enable=FURB123", "x=y", "=",
             "--python-version", "3.9", "--python-version=3.9", "--quiet", "f.py", "", "--disable-error-code=attr-defined", "a,b", "#x"]


class FakeTTY(io.StringIO):
    def isatty(self):
        return True


def canon_settings(s) -> dict:
    def cl(c):
        from refurb.error import ErrorCode
        p = None if c.path is None else str(c.path)
        return ("code", c.prefix, c.id, p) if isinstance(c, ErrorCode) else ("cat", c.value, None, p)
    return dict(files=list(s.files), explain=None if s.explain is None else cl(s.explain),
                ignore=sorted(map(cl, s.ignore), key=repr), load=[str(x) for x in s.load],
                enable=sorted(map(cl, s.enable), key=repr), disable=sorted(map(cl, s.disable), key=repr),
                debug=s.debug, generate=s.generate, help=s.help, version=s.version, quiet=s.quiet,
                enable_all=s.enable_all, disable_all=s.disable_all, config_file=s.config_file,
                python_version=None if s.python_version is None else tuple(s.python_version),
                mypy_args=[str(x) for x in s.mypy_args], format=s.format, sort_by=s.sort_by, verbose=s.verbose,
                timing_stats=None if s.timing_stats is None else ("" if str(s.timing_stats) == "." else str(s.timing_stats)),   # Path("") prints as "."; the model keeps the argument text
                color=s.color)


def real_call(fn, *args):
    old = sys.stdout
    sys.stdout = FakeTTY()
    env = os.environ.pop("NO_COLOR", None)
    try:
        try:
            return ("ok", canon_settings(fn(*args)))
        except ValueError as e:
            return ("ValueError", str(e))
        except BaseException as e:  # noqa: BLE001
            return ("Crash", type(e).__name__ + ": " + str(e)[:80])
    finally:
        sys.stdout = old
        if env is not None:
            os.environ["NO_COLOR"] = env


def coq_cl(t) -> str:
    kind, a, b, p = t
    path = "None" if p is None else f"(Some {S(p)})"
    return f"(Code {S(a)} {b}%N {path})" if kind == "code" else f"(Cat {S(a)} {path})"


def coq_res(r) -> str:
    if r[0] == "ValueError":
        return f"(ValueErr {S(r[1])})"
    if r[0] == "Crash":
        return '(Crash "")'
    d = r[1]
    o = lambda x, f=S: "None" if x is None else f"(Some {f(x)})"  # noqa: E731
    b = coq.coq_bool
    ls = lambda xs: coq.coq_list([S(x) for x in xs])  # noqa: E731
    cs = lambda xs: coq.coq_list([coq_cl(x) for x in xs])  # noqa: E731
    return ("(Ok {| files := %s; explain := %s; ignore := %s; load := %s; enable := %s; disable := %s; debug := %s; generate := %s; "
            "help := %s; version := %s; quiet := %s; enable_all := %s; disable_all := %s; config_file := %s; python_version := %s; "
            "mypy_args := %s; format := %s; sort_by := %s; verbose := %s; timing_stats := %s; color := %s |})"
            % (ls(d["files"]), o(d["explain"], coq_cl), cs(d["ignore"]), ls(d["load"]), cs(d["enable"]), cs(d["disable"]),
               b(d["debug"]), b(d["generate"]), b(d["help"]), b(d["version"]), b(d["quiet"]), b(d["enable_all"]), b(d["disable_all"]),
               o(d["config_file"]), o(d["python_version"], lambda v: f"({v[0]}%N, {v[1]}%N)"), ls(d["mypy_args"]), o(d["format"]),
               o(d["sort_by"]), b(d["verbose"]), o(d["timing_stats"]), b(d["color"])))


HDR = """From Lib Require Import Base Select Cli.
Open Scope list_scope.
Set Printing Width 100000.
Definition set_eqb (a b : list cls) := forallb (fun c => inb c b) a && forallb (fun c => inb c a) b.
Definition ocls_eqb (a b : option cls) := match a, b with Some x, Some y => cls_eqb x y | None, None => true | _, _ => false end.
Definition ostr_eqb := opt_s_eqb.
Definition opv_eqb (a b : option (N * N)) := match a, b with Some (x, y), Some (u, v) => N.eqb x u && N.eqb y v | None, None => true | _, _ => false end.
Definition settings_eqb (a b : settings) : bool :=
  list_eqb String.eqb (files a) (files b) && ocls_eqb (explain a) (explain b) && set_eqb (ignore a) (ignore b)
  && list_eqb String.eqb (load a) (load b) && set_eqb (enable a) (enable b) && set_eqb (disable a) (disable b)
  && Bool.eqb (debug a) (debug b) && Bool.eqb (generate a) (generate b) && Bool.eqb (help a) (help b)
  && Bool.eqb (version a) (version b) && Bool.eqb (quiet a) (quiet b) && Bool.eqb (enable_all a) (enable_all b)
  && Bool.eqb (disable_all a) (disable_all b) && ostr_eqb (config_file a) (config_file b)
  && opv_eqb (python_version a) (python_version b) && list_eqb String.eqb (mypy_args a) (mypy_args b)
  && ostr_eqb (format a) (format b) && ostr_eqb (sort_by a) (sort_by b) && Bool.eqb (verbose a) (verbose b)
  && ostr_eqb (timing_stats a) (timing_stats b) && Bool.eqb (color a) (color b).
Definition res_eqb (a b : res settings) : bool :=
  match a, b with Ok x, Ok y => settings_eqb x y | ValueErr m, ValueErr n => String.eqb m n | Crash _, Crash _ => true | _, _ => false end.
Definition bad {A} (f : A -> res settings) (cs : list (A * res settings)) : list nat :=
  (fix go i l := match l with [] => [] | (x, r) :: t => if res_eqb (f x) r then go (S i) t else i :: go (S i) t end) 0 cs.
"""


# ---------------------------------------------------------------- generators
def gen_argv(rng) -> list[str]:
    r = rng.random()
    if r < 0.03:
        return []
    if r < 0.06:
        return ["gen"]
    out = []
    for _ in range(rng.randrange(1, 7)):
        k = rng.random()
        if k < 0.25:
            out.append(rng.choice(FLAGS))
        elif k < 0.7:
            opt = rng.choice(list(VALUED))
            out.append(opt)
            if rng.random() < 0.93:
                vals = VALUED[opt]
                if vals is None:
                    n = rng.choice([1, 1, 2, 3])
                    pool = GOOD_CLS if rng.random() < 0.8 else GOOD_CLS + BAD_CLS
                    out.append(",".join(rng.choice(pool) for _ in range(n)))
                else:
                    out.append(rng.choice(vals))
        else:
            out.append(rng.choice(FILES if rng.random() < 0.4 else FILES[:3]))
    if rng.random() < 0.25:
        out += ["--", *(rng.choice(MYPY_ARGS) for _ in range(rng.randrange(0, 4)))]
    return out


def _strs(v) -> bool:
    # list elements are read through str() on purpose (`enable = [100]` is `--enable 100`): only the container type is fixed
    return isinstance(v, list)


def _bool(v) -> bool:
    return isinstance(v, bool)


def _str(v) -> bool:
    return isinstance(v, str)


FIELD_TYPES = {"enable": _strs, "disable": _strs, "ignore": _strs, "load": _strs, "mypy_args": _strs, "quiet": _bool, "disable_all": _bool, "enable_all": _bool,
               "python_version": _str, "format": _str, "sort_by": _str, "amend": lambda v: isinstance(v, list) and all(isinstance(x, dict) for x in v)}
FIELD_DOC = {"enable": "list", "disable": "list", "ignore": "list", "load": "list", "mypy_args": "list", "quiet": "boolean",
             "disable_all": "boolean", "enable_all": "boolean", "python_version": "string", "format": "string", "sort_by": "string", "amend": "list of tables"}


def toml_text(v, top=True) -> str:
    """Minimal TOML emitter for the generated documents (inline tables/arrays)."""
    if isinstance(v, bool):
        return "true" if v else "false"
    if isinstance(v, int):
        return str(v)
    if isinstance(v, float):
        return repr(v)
    if isinstance(v, str):
        return '"' + v.replace("\\", "\\\\").replace('"', '\\"').replace("\n", "\\n") + '"'
    if isinstance(v, datetime.date):
        return v.isoformat()
    if isinstance(v, list):
        return "[" + ", ".join(toml_text(x, False) for x in v) + "]"
    if isinstance(v, dict):
        if top:
            return "\n".join(f"{bare(k)} = {toml_text(x, False)}" for k, x in v.items()) + "\n"
        return "{" + ", ".join(f"{bare(k)} = {toml_text(x, False)}" for k, x in v.items()) + "}"
    raise TypeError(v)


def bare(k: str) -> str:
    return k if k.replace("_", "").replace("-", "").isalnum() and k.isascii() and k else '"' + k + '"'


def coq_toml(v) -> str:
    if isinstance(v, bool):
        return f"(TBool {coq.coq_bool(v)})"
    if isinstance(v, int):
        return f"(TInt ({v})%Z)"
    if isinstance(v, float):
        return f"(TFloat {S(repr(v))})"
    if isinstance(v, str):
        return f"(TStr {S(v)})"
    if isinstance(v, datetime.date):
        return f"(TDate {S(v.isoformat())})"
    if isinstance(v, list):
        return "(TList " + coq.coq_list([coq_toml(x) for x in v]) + ")"
    return "(TTable " + coq.coq_list([f"({S(k)}, {coq_toml(x)})" for k, x in v.items()]) + ")"


JUNK = [0, 1, 5, "", "x", True, False, 1.5, 0.0, [], [1], ["a"], {}, {"a": 1}, datetime.date(2020, 1, 2)]


def gen_refurb_table(rng, malformed: bool) -> dict:
    t: dict = {}
    def maybe(p):  # noqa: E306
        return rng.random() < p
    for key in ("enable", "disable", "ignore"):
        if maybe(0.4):
            t[key] = [rng.choice(GOOD_CLS + ([123, 100] if maybe(0.3) else [])) for _ in range(rng.randrange(0, 3))]
    if maybe(0.3):
        t["load"] = [rng.choice(["mod", "a.b"]) for _ in range(rng.randrange(0, 3))]
    for key in ("quiet", "enable_all", "disable_all", "color"):
        if maybe(0.25):
            t[key] = maybe(0.5)
    if maybe(0.25):
        t["python_version"] = rng.choice(["3.9", "3.12", "3.7"])
    if maybe(0.2):
        t["format"] = rng.choice(["text", "github"])
    if maybe(0.2):
        t["sort_by"] = rng.choice(["filename", "error"])
    if maybe(0.2):
        t["mypy_args"] = [rng.choice(["--strict", "-v", 1]) for _ in range(rng.randrange(0, 3))]
    if maybe(0.25):
        t["amend"] = [{"path": rng.choice(["src", "a/b.py", "pkg"]), "ignore": [rng.choice(GOOD_CLS) for _ in range(rng.randrange(0, 3))]}
                      for _ in range(rng.randrange(0, 3))]
    if malformed:
        for _ in range(rng.choice([1, 1, 2])):
            k = rng.random()
            keys = ["enable", "disable", "ignore", "load", "quiet", "enable_all", "disable_all", "color", "python_version", "format",
                    "sort_by", "mypy_args", "amend"]
            if k < 0.45:
                t[rng.choice(keys)] = rng.choice(JUNK)
            elif k < 0.6:
                t[rng.choice(["unknown", "Enable", "files", "explain"])] = rng.choice(JUNK)
            elif k < 0.75:
                t[rng.choice(["enable", "disable", "ignore"])] = [rng.choice(BAD_CLS + JUNK[:9])]
            elif k < 0.9:
                t["amend"] = rng.choice([[rng.choice(JUNK)], [{"path": 1, "ignore": []}], [{"path": "p"}], [{"ignore": ["100"]}],
                                         [{"path": "p", "ignore": ["100"], "extra": 1}], [{"path": "p", "ignore": "100"}],
                                         [{"path": "p", "ignore": [rng.choice(BAD_CLS)]}], {"path": "p", "ignore": []}])
            else:
                t[rng.choice(["python_version", "format", "sort_by"])] = rng.choice(["3", "x.y", "json", "", "3.9.1"])
    return t


def gen_doc(rng) -> dict:
    r = rng.random()
    if r < 0.05:
        return {}
    if r < 0.12:
        return {"tool": rng.choice(JUNK)}
    if r < 0.2:
        return {"tool": {"refurb": rng.choice(JUNK)}}
    if r < 0.25:
        return {"tool": {"other": {"x": 1}}, "project": {"name": "x"}}
    return {"tool": {"refurb": gen_refurb_table(rng, malformed=r > 0.6)}}


def run(ctx: Ctx) -> None:
    ctx.trusted_base += [
        "Coq 8.16.1 kernel",
        "Lib/Cli.v: hand-written model of parse_command_line_args / parse_config_file and their helpers, tied by the correspondence below",
        "tools/vf/translate/selection.py for Settings.merge",
        "tomllib as the parser of TOML text (documents are generated as values and serialised by the harness)",
    ]
    ctx.assumptions += ["ASCII digits in codes/versions (Python's \\d and isnumeric accept more)", "sys.stdout is a tty and NO_COLOR unset (color field)"]
    ctx.rule("argument vectors (structured: flags, valued options with valid/invalid/missing values, files, `--`) and TOML documents "
             "(valid tables + wrong types at every key, unknown keys, malformed amend tables, non-table tool/tool.refurb); "
             "non-trivial = at least one option/key; distinct by argv / document text")
    b = None
    try:
        gen = translate(REPO)
    except TranslateError as e:
        ctx.obligation("translate Settings.merge", False, str(e))
        gen = None
    if gen is not None:
        b = coq.compile_props(ctx, {"GenSelect": gen}, ["GenSelect", "C14"])
        coq.record_build(ctx, b)
    from refurb.settings import parse_command_line_args, parse_config_file
    rng = ctx.rng
    # ---- command lines
    argvs, seen = [], set()
    while len(argvs) < ctx.budget(1500, 40000):
        a = gen_argv(rng)
        if tuple(a) not in seen:
            seen.add(tuple(a))
            argvs.append(a)
    cli_real = [real_call(parse_command_line_args, a) for a in argvs]
    for a, r in zip(argvs, cli_real):
        ctx.case(("argv", tuple(a)), nontrivial=len(a) > 0, sample={"argv": a, "result": r[0]} if rng.random() < 0.003 else None)
        ctx.count("argv:" + r[0])
        if r[0] == "Crash":
            ctx.report("cli-crash:" + r[1].split(":")[0], f"parse_command_line_args({a}) raises {r[1]}", {"argv": a, "exception": r[1]})
        elif r[0] == "ValueError" and ("\n" in r[1] and not any("\n" in x for x in a) or not r[1].startswith("refurb: ")):
            ctx.report("cli-error-message", f"argv {a}: error message is not one `refurb:` line: {r[1]!r}", {"argv": a, "message": r[1]})
    # ---- config documents
    docs, seen = [], set()
    while len(docs) < ctx.budget(1500, 40000):
        d = gen_doc(rng)
        t = toml_text(d)
        if t not in seen:
            seen.add(t)
            docs.append((d, t))
    cfg_real = [real_call(parse_config_file, t) for _, t in docs]
    for (d, t), r in zip(docs, cfg_real):
        ctx.case(("toml", t), nontrivial=len(t) > 8, sample={"toml": t, "result": r[0]} if rng.random() < 0.003 else None)
        ctx.count("toml:" + r[0])
        tbl = d.get("tool", {}).get("refurb") if isinstance(d.get("tool"), dict) else None
        if r[0] == "ok" and isinstance(tbl, dict):
            # the documented type of every field (README, "Configuring Refurb"): a value of another TOML type is malformed
            for fld, ty in FIELD_TYPES.items():
                if fld in tbl and not ty(tbl[fld]):
                    ctx.report(f"ill-typed-accepted:{fld}", f"[tool.refurb] {fld} = {toml_text(tbl[fld], False)} is accepted although {fld} must be a {FIELD_DOC[fld]}",
                               {"toml": t, "field": fld, "value": repr(tbl[fld]), "parsed": str(r[1])[:300]})
        if r[0] == "Crash":
            where = "tool" if not isinstance(d.get("tool"), dict) else "tool.refurb" if not isinstance(d["tool"].get("refurb"), dict) else "field"
            ctx.report(f"config-crash:{r[1].split(':')[0]}:{where}", f"parse_config_file raises {r[1]} on {t!r}", {"toml": t, "exception": r[1]})
        elif r[0] == "ValueError" and ("\n" in r[1] or not r[1].startswith("refurb: ")) and "tomllib" not in r[1]:
            ctx.report("config-error-message", f"config {t!r}: error message is not one `refurb:` line: {r[1]!r}", {"toml": t, "message": r[1]})
    # ---- correspondence
    if b is not None and b.files.get("GenSelect", {}).get("rc") == 0:
        shards = []
        per = 300
        for i in range(0, len(argvs), per):
            rows = [f"({coq.coq_list([S(x) for x in a])}, {coq_res(r)})" for a, r in zip(argvs[i:i + per], cli_real[i:i + per])]
            shards.append("Definition cs : list (list string * res settings) := [\n" + ";\n".join(rows) + "].\nEval vm_compute in bad parse_cli cs.\n")
        ncli = len(shards)
        for i in range(0, len(docs), per):
            rows = [f"({coq.coq_list([f'({S(k)}, {coq_toml(v)})' for k, v in d.items()])}, {coq_res(r)})"
                    for (d, _), r in zip(docs[i:i + per], cfg_real[i:i + per])]
            shards.append("Definition cs : list (list (string * toml) * res settings) := [\n" + ";\n".join(rows) + "].\nEval vm_compute in bad parse_cfg cs.\n")
        res = coq.eval_shards(ctx, "parse", HDR, shards, timeout=900)
        mism = []
        for si, (rc, out, err) in enumerate(res):
            vals = coq.parse_eval_values(out)
            if rc != 0 or not vals:
                mism.append(f"shard {si}: coqc failed: " + err[-300:])
                continue
            for j in [int(x) for x in vals[0].strip("[]").split(";") if x.strip()][:3]:
                if si < ncli:
                    mism.append(f"argv {argvs[si * per + j]} -> real {str(cli_real[si * per + j])[:200]}")
                else:
                    k = (si - ncli) * per + j
                    mism.append(f"toml {docs[k][1]!r} -> real {str(cfg_real[k])[:200]}")
        ctx.obligation("correspondence: Lib/Cli.v parse_cli / parse_cfg = refurb.settings parse_command_line_args / parse_config_file on every case",
                       not mism, "; ".join(mism[:5]))
        ctx.extra["tie_cases"] = len(argvs) + len(docs)
    oracles(ctx)
    ctx.resolve_broken({"cfg_total": "config-crash:", "cli_total": "cli-crash:",
                        "correspondence: Lib/Cli.v parse_cli / parse_cfg = refurb.settings parse_command_line_args / parse_config_file on every case": ("cli-config-differ:", "cli-crash:", "config-crash:", "position-dependent", "merge-law")}, b.first_error if b else "")


def oracles(ctx: Ctx) -> None:
    """The property itself on the real code: CLI == config, position independence,
    documented merge, clean failure through the CLI."""
    from refurb.settings import Settings, parse_command_line_args, parse_config_file
    rng = ctx.rng
    for _ in range(ctx.budget(300, 5000)):
        en = rng.sample(GOOD_CLS, rng.randrange(0, 3))
        di = [c for c in rng.sample(GOOD_CLS, rng.randrange(0, 3)) if c not in en]
        ig = rng.sample(GOOD_CLS, rng.randrange(0, 3))
        load = rng.sample(["m1", "m2.x"], rng.randrange(0, 3))
        if load and rng.random() < 0.25:
            load.append(load[0])                       # the same value twice: lists are combined, not sets
        flags = {k: rng.random() < 0.3 for k in ("quiet",)}
        allsw = rng.choice([None, None, "enable_all", "disable_all"])
        pv = rng.choice([None, "3.9", "3.11", "3.10", "3.7"])
        fm = rng.choice([None, "text", "github"])
        sb = rng.choice([None, "filename", "error"])
        ma = rng.choice([[], ["--strict"], ["--a", "--b"], rng.sample(MYPY_ARGS, rng.randrange(1, 4)),
                         ["--exclude", "src/gen", "--exclude", "src/vendor"], ["-v", "-v"], [rng.choice(MYPY_ARGS)] * 2 + ["x"]])
        argv = []
        for c in ig:
            argv += ["--ignore", c]
        for m in load:
            argv += ["--load", m]
        if allsw:
            argv.append("--" + allsw.replace("_", "-"))
        for c in en:
            argv += ["--enable", c]
        for c in di:
            argv += ["--disable", c]
        if flags["quiet"]:
            argv.append("--quiet")
        if pv:
            argv += ["--python-version", pv]
        if fm:
            argv += ["--format", fm]
        if sb:
            argv += ["--sort", sb]
        tail = ["--", *ma] if ma else []
        table = {}
        if ig:
            table["ignore"] = ig
        if load:
            table["load"] = load
        if allsw:
            table[allsw] = True
        if en:
            table["enable"] = en
        if di:
            table["disable"] = di
        if flags["quiet"]:
            table["quiet"] = True
        if pv:
            table["python_version"] = pv
        if fm:
            table["format"] = fm
        if sb:
            table["sort_by"] = sb
        if ma:
            table["mypy_args"] = ma
        a = real_call(parse_command_line_args, argv + tail)
        c = real_call(parse_config_file, toml_text({"tool": {"refurb": table}}))
        ctx.case(("equiv", tuple(argv + tail)), nontrivial=bool(argv))
        ctx.count("cli-vs-config")
        if not (argv + tail):
            continue          # no arguments at all means "print the usage" on the command line; there is no config spelling of that
        if a != c:
            diff = [k for k in a[1] if a[0] == c[0] == "ok" and a[1][k] != c[1][k]] if a[0] == c[0] == "ok" else [a[0], c[0]]
            ctx.report("cli-config-differ:" + ",".join(map(str, diff[:3])), f"`{' '.join(argv + tail)}` and the same options in [tool.refurb] give different settings ({diff})",
                       {"argv": argv + tail, "table": table, "cli": a, "config": c})
        # position independence of the file arguments
        files = ["f1.py", "d/f2.py"]
        segs = []
        i = 0
        while i < len(argv):
            if argv[i] in VALUED:
                segs.append(argv[i:i + 2]); i += 2
            else:
                segs.append(argv[i:i + 1]); i += 1
        base = real_call(parse_command_line_args, [*files, *argv, *tail])
        mixed = list(segs)
        pos = sorted(rng.randrange(0, len(mixed) + 1) for _ in files)
        out = []
        fi = 0
        for j, sg in enumerate(mixed + [[]]):
            while fi < len(files) and pos[fi] == j:
                out.append(files[fi]); fi += 1
            out += sg
        alt = real_call(parse_command_line_args, [*out, *tail])
        ctx.count("file-position")
        if base != alt:
            ctx.report("file-position-matters", f"moving the file arguments changes the settings: {out}", {"a": [*files, *argv, *tail], "b": [*out, *tail]})
    # documented merge on the real Settings.merge
    for _ in range(ctx.budget(200, 3000)):
        def rs():
            return Settings(files=rng.sample(["a", "b"], rng.randrange(0, 3)), load=rng.sample(["m", "n"], rng.randrange(0, 3)),
                            quiet=rng.random() < 0.5, verbose=rng.random() < 0.5, debug=rng.random() < 0.5,
                            python_version=rng.choice([None, (3, 9), (3, 11)]), format=rng.choice([None, "text", "github"]),
                            sort_by=rng.choice([None, "filename", "error"]), mypy_args=rng.choice([[], ["-x"], ["-y", "-z"]]))
        old, new = rs(), rs()
        m = Settings.merge(old, new)
        ok = (m.files == old.files + new.files and m.load == old.load + new.load and m.quiet == (old.quiet or new.quiet)
              and m.verbose == (old.verbose or new.verbose) and m.debug == (old.debug or new.debug)
              and m.python_version == (new.python_version or old.python_version) and m.format == (new.format or old.format)
              and m.sort_by == (new.sort_by or old.sort_by) and m.mypy_args == (new.mypy_args or old.mypy_args))
        ctx.count("merge-law")
        if not ok:
            ctx.report("merge-law", "Settings.merge does not combine lists / or booleans / prefer command-line scalars", {"old": str(old), "new": str(new), "merged": str(m)})
    # ... and on the selection lists: combined too, unless the command line introduces an all-switch the config file does not have
    # (then, as the tests pin, the config file's enable/disable lists do not apply); a switch present on both sides introduces nothing
    from refurb.error import ErrorCategory, ErrorCode
    pool = [ErrorCode(100), ErrorCode(123), ErrorCode(184), ErrorCategory("readability"), ErrorCategory("pathlib")]
    for _ in range(ctx.budget(600, 6000)):
        def sel():
            ea, da = rng.choice([(False, False), (False, False), (True, False), (False, True)])
            return Settings(enable=set(rng.sample(pool, rng.randrange(0, 3))), disable=set(rng.sample(pool, rng.randrange(0, 3))),
                            ignore=set(rng.sample(pool, rng.randrange(0, 3))), enable_all=ea, disable_all=da)
        old, new = sel(), sel()
        if (old.enable_all or new.enable_all) and (old.disable_all or new.disable_all):
            continue
        m = Settings.merge(old, new)
        introduces = (new.enable_all and not old.enable_all) or (new.disable_all and not old.disable_all)
        want_disable = set(new.disable) if introduces else set(old.disable) | set(new.disable)
        want_enable = set(new.enable) if introduces else (set(old.enable) | set(new.enable)) - want_disable
        ok = (set(m.disable) == want_disable and set(m.enable) == want_enable and set(m.ignore) == set(old.ignore) | set(new.ignore)
              and m.enable_all == (old.enable_all or new.enable_all) and m.disable_all == (old.disable_all or new.disable_all))
        ctx.case(("merge-selection", str(old), str(new)), nontrivial=True)
        ctx.count("merge-law:selection" + (":switch-on-both-sides" if (old.enable_all and new.enable_all) or (old.disable_all and new.disable_all) else ""))
        if not ok:
            ctx.report("merge-law:selection", "Settings.merge does not combine the selection lists of config file and command line as documented",
                       {"config": {"enable": sorted(map(str, old.enable)), "disable": sorted(map(str, old.disable)), "ignore": sorted(map(str, old.ignore)), "enable_all": old.enable_all, "disable_all": old.disable_all},
                        "command_line": {"enable": sorted(map(str, new.enable)), "disable": sorted(map(str, new.disable)), "ignore": sorted(map(str, new.ignore)), "enable_all": new.enable_all, "disable_all": new.disable_all},
                        "merged": {"enable": sorted(map(str, m.enable)), "disable": sorted(map(str, m.disable)), "ignore": sorted(map(str, m.ignore))},
                        "expected": {"enable": sorted(map(str, want_enable)), "disable": sorted(map(str, want_disable))}})
    # clean failure through the real CLI
    with tempfile.TemporaryDirectory(prefix="c14-") as td:
        f = Path(td) / "t.py"
        f.write_text("x = 1\n")
        scen = [("tool-not-table", "tool = 1\n", []), ("refurb-not-table", "[tool]\nrefurb = 5\n", []),
                ("enable-not-list", "[tool.refurb]\nenable = 1\n", []), ("unknown-key", "[tool.refurb]\nfoo = 1\n", []),
                ("amend-not-list", "[tool.refurb]\namend = 1\n", []), ("amend-item-int", "[tool.refurb]\namend = [1]\n", []),
                ("invalid-toml", "[tool.refurb\n", []), ("both-all", "[tool.refurb]\nenable_all = true\ndisable_all = true\n", []),
                ("load-int", "[tool.refurb]\nload = [1]\n", []), ("bad-code", "[tool.refurb]\nignore = [\"x\"]\n", []),
                ("not-utf8", b"\xff\xfe[tool.refurb]\n", []), ("cli-bad-option", "", ["--nope"]), ("cli-missing-value", "", ["--enable"]),
                ("cli-bad-version", "", ["--python-version", "x"]), ("cli-both-all", "", ["--enable-all", "--disable-all"]),
                ("cli-empty-arg", "", [""]), ("cli-bad-format", "", ["--format", "json"]), ("cli-explain-bad", "", ["--explain", "x"]),
                ("config-missing", None, ["--config-file", "nope.toml"]), ("config-is-dir", None, ["--config-file", "."]),
                ("config-path-through-a-file", None, ["--config-file", "t.py/conf.toml"]), ("config-name-too-long", None, ["--config-file", "x" * 300 + ".toml"])]
        # the same malformed command lines in a directory that has no config file at all (the other way into load_settings)
        scen += [(name + "-without-any-config-file", None, extra) for name, text, extra in scen if name.startswith("cli-")]
        scen += [("split-both-all-config-enable", "[tool.refurb]\nenable_all = true\n", ["--disable-all", "--enable-all"]),
                 ("both-all-after-files-without-any-config-file", None, ["--disable-all", "x.py", "--enable-all"])]
        # a value that cannot be used (a module to load that does not exist), given either way, in each mode that consults it
        for mode_name, mode_args in (("lint", []), ("explain", ["--explain", "FURB123"]), ("explain-unknown-code", ["--explain", "ZZZ900"]), ("verbose", ["--verbose"])):
            scen.append((f"load-missing-module-cli-{mode_name}", "", ["--load", "no_such_plugin_module", *mode_args]))
            scen.append((f"load-missing-module-config-{mode_name}", '[tool.refurb]\nload = ["no_such_plugin_module"]\n', mode_args))
        for name, text, extra in scen:
            cfgp = Path(td) / "pyproject.toml"
            if cfgp.exists():
                cfgp.unlink()
            if text is not None:
                cfgp.write_bytes(text if isinstance(text, bytes) else text.encode())
            rc, out, err = L.cli([str(f), *extra], cwd=td)
            lines = [l for l in out.splitlines() if l.strip()]
            clean = rc == 1 and "Traceback" not in out + err and len(lines) == 1 and lines[0].startswith("refurb: ")
            if name in ("cli-empty-arg",) and rc == 1 and len(lines) == 1:
                clean = True
            ctx.case(("cli-fail", name), sample={"scenario": name, "rc": rc, "out": out.strip()[:120]})
            ctx.count("cli-malformed")
            if not clean:
                last = (err.strip().splitlines() or out.strip().splitlines() or ["?"])[-1]
                ctx.report(f"unclean-failure:{name}", f"scenario {name}: exit {rc}, output {out.strip()[:100]!r} / {last[:120]}",
                           {"config": text if not isinstance(text, bytes) else repr(text), "argv": extra, "rc": rc, "stdout": out[-800:], "stderr": err[-1500:]})
