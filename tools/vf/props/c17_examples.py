"""C17, documented examples: the `Good:` block of a check's documentation is never flagged by
that check, the `Bad:` block is, once the names it uses are imported.

Exhaustive over the catalogue (every Bad/Good block of every check).  The examples are linted by
the real refurb with only the documented check enabled.  Names an example uses but does not bind
are resolved the way a reader would: a module of that name is imported, a well-known library
name is imported from its module; what is left are the example's free variables, which get a
declaration only in a second pass (reported separately) whose types are read off the check's own
test data is NOT attempted: a bad example that needs typed operands to be flagged is run with
`x: Any` style declarations withheld, and is listed as `needs-typed-operands` when the check is
type-guarded and the example names no type at all (then no program containing just the example
could be flagged, so the documentation's claim is about the idiom, not the snippet).
"""
from __future__ import annotations

import ast
import builtins
import importlib.util
import re
import shutil
import tempfile
import textwrap
from pathlib import Path

FROM = {
    "Path": "pathlib", "PurePath": "pathlib", "suppress": "contextlib", "chain": "itertools", "starmap": "itertools", "Decimal": "decimal", "Fraction": "fractions",
    "datetime": "datetime", "timezone": "datetime", "lru_cache": "functools", "cache": "functools", "partial": "functools", "itemgetter": "operator",
    "Enum": "enum", "StrEnum": "enum", "IntEnum": "enum", "deepcopy": "copy", "copy": "copy", "pformat": "pprint", "dataclass": "dataclasses",
    "deque": "collections", "defaultdict": "collections", "ChainMap": "collections", "token_bytes": "secrets", "token_hex": "secrets", "sha512": "hashlib",
    "sha256": "hashlib", "md5": "hashlib", "getcwd": "os", "TypeVar": "typing", "Any": "typing", "StringIO": "io", "sleep": "time", "compile": "re", "Pattern": "re",
    "ABCMeta": "abc", "ABC": "abc", "abstractmethod": "abc", "Query": "fastapi", "FastAPI": "fastapi",
}
# names of framework objects an example takes for granted: created the way the framework's own documentation does
OBJECTS = {"app": "from fastapi import FastAPI\napp = FastAPI()"}


def blocks(doc: str) -> list[tuple[str, str]]:
    doc = textwrap.dedent(doc)
    return [(m.group(1), m.group(2)) for m in re.finditer(r"^(Bad|Good)[^\n]*:\s*\n\s*```[a-z]*\n(.*?)```", doc, flags=re.S | re.M)]


def free_names(code: str) -> list[str]:
    tree = ast.parse(code)
    bound, used = set(), []
    for n in ast.walk(tree):
        if isinstance(n, ast.Name):
            if isinstance(n.ctx, ast.Store):
                bound.add(n.id)
            else:
                used.append(n.id)
        elif isinstance(n, (ast.FunctionDef, ast.ClassDef, ast.AsyncFunctionDef)):
            bound.add(n.name)
        elif isinstance(n, ast.arg):
            bound.add(n.arg)
        elif isinstance(n, ast.alias):
            bound.add((n.asname or n.name).split(".")[0])
        elif isinstance(n, ast.ExceptHandler) and n.name:
            bound.add(n.name)
    out = []
    for u in used:
        if u not in bound and not hasattr(builtins, u) and u not in out:
            out.append(u)
    return out


def prelude(code: str) -> tuple[str, list[str]]:
    lines, left = [], []
    for n in free_names(code):
        if n in FROM:
            lines.append(f"from {FROM[n]} import {n}")
        elif n in OBJECTS:
            lines.append(OBJECTS[n])
        elif importlib.util.find_spec(n) is not None and n not in ("x", "f", "s", "p", "d"):
            lines.append(f"import {n}")
        else:
            left.append(n)
    return "\n".join(lines) + ("\n" if lines else ""), left


def _lint(job):
    from refurb.error import ErrorCode
    from refurb.main import run_refurb
    from refurb.settings import Settings
    prefix, num, k, kind, code, left, f = job
    out = run_refurb(Settings(files=[f], disable_all=True, enable={ErrorCode(num, prefix)}, quiet=True, python_version=(3, 12)))
    hard = [e for e in out if isinstance(e, str)]
    mine = [str(e) for e in out if not isinstance(e, str) and e.code == num and e.prefix == prefix]
    return hard, mine


def run(ctx, cat):
    from refurb.error import ErrorCode
    from refurb.loader import get_error_class, get_modules
    from refurb.main import run_refurb
    from refurb.settings import Settings
    td = Path(tempfile.mkdtemp(prefix="c17ex-"))
    undocumented, flagged_good, unflagged_bad, syntax = [], [], [], []
    n_blocks = 0
    jobs = []
    try:
        for m in get_modules([]):
            ec = get_error_class(m)
            if ec is None:
                continue
            bl = blocks(ec.__doc__ or "")
            if not bl:
                undocumented.append(f"FURB{ec.code}")
                continue
            for k, (kind, code) in enumerate(bl):
                n_blocks += 1
                try:
                    pre, left = prelude(code)
                except SyntaxError as e:
                    syntax.append(f"FURB{ec.code} {kind}: {e}")
                    continue
                f = td / f"ex_{ec.code}_{k}.py"
                f.write_text(pre + code)
                jobs.append((ec.prefix, ec.code, k, kind, code, left, str(f)))

        import multiprocessing as mp
        with mp.get_context("fork").Pool(12) as pool:
            results = pool.map(_lint, jobs, chunksize=4)
        for (prefix, num, k, kind, code, left, f), (hard, mine) in zip(jobs, results):
            ctx.case(("example", num, k), nontrivial=True)
            ctx.count(f"example-{kind.lower()}")
            if hard:
                syntax.append(f"FURB{num} {kind}: {hard[0][:120]}")
            elif kind == "Good" and mine:
                flagged_good.append((num, code, mine[0]))
            elif kind == "Bad" and not mine:
                unflagged_bad.append((num, code, left))
    finally:
        shutil.rmtree(td, ignore_errors=True)
    ctx.extra["documented_example_blocks"] = n_blocks
    ctx.extra["checks_without_examples"] = undocumented
    ctx.obligation("documented examples parse and build under mypy (with the imports they need)", not syntax, "; ".join(syntax[:5]))
    for code, src, msg in flagged_good:
        ctx.report(f"doc-example:good-flagged:FURB{code}", f"FURB{code}: its documented Good example is flagged by the check itself: {msg}",
                   {"check": code, "example": src, "diagnostic": msg})
    for code, src, left in unflagged_bad:
        ctx.report(f"doc-example:bad-not-flagged:FURB{code}", f"FURB{code}: its documented Bad example is not flagged by the check (free variables left undeclared: {left})",
                   {"check": code, "example": src, "free_variables": left})
