def run(ctx, cat):
    pass
