"""C13 — report contract: one line per diagnostic, formats agree, exit 1 iff any."""
from __future__ import annotations

import ast
import copy
import glob
import os
import re
import tempfile
from pathlib import Path

from .. import coq
from ..core import REPO, Ctx
from ..harness import lint as L

S = coq.coq_str
MSG_PARTS = ["Replace ", "`x`", " with ", "`y`", "`", "``", "%s", "%", "\\1", "\\g<1>", "'q'", '"d"', "é", "中", "😀", " ", "a`b", "100%",
             "{}", "::", ",", "=", "[FURB1]", ":", "\t"]
ANSI = re.compile(r"\x1b\[[0-9;]*m")


def coq_err(e) -> str:
    return ("{| e_file := %s; e_line := %d%%N; e_col := %d%%N; e_prefix := %s; e_code := %d%%N; e_msg := %s |}"
            % (S(e.filename), e.line, e.column, S(e.prefix), e.code, S(e.msg)))


def printed_name(filename: str, cwd: str) -> str:
    """the file as the GitHub annotation names it: relative to the working directory when it lies at or below it (by path
    components), otherwise its absolute path"""
    p = os.path.realpath(os.path.join(cwd, filename))
    c = os.path.realpath(cwd)
    return os.path.relpath(p, c) if p == c or p.startswith(c.rstrip("/") + "/") else p


def make_error(rng, cwd: str):
    from refurb.error import Error
    prefix = rng.choice(["FURB", "FURB", "ABC", "WXYZ"])
    code = rng.choice([100, 123, 999, 188, 7, 42, 0, 1000, 12345])      # plugin codes need not have three digits
    cls = type("ErrorInfo", (Error,), {"prefix": prefix, "code": code, "categories": ()})
    n = rng.choice([0, 1, 2, 3, 4, 4, 4, 5, 6])
    parts = []
    ticks = 0
    while ticks < n:
        p = rng.choice(MSG_PARTS)
        parts.append(p)
        ticks += p.count("`")
    if rng.random() < 0.5:
        parts.append(rng.choice(MSG_PARTS[:3] + MSG_PARTS[6:]))
    msg = "".join(parts) if sum(p.count("`") for p in parts) == n or rng.random() < 0.7 else "x"
    fname = os.path.join(cwd, rng.choice(["a.py", "pkg/mod.py", "dir with space/é.py", "x,y=z.py"]))
    if rng.random() < 0.3:
        # files outside the working directory (a sibling whose name begins like it, the parent, somewhere else) and relative spellings
        fname = rng.choice([cwd + "-old/pkg/a.py", cwd + "2/b.py", cwd + ".bak/c.py", os.path.join(os.path.dirname(cwd), "up.py"), "/elsewhere/d.py",
                            "rel.py", "./pkg/rel.py", "pkg/../rel2.py"])
    return cls(line=rng.choice([1, 7, 120, 99999]), column=rng.choice([0, 3, 79, 200]), msg=msg, filename=fname)


def run(ctx: Ctx) -> None:
    ctx.trusted_base += [
        "Coq 8.16.1 kernel",
        "Lib/Render.v: hand-written model of Error.__str__, format_with_color, format_as_github_annotation, format_errors and the exit status; tied by the correspondence below",
    ]
    ctx.assumptions += ["theorems assume file name, prefix and message free of ESC and line breaks (`safe`); that messages are is decided by the search"]
    ctx.rule("generated Error objects (0-6 back-ticks, %, \\\\1, quotes, non-ASCII; 4 file shapes) under every format x quiet combination; "
             "CLI runs under every --format/--quiet/--sort combination; string-literal perturbation of test/data; distinct by rendered text")
    gens, order = {}, ["C13"]
    try:
        from ..core import REPO
        from ..translate.report import translate as translate_report
        gens["GenFormat"] = translate_report(REPO)
        order += ["GenFormat", "C13Format"]
    except Exception as e:  # noqa: BLE001
        ctx.obligation("translate format_errors and the exit status (refurb/main.py)", False, f"{type(e).__name__}: {e}")
    b = coq.compile_props(ctx, gens, order)
    coq.record_build(ctx, b)
    from refurb import main as rmain
    from refurb.settings import Settings
    rng = ctx.rng
    cwd = os.getcwd()
    errs = [make_error(rng, cwd) for _ in range(ctx.budget(400, 8000))]
    rows = []
    for e in errs:
        plain = str(e)
        col = rmain.format_with_color(copy.copy(e))
        try:
            gh = rmain.format_as_github_annotation(e)
        except Exception as ex:  # noqa: BLE001
            gh = f"<{type(ex).__name__}>"
        rel = printed_name(e.filename, cwd)
        rows.append((e, plain, col, gh, rel))
        ctx.case(("err", plain), nontrivial="`" in e.msg, sample={"plain": plain} if rng.random() < 0.01 else None)
        ctx.count(f"backticks={e.msg.count('`')}")
        # the property's own oracle on the real renderers
        if ANSI.sub("", col) != plain:
            ctx.report("color-changes-text", f"colour rendering minus escapes differs from the plain line for message {e.msg!r}",
                       {"message": e.msg, "plain": plain, "colour": col})
        for name, text in (("plain", plain), ("colour", col), ("github", gh)):
            if "\n" in text:
                ctx.report(f"multi-line:{name}", f"{name} rendering spans lines: {text!r}", {"message": e.msg})
        m = re.fullmatch(r"::error line=(\d+),col=(\d+),title=Refurb (\w+),file=(.*?)::(.*)", gh, flags=re.S)
        p = re.fullmatch(r"(.*?):(\d+):(\d+) \[(\w+)\]: (.*)", plain, flags=re.S)
        if not m or not p or (m.group(1), m.group(2), m.group(3), m.group(5)) != (p.group(2), p.group(3), p.group(4), p.group(5)) \
                or os.path.normpath(os.path.join(cwd, m.group(4))) != os.path.normpath(os.path.join(cwd, p.group(1))):
            ctx.report("formats-disagree", f"plain and github renderings carry different fields: {plain!r} / {gh!r}", {"plain": plain, "github": gh})
    # format_errors: hint / order / exit
    reports = []
    for _ in range(ctx.budget(60, 600)):
        items = [rng.choice(errs) if rng.random() < 0.8 else rng.choice(["refurb: oops", "x.py:1: error: bad  [syntax]"]) for _ in range(rng.randrange(0, 4))]
        by_combo = {}
        for fmt, color in (("text", False), ("text", True), ("github", False), ("github", True)):
            for quiet in (False, True):
                st = Settings(format=fmt, quiet=quiet)
                st.color = color
                out = rmain.format_errors([copy.copy(x) if not isinstance(x, str) else x for x in items], st)
                reports.append((items, fmt, color, quiet, out))
                by_combo[fmt, color, quiet] = out
                has_err = any(not isinstance(x, str) for x in items)
                hint = out.endswith("Use `--quiet` to silence this message")
                ctx.count("format_errors")
                if hint != (has_err and not quiet):
                    ctx.report("hint-condition", f"--explain hint {'present' if hint else 'absent'} with quiet={quiet}, diagnostics={has_err}", {"format": fmt, "quiet": quiet})
        # the same report under every format/colour combination: colour only adds escapes to the text format and
        # leaves the GitHub annotations alone
        for quiet in (False, True):
            if by_combo["github", True, quiet] != by_combo["github", False, quiet]:
                ctx.report("formats-disagree:github-with-colour", "--format github prints different annotations when colour is on", {
                    "messages": [x if isinstance(x, str) else x.msg for x in items], "colour_on": by_combo["github", True, quiet][:600], "colour_off": by_combo["github", False, quiet][:600]})
            if re.sub(r"\x1b\[[0-9;]*m", "", by_combo["text", True, quiet]) != re.sub(r"\x1b\[[0-9;]*m", "", by_combo["text", False, quiet]):
                ctx.report("color-changes-text:report", "the coloured report minus its escape sequences is not the plain report", {
                    "messages": [x if isinstance(x, str) else x.msg for x in items], "colour_on": by_combo["text", True, quiet][:600], "colour_off": by_combo["text", False, quiet][:600]})
    # ---- correspondence with the Coq model
    if b.files.get("C13", {}).get("rc") == 0:
        hdr = ("From Lib Require Import Base Render.\nOpen Scope list_scope.\nSet Printing Width 100000.\n"
               "Definition chk (c : err * string * string * string * string) : bool := let '(e, p, co, gh, rel) := c in\n"
               "  String.eqb (plain e) p && String.eqb (color e) co && String.eqb (github rel e) gh.\n"
               "Definition fm (n : nat) := match n with 0 => FPlain | 1 => FColor | _ => FGithub end.\n"
               "Definition chk2 (c : list item * nat * bool * string) : bool := let '(its, f, q, out) := c in\n"
               "  String.eqb (format_errors (fm f) (fun s => s) q its) out.\n")
        shards = []
        per = 200
        for i in range(0, len(rows), per):
            body = "Definition cs := [\n" + ";\n".join(f"({coq_err(e)}, {S(p)}, {S(c)}, {S(g)}, {S(r)})" for e, p, c, g, r in rows[i:i + per]) + "].\n" \
                   "Eval vm_compute in (fix go i l := match l with [] => [] | c :: t => if chk c then go (S i) t else i :: go (S i) t end) 0 cs.\n"
            shards.append(body)
        n1 = len(shards)
        for i in range(0, len(reports), per):
            rws = []
            for items, fmt, color, quiet, out in reports[i:i + per]:
                its = []
                for x in items:
                    if isinstance(x, str):
                        its.append(f"IStr {S(x)}")
                    else:
                        # the model takes the file name the renderer prints (github: relative to cwd)
                        e2 = copy.copy(x)
                        if fmt == "github":
                            e2.filename = printed_name(x.filename, cwd)
                        its.append(f"IErr {coq_err(e2)}")
                f = 2 if fmt == "github" else 1 if color else 0
                rws.append(f"({coq.coq_list(its)}, {f}, {coq.coq_bool(quiet)}, {S(out)})")
            shards.append("Definition cs := [\n" + ";\n".join(rws) + "].\n"
                          "Eval vm_compute in (fix go i l := match l with [] => [] | c :: t => if chk2 c then go (S i) t else i :: go (S i) t end) 0 cs.\n")
        res = coq.eval_shards(ctx, "render", hdr, shards, timeout=900)
        mism = []
        for si, (rc, out, err) in enumerate(res):
            vals = coq.parse_eval_values(out)
            if rc != 0 or not vals:
                mism.append(f"shard {si}: coqc failed: {err[-300:]}")
                continue
            for j in [int(x) for x in vals[0].strip("[]").split(";") if x.strip()][:3]:
                mism.append(repr(rows[si * per + j][1]) if si < n1 else f"format_errors case {reports[(si - n1) * per + j][1:4]}")
        ctx.obligation("correspondence: Lib/Render.v plain/color/github/format_errors = the real renderers on every generated error and report",
                       not mism, "; ".join(mism[:5]))
    cli_matrix(ctx)
    options_from_the_config_file(ctx)
    perturb(ctx)
    ctx.resolve_broken({"translate format_errors and the exit status (refurb/main.py)": ("formats-disagree", "hint-condition", "exit-status", "color-changes-text"),
                        "format_errors_translated_is_the_model": ("formats-disagree", "hint-condition", "color-changes-text"), "github_format_ignores_colour": ("formats-disagree",),
                        "exit_translated_is_the_model": ("exit-status",), "color_only_adds_escapes": "color-changes-text", "one_line": "multi-line", "hint_iff": "hint-condition",
                        "correspondence: Lib/Render.v plain/color/github/format_errors = the real renderers on every generated error and report": ("formats-disagree", "color-changes-text", "hint-condition", "multi-line", "exit-status")}, b.first_error)


def cli_matrix(ctx: Ctx) -> None:
    """Every --format x --quiet x --sort through the real CLI, files inside and outside the cwd."""
    with tempfile.TemporaryDirectory(prefix="c13-") as td, tempfile.TemporaryDirectory(prefix="c13out-") as outside:
        a = Path(td) / "a.py"
        a.write_text("x = int(0)\ny = str('')\nprint('')\n")
        (Path(td) / "sub").mkdir()
        bfile = Path(td) / "sub" / "b.py"
        bfile.write_text("z = not not 1\nw = int(0)\n")
        clean = Path(td) / "clean.py"
        clean.write_text("x = 1\n")
        o = Path(outside) / "o.py"
        o.write_text("x = int(0)\n")
        base = {}
        syn = Path(td) / "syn.py"
        syn.write_text("def f(:\n    pass\n")
        semerr = Path(td) / "dup_mod" / "a.py"
        semerr.parent.mkdir()
        semerr.write_text("x = 1\n")
        # reports that are plain lines rather than diagnostics: a blocking Mypy error that carries a file
        # location, Mypy refusing two files of one module name, the --debug tree dump, a refused setting
        for files, tag in (([str(a), str(bfile)], "in-cwd"), ([str(clean)], "clean"), ([str(o)], "outside-cwd"),
                           ([str(a), str(Path(td) / "missing.py")], "with-missing"), ([str(syn)], "syntax-error"), ([str(a), str(syn)], "diag+syntax-error"),
                           ([str(a), str(semerr)], "duplicate-module"), ([str(clean), "--debug"], "debug-clean"), ([str(clean), "--enable", "nonsense"], "bad-setting"),
                           ([str(clean), "--python-version", "3.x"], "bad-version")):
            for fmt in ("text", "github"):
                for quiet in (False, True):
                    for sort in ("filename", "error"):
                        argv = [*files, "--format", fmt, "--sort", sort] + (["--quiet"] if quiet else [])
                        rc, out, err = L.cli(argv, cwd=td)
                        ctx.case(("cli", tag, fmt, quiet, sort), sample={"argv": argv[len(files):], "rc": rc, "lines": len(out.splitlines())})
                        ctx.count("cli-matrix")
                        if not L.clean_verdict(rc, out, err):
                            ctx.report(f"crash:{tag}:{fmt}", f"{tag} files with --format {fmt}: exit {rc}: " + (err.strip().splitlines() or ["?"])[-1][:150],
                                       {"argv": argv, "rc": rc, "stderr": err[-1200:]})
                            continue
                        lines = out.splitlines()
                        hint = any("refurb --explain ERR" in l for l in lines)
                        diag = [l for l in lines if l.strip() and "refurb --explain ERR" not in l]
                        has_error_obj = any(re.search(r"\[[A-Z]+\d+\]|title=Refurb [A-Z]+\d", l) for l in diag)
                        if (rc == 1) != bool(diag):
                            ctx.report("exit-status", f"exit status {rc} with {len(diag)} reported lines ({tag}, {fmt})", {"argv": argv, "stdout": out})
                        if hint != (has_error_obj and not quiet):
                            ctx.report("hint-condition", f"hint {'shown' if hint else 'missing'} with quiet={quiet} and diagnostics={has_error_obj}", {"argv": argv, "stdout": out})
                        # same diagnostics, same order, across formats
                        fields = []
                        for l in diag:
                            m = re.fullmatch(r"::error line=(\d+),col=(\d+),title=Refurb (\w+),file=(.*?)::(.*)", l)
                            p = re.fullmatch(r"(.*?):(\d+):(\d+) \[(\w+)\]: (.*)", l)
                            if m:
                                fields.append((os.path.normpath(os.path.join(td, m.group(4))), m.group(1), m.group(2), m.group(3), m.group(5)))
                            elif p:
                                fields.append((os.path.normpath(p.group(1)), p.group(2), p.group(3), p.group(4), p.group(5)))
                            else:
                                fields.append(("str", l.replace("::error title=Refurb Error::", "")))
                        key = (tag, quiet, sort)
                        if key in base and base[key] != fields:
                            ctx.report("formats-disagree", f"text and github runs list different diagnostics ({tag}, sort={sort})",
                                       {"argv": argv, "text": base[key][:4], "github": fields[:4]})
                        base.setdefault(key, fields)


def options_from_the_config_file(ctx: Ctx) -> None:
    """quiet / format / sort given in [tool.refurb] instead of on the command line, beside unrelated command-line options
    (all-switches, enable, ignore, verbose): the report obeys them exactly as when they are given on the command line."""
    from concurrent.futures import ThreadPoolExecutor
    others = [(), ("--enable-all",), ("--disable-all", "--enable", "FURB123"), ("--ignore", "FURB105"), ("--verbose",), ("--enable", "FURB120"), ("--disable", "FURB105")]
    jobs = [(quiet, fmt, other, where) for quiet in (True, False) for fmt in ("text", "github") for other in others for where in ("command-line", "config-file")]

    def one(job):
        quiet, fmt, other, where = job
        with tempfile.TemporaryDirectory(prefix="c13c-") as td:
            (Path(td) / "a.py").write_text("x = int(0)\ny = str('')\nprint('')\n")
            cfg = "[tool.refurb]\n" + (f'quiet = {str(quiet).lower()}\nformat = "{fmt}"\nsort_by = "error"\n' if where == "config-file" else "")
            (Path(td) / "pyproject.toml").write_text(cfg)
            argv = ["a.py", *other] + ((["--quiet"] if quiet else []) + ["--format", fmt, "--sort", "error"] if where == "command-line" else [])
            rc, out, err = L.cli(argv, cwd=td)
        return job, (rc, [l for l in out.splitlines() if not l.startswith("Enabled checks")], argv, cfg)

    with ThreadPoolExecutor(max_workers=10) as ex:
        res = dict(ex.map(one, jobs))
    for quiet in (True, False):
        for fmt in ("text", "github"):
            for other in others:
                (rc1, l1, argv1, _), (rc2, l2, argv2, cfg2) = res[(quiet, fmt, other, "command-line")], res[(quiet, fmt, other, "config-file")]
                for where in ("command-line", "config-file"):
                    ctx.case(("options-source", where, quiet, fmt, tuple(other)), nontrivial=True)
                    ctx.count("options-from-" + where)
                if (rc1, l1) != (rc2, l2):
                    hint2 = any("refurb --explain ERR" in l for l in l2)
                    ctx.report("hint-condition:config-file" if hint2 != any("refurb --explain ERR" in l for l in l1) else "formats-disagree:config-file",
                               f"quiet={quiet}, format={fmt} given in [tool.refurb] beside {list(other) or 'no other option'} print a different report than the same options on the command line",
                               {"command_line": argv1, "config_file_run": argv2, "pyproject.toml": cfg2, "stdout_command_line": l1[-6:], "stdout_config_file": l2[-6:], "status": [rc1, rc2]})


class Perturb(ast.NodeTransformer):
    def __init__(self, inject: str):
        self.inject = inject

    def visit_Constant(self, n):
        if isinstance(n.value, str) and n.value and len(n.value) < 40:
            return ast.copy_location(ast.Constant(value=n.value + self.inject), n)
        return n

    def visit_JoinedStr(self, n):
        return n


def perturb(ctx: Ctx) -> None:
    """Inject a line break / back-ticks / ESC into every short string literal of the test
    data and require every diagnostic to stay one line (and colour to stay removable)."""
    from refurb import main as rmain
    from refurb.main import run_refurb
    from refurb.settings import Settings
    seeds = sorted(glob.glob(str(REPO / "test" / "data" / "err_*.py")))
    ctx.rng.shuffle(seeds)
    seeds = seeds[: ctx.budget(93, 93)]
    with tempfile.TemporaryDirectory(prefix="c13p-") as td:
        files = []
        for inj, tag in (("\n", "nl"), ("`q`", "tick"), ("\r", "cr")):
            for sp in seeds:
                try:
                    tree = Perturb(inj).visit(ast.parse(Path(sp).read_text()))
                    src = ast.unparse(ast.fix_missing_locations(tree))
                    import warnings
                    with warnings.catch_warnings():
                        warnings.simplefilter("ignore")
                        compile(src, "p", "exec")
                except Exception:  # noqa: BLE001
                    continue
                p = Path(td) / f"{tag}_{Path(sp).name}"
                p.write_text(src)
                files.append(str(p))
        out = run_refurb(Settings(files=files, enable_all=True, quiet=True))
        n = 0
        for e in out:
            if isinstance(e, str):
                continue
            n += 1
            ctx.case(("perturbed", e.code, e.msg), nontrivial=True)
            if "\n" in e.msg or "\r" in e.msg:
                src_line = Path(e.filename).read_text().splitlines()[e.line - 1] if e.line else ""
                ctx.report(f"multi-line-message:FURB{e.code}", f"FURB{e.code} message contains a line break: {e.msg!r}",
                           {"file": Path(e.filename).name, "line": e.line, "source_line": src_line, "message": e.msg})
            col = rmain.format_with_color(copy.copy(e))
            if ANSI.sub("", col) != str(e):
                ctx.report("color-changes-text", f"colour rendering minus escapes differs from the plain line: {e.msg!r}", {"message": e.msg})
        ctx.count("perturbed-diagnostics", n)
