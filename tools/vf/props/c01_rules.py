"""C01 rule table: one executable instance (or several) of the idiom each check recognises.

Every rule gives typed operands, the original code (`lhs`) written with the same operand
names the diagnostic uses for its placeholders, and how it is evaluated.  The replacement
is NOT written here: it is taken from the diagnostic refurb actually prints (the text
between the second pair of back-ticks); `rhs` is only given where the message quotes a
partial fragment that cannot stand alone, and then `msg` pins the expected message.
"""
from __future__ import annotations

from dataclasses import dataclass, field


@dataclass
class Rule:
    code: int
    lhs: str                                   # expression (mode="expr") or statements (mode="stmt")
    params: dict[str, str]                     # operand name -> type tag (see VALUES in c01.py)
    mode: str = "expr"
    setup: str = ""                            # module-level code: imports, helper definitions
    rhs: str | None = None                     # explicit replacement when the message is a partial fragment
    msg: str | None = None                     # expected message (substring) when rhs is explicit
    annot: dict[str, str] = field(default_factory=dict)   # type annotations for the lint program, default from tag
    cls: str = "P"                             # P = pure fragment, L = library equivalence, S = statement/state
    fs: bool = False                           # runs inside a scratch directory
    note: str = ""


R = Rule
RULES: list[Rule] = [
    # ---- logical / comparison
    R(108, "x == y or x == z", {"x": "int", "y": "int", "z": "int"}),
    R(108, "x == y or x == z", {"x": "float", "y": "float", "z": "float"}),
    R(108, "x == y or x == z", {"x": "str", "y": "str", "z": "str"}),
    R(109, "x in [y, z, w]", {"x": "int", "y": "int", "z": "int", "w": "int"}, rhs="x in (y, z, w)", msg="Replace `in [x, y, z]` with `in (x, y, z)`"),
    R(109, "x not in [y, z, w]", {"x": "float", "y": "float", "z": "float", "w": "float"}, rhs="x not in (y, z, w)", msg="Replace `not in [x, y, z]` with `not in (x, y, z)`"),
    R(110, "x if x else y", {"x": "int", "y": "int"}),
    R(110, "x if x else y", {"x": "list_int", "y": "list_int"}),
    R(110, "x if x else y", {"x": "float", "y": "float"}),
    R(110, "x if x else y", {"x": "str", "y": "str"}),
    R(114, "not not x", {"x": "int"}),
    R(114, "not not x", {"x": "list_int"}),
    R(114, "not not x", {"x": "float"}),
    R(124, "x == y and x == z", {"x": "int", "y": "int", "z": "int"}),
    R(124, "x == y and x == z", {"x": "float", "y": "float", "z": "float"}),
    R(124, "x == y and y == z", {"x": "str", "y": "str", "z": "str"}),
    R(136, "x if x < y else y", {"x": "int", "y": "int"}),
    R(136, "x if x < y else y", {"x": "float", "y": "float"}),
    R(136, "x if x > y else y", {"x": "float", "y": "float"}),
    R(136, "x if x <= y else y", {"x": "int", "y": "int"}),
    R(136, "y if x > y else x", {"x": "str", "y": "str"}),
    R(149, "b is True", {"b": "bool"}),
    R(149, "b is False", {"b": "bool"}),
    R(149, "b is not True", {"b": "bool"}),
    R(149, "b == True", {"b": "bool"}),
    R(149, "b != False", {"b": "bool"}),
    R(168, "isinstance(x, type(None))", {"x": "opt_int"}),
    R(169, "type(x) is type(None)", {"x": "opt_int"}),
    R(169, "type(x) == type(None)", {"x": "opt_int"}),
    R(169, "type(x) is not type(None)", {"x": "opt_int"}),
    R(171, "x in (y,)", {"x": "int", "y": "int"}, note="message is concrete"),
    R(171, "x in (y,)", {"x": "float", "y": "float"}),
    R(171, "x in [y]", {"x": "str", "y": "str"}),
    R(171, "x not in {y}", {"x": "int", "y": "int"}),
    R(191, "b in {True, False}", {"b": "bool"}),
    R(191, "b in [True, False]", {"b": "bool"}),
    R(191, "b in {True, False}", {"b": "int"}),
    R(191, "b is True or b is False", {"b": "opt_bool"}),
    R(130, "x in d.keys()", {"x": "str", "d": "dict_str_int"}, rhs="x in d", msg="Replace `in d.keys()` with `in d`"),
    R(130, "x not in d.keys()", {"x": "str", "d": "dict_str_int"}, rhs="x not in d", msg="Replace `not in d.keys()` with `not in d`"),
    R(143, "l or []", {"l": "list_int"}),
    R(143, "s or ''", {"s": "str"}),
    R(143, "x or 0", {"x": "int"}),
    R(143, "x or 0.0", {"x": "float"}),
    R(143, "d or {}", {"d": "dict_str_int"}),
    R(143, "t or ()", {"t": "tuple_int"}),
    R(143, "b or False", {"b": "bool"}),
    # ---- builtin
    R(102, "x.startswith(y) or x.startswith(z)", {"x": "str", "y": "str", "z": "str"}),
    R(102, "x.endswith(y) or x.endswith(z)", {"x": "str", "y": "str", "z": "str"}),
    R(102, "not x.startswith(y) and not x.startswith(z)", {"x": "str", "y": "str", "z": "str"}),
    R(105, "print('')", {}, cls="S", mode="stmt"),
    R(111, "list(map(lambda x: f(x), xs))", {"xs": "list_int"}, setup="def f(a):\n    return a * 2\n", note="lambda x: f(x) -> f"),
    R(111, "sorted(xs, key=lambda x: abs(x))", {"xs": "list_int"}),
    R(112, "list()", {}),
    R(112, "dict()", {}),
    R(112, "tuple()", {}),
    R(112, "str()", {}),
    R(112, "int()", {}),
    R(112, "float()", {}),
    R(112, "bool()", {}),
    R(112, "bytes()", {}),
    R(113, "nums.append(a)\nnums.append(b)", {"nums": "list_int", "a": "int", "b": "int"}, mode="stmt", cls="S",
      rhs="nums.extend((a, b))", msg="Replace `nums.append(...); nums.append(...)` with `nums.extend((..., ...))`"),
    R(115, "len(nums) == 0", {"nums": "list_int"}, mode="cond"),
    R(115, "len(nums) >= 1", {"nums": "list_int"}, mode="cond"),
    R(115, "len(d) != 0", {"d": "dict_str_int"}, mode="cond"),
    R(115, "len(s) > 0", {"s": "str"}, mode="cond"),
    R(115, "len(t) == 0", {"t": "tuple_int"}, mode="cond"),
    R(116, "bin(n)[2:]", {"n": "nat"}),
    R(116, "oct(n)[2:]", {"n": "nat"}),
    R(116, "hex(n)[2:]", {"n": "nat"}),
    R(116, "bin(n)[2:]", {"n": "int"}),
    R(118, "sorted(ps, key=lambda x: x[0])", {"ps": "list_pair"}, note="lambda x: x[0] -> operator.itemgetter(0)"),
    R(118, "list(map(lambda x, y: x + y, xs, ys))", {"xs": "list_int", "ys": "list_int"}),
    R(118, "list(map(lambda x: -x, xs))", {"xs": "list_int"}),
    R(118, "list(map(lambda x: not x, xs))", {"xs": "list_int"}),
    R(123, "int(x)", {"x": "int"}),
    R(123, "str(s)", {"s": "str"}),
    R(123, "list(nums)", {"nums": "list_int"}),
    R(123, "dict(d)", {"d": "dict_str_int"}),
    R(123, "set(st)", {"st": "set_int"}),
    R(123, "float(x)", {"x": "float"}),
    R(123, "tuple(t)", {"t": "tuple_int"}),
    R(123, "bool(b)", {"b": "bool"}),
    R(123, "bytes(bs)", {"bs": "bytes"}),
    R(131, "del nums[:]", {"nums": "list_int"}, mode="stmt", cls="S"),
    R(131, "nums[:] = []", {"nums": "list_int"}, mode="stmt", cls="S"),
    R(132, "if x in s:\n    s.remove(x)", {"s": "set_int", "x": "int"}, mode="stmt", cls="S"),
    R(142, "for x in xs:\n    s.add(x)", {"s": "set_int", "xs": "list_int"}, mode="stmt", cls="S"),
    R(142, "for x in xs:\n    s.discard(x)", {"s": "set_int", "xs": "list_int"}, mode="stmt", cls="S"),
    R(145, "nums[:]", {"nums": "list_int"}),
    R(145, "bs[:]", {"bs": "bytearray"}),
    R(148, "for index, _ in enumerate(nums):\n    out.append(index)", {"nums": "list_int", "out": "empty_list"}, mode="stmt", cls="S",
      rhs="for index in range(len(nums)):\n    out.append(index)", msg="Value is unused, use `for index in range(len(nums))` instead"),
    R(148, "for _, num in enumerate(nums):\n    out.append(num)", {"nums": "list_int", "out": "empty_list"}, mode="stmt", cls="S",
      rhs="for num in nums:\n    out.append(num)", msg="Index is unused, use `for num in nums` instead"),
    R(135, "for k, _ in d.items():\n    out.append(k)", {"d": "dict_str_int", "out": "empty_list"}, mode="stmt", cls="S",
      rhs="for k in d:\n    out.append(k)", msg="Value is unused, use `for k in d` instead"),
    R(135, "for _, v in d.items():\n    out.append(v)", {"d": "dict_str_int", "out": "empty_list"}, mode="stmt", cls="S",
      rhs="for v in d.values():\n    out.append(v)", msg="Key is unused, use `for v in d.values()` instead"),
    R(161, "bin(n).count('1')", {"n": "nat"}),
    R(161, "bin(n).count('1')", {"n": "int"}),
    R(166, "int(s[2:], 2)", {"s": "binstr"}),
    R(166, "int(s[2:], 16)", {"s": "hexstr"}),
    R(186, "l = sorted(l)", {"l": "list_int"}, mode="stmt", cls="S"),
    R(186, "l = sorted(l, reverse=True)", {"l": "list_int"}, mode="stmt", cls="S"),
    R(187, "l = l[::-1]", {"l": "list_int"}, mode="stmt", cls="S"),
    R(187, "l = list(reversed(l))", {"l": "list_int"}, mode="stmt", cls="S"),
    R(192, "sorted(l)[0]", {"l": "nonempty_list_int"}),
    R(192, "sorted(l)[-1]", {"l": "nonempty_list_int"}),
    R(192, "sorted(l, reverse=True)[0]", {"l": "nonempty_list_int"}),
    R(192, "sorted(l, reverse=True)[-1]", {"l": "nonempty_list_int"}),
    R(192, "sorted(l, key=len)[-1]", {"l": "nonempty_list_str"}),
    R(192, "sorted(l, key=len)[0]", {"l": "nonempty_list_str"}),
    R(192, "sorted(l)[-1]", {"l": "nonempty_list_float"}),
    R(192, "sorted(l)[0]", {"l": "nonempty_list_float"}),
    # ---- string
    R(119, "f'{str(x)}'", {"x": "int"}, rhs="f'{x}'", msg="Replace `{str(x)}` with `{x}`"),
    R(119, "f'{repr(s)}'", {"s": "str"}, rhs="f'{s!r}'", msg="Replace `{repr(s)}` with `{s!r}`"),
    R(119, "f'{bin(n)}'", {"n": "nat"}, rhs="f'{n:#b}'", msg="Replace `{bin(n)}` with `{n:#b}`"),
    R(139, "'''\nabc\n'''.lstrip()", {}, rhs="'''\\\nabc\n'''", msg='Replace `"""\\n...""".lstrip()` with `"""\\..."""`'),
    R(156, "c in '0123456789'", {"c": "char"}, setup="import string\n", rhs="c in string.digits", msg="Replace `0123456789` with `string.digits`"),
    R(159, "s.lstrip().rstrip()", {"s": "str"}),
    R(159, "s.strip().lstrip()", {"s": "str"}),
    R(183, "f'{x}'", {"x": "int"}),
    R(183, "f'{s}'", {"s": "str"}),
    R(188, "if filename.endswith('.txt'):\n    filename = filename[:-4]", {"filename": "str_fname"}, mode="stmt", cls="S"),
    R(188, "if filename.startswith('abc'):\n    filename = filename[3:]", {"filename": "str_fname"}, mode="stmt", cls="S"),
    R(188, "filename[:-4] if filename.endswith('.txt') else filename", {"filename": "str_fname"}),
    R(188, "filename[3:] if filename.startswith('abc') else filename", {"filename": "str_fname"}),
    R(188, "filename[len(s):] if filename.startswith(s) else filename", {"filename": "str_fname", "s": "str"}),
    R(188, "filename[:-len(s)] if filename.endswith(s) else filename", {"filename": "str_fname", "s": "str"}),
    R(188, "if filename.startswith(s):\n    filename = filename[len(s):]", {"filename": "str_fname", "s": "str"}, mode="stmt", cls="S"),
    R(190, "list(map(lambda x: x.upper(), ws))", {"ws": "list_str"}, note="lambda x: x.upper() -> str.upper"),
    # ---- iterable / itertools / dict
    R(129, "for line in f.readlines():\n    out.append(line)", {"out": "empty_list"}, mode="stmt", cls="S", setup="import io\n",
      annot={"f": "io.StringIO"}, note="needs a file object"),
    R(140, "[f(a, b) for a, b in ps]", {"ps": "list_pair"}, setup="from itertools import starmap\ndef f(a, b):\n    return a - b\n",
      rhs="list(starmap(f, ps))", msg="Replace `[f(...) for ... in x]` with `list(starmap(f, x))`"),
    R(173, "{**x, **y}", {"x": "dict_str_int", "y": "dict_str_int"}),
    R(173, "{'k': 1, **x}", {"x": "dict_str_int"}, rhs="{'k': 1} | x", msg="Replace `{..., **x}` with `{...} | x`"),
    R(179, "[c for row in rows for c in row]", {"rows": "list_list_int"}, setup="from itertools import chain\n",
      rhs="list(chain.from_iterable(rows))", msg="Replace `[... for ... in x for ... in ...]` with `list(chain.from_iterable(x))`"),
    R(185, "x.copy() | y", {"x": "dict_str_int", "y": "dict_str_int"}, rhs="x | y", msg="Replace `x.copy()` with `x`"),
    # ---- library equivalences (class L)
    R(104, "os.getcwd()", {}, setup="import os\nfrom pathlib import Path\n", cls="L", fs=True),
    R(141, "os.path.exists(p)", {"p": "fs_name"}, setup="import os\nfrom pathlib import Path\n", cls="L", fs=True),
    R(146, "os.path.isfile(p)", {"p": "fs_name"}, setup="import os\nfrom pathlib import Path\n", cls="L", fs=True),
    R(146, "os.path.isdir(p)", {"p": "fs_name"}, setup="import os\nfrom pathlib import Path\n", cls="L", fs=True),
    R(146, "os.path.isabs(p)", {"p": "fs_name"}, setup="import os\nfrom pathlib import Path\n", cls="L", fs=True),
    R(155, "os.path.getsize(p)", {"p": "fs_existing"}, setup="import os\nfrom pathlib import Path\n", cls="L", fs=True),
    R(144, "os.remove(p)", {"p": "fs_name"}, setup="import os\nfrom pathlib import Path\n", cls="L", fs=True, mode="stmt"),
    R(150, "os.mkdir(p)", {"p": "fs_name"}, setup="import os\nfrom pathlib import Path\n", cls="L", fs=True, mode="stmt"),
    R(117, "open(pp).read()", {"pp": "fs_path_existing"}, setup="from pathlib import Path\n", cls="L", fs=True, annot={"pp": "Path"}),
    R(153, "Path('.')", {}, setup="from pathlib import Path\n", cls="L", fs=True),
    R(177, "Path().resolve()", {}, setup="from pathlib import Path\n", cls="L", fs=True),
    R(172, "pp.name.endswith('.txt')", {"pp": "fs_path"}, setup="from pathlib import Path\n", cls="L", annot={"pp": "Path"}),
    R(100, "str(pp)[:-4] + '.md'", {"pp": "fs_path_txt"}, setup="from pathlib import Path\n", cls="L", annot={"pp": "Path"}),
    R(101, "with open(fn) as f:\n    y = f.read()", {"fn": "fs_existing"}, setup="from pathlib import Path\n", cls="L", fs=True, mode="stmt"),
    R(103, "with open(fn, 'w') as f:\n    f.write(s)", {"fn": "fs_name", "s": "str"}, setup="from pathlib import Path\n", cls="L", fs=True, mode="stmt"),
    R(152, "3.14 * r", {"r": "float"}, setup="import math\n", cls="L", rhs="math.pi * r", msg="Replace `3.14` with `math.pi`"),
    R(157, "Decimal('0')", {}, setup="from decimal import Decimal\n", cls="L"),
    R(157, "Decimal('-5')", {}, setup="from decimal import Decimal\n", cls="L"),
    R(157, "Decimal(float('inf'))", {}, setup="from decimal import Decimal\n", cls="L"),
    R(163, "math.log(v, 2)", {"v": "posfloat"}, setup="import math\n", cls="L", rhs="math.log2(v)", msg="Replace `math.log(x, 2)` with `math.log2(x)`"),
    R(163, "math.log(v, 10)", {"v": "posfloat"}, setup="import math\n", cls="L", rhs="math.log10(v)", msg="Replace `math.log(x, 10)` with `math.log10(x)`"),
    R(163, "math.log(v, math.e)", {"v": "posfloat"}, setup="import math\n", cls="L", rhs="math.log(v)", msg="Replace `math.log(x, math.e)` with `math.log(x)`"),
    R(164, "Decimal.from_float(v)", {"v": "float"}, setup="from decimal import Decimal\n", cls="L"),
    R(164, "Fraction.from_float(v)", {"v": "finite_float"}, setup="from fractions import Fraction\n", cls="L"),
    R(162, "datetime.fromisoformat(ds.replace('Z', '+00:00'))", {"ds": "isodate"}, setup="from datetime import datetime\n", cls="L"),
    R(167, "re.compile('a', re.I).flags", {}, setup="import re\n", cls="L", rhs="re.compile('a', re.IGNORECASE).flags", msg="Replace `re.I` with `re.IGNORECASE`"),
    R(170, "re.search(pat, s)", {"s": "str"}, setup="import re\npat = re.compile('a+')\n", cls="L", rhs="pat.search(s)", msg="Replace `re.search(x, ...)` with `x.search(...)`"),
    R(174, "len(token_bytes(8).hex())", {}, setup="from secrets import token_bytes, token_hex\n", cls="L", rhs="len(token_hex(8))", msg="Replace `token_bytes(8).hex()` with `token_hex(8)`"),
    R(178, "' '.join(shlex.quote(x) for x in y)", {"y": "list_str"}, setup="import shlex\n", cls="L"),
    R(181, "hashlib.sha256(bs).digest().hex()", {"bs": "bytes"}, setup="import hashlib\n", cls="L"),
    R(182, "h = hashlib.md5()\nh.update(bs)\nr = h.hexdigest()", {"bs": "bytes"}, setup="import hashlib\n", cls="L", mode="stmt",
      rhs="h = hashlib.md5(bs)\nr = h.hexdigest()", msg="Replace `h = hashlib.md5(); h.update(bs)` with `h = hashlib.md5(bs)`"),
    R(176, "datetime.utcnow().tzinfo", {}, setup="from datetime import datetime, timezone\n", cls="L", rhs="datetime.now(tz=timezone.utc).tzinfo",
      msg="Replace `utcnow()` with `now(tz=timezone.utc)`"),
    R(134, "@lru_cache(maxsize=None)\ndef g(a):\n    return a + 1\nr = g(n)", {"n": "int"}, setup="from functools import lru_cache, cache\n", cls="L", mode="stmt",
      rhs="@cache\ndef g(a):\n    return a + 1\nr = g(n)", msg="Replace `@lru_cache(maxsize=None)` with `@cache`"),
    R(107, "try:\n    r = d[k]\nexcept KeyError:\n    pass", {"d": "dict_str_int", "k": "str"}, setup="from contextlib import suppress\n", cls="L", mode="stmt",
      rhs="with suppress(KeyError):\n    r = d[k]", msg="Replace `try: ... except KeyError: pass` with `with suppress(KeyError): ...`"),
]

# ---- table-driven checks: the whole family the table could hold, not only the entries it holds today.
# These instances need not be flagged (a family member the check does not know is simply not advised
# on); when one is flagged, its advice is executed like any other.
_BINOPS = ["+", "-", "*", "/", "//", "%", "**", "<<", ">>", "&", "|", "^", "<", "<=", "==", "!=", ">", ">=", "is", "is not"]
_HASHES = ["md5", "sha1", "sha224", "sha256", "sha384", "sha512", "blake2b", "blake2s", "sha3_224", "sha3_256", "sha3_384", "sha3_512"]
_RE_FLAGS = ["A", "I", "L", "M", "S", "T", "U", "X"]
OPTIONAL_RULES: list[Rule] = [
    # FURB123: redundant casts of every builtin type
    R(123, "bytearray(ba)", {"ba": "bytearray"}), R(123, "frozenset(fs)", {"fs": "frozenset_int"}), R(123, "complex(cx)", {"cx": "complex"}),
    R(123, "memoryview(mv)", {"mv": "memoryview"}), R(123, "object()", {}), R(123, "type(ty)", {"ty": "type"}),
    # FURB112: empty constructors
    R(112, "set()", {}), R(112, "frozenset()", {}), R(112, "bytearray()", {}), R(112, "complex()", {}), R(112, "object()", {}),
    # FURB118: lambdas over every operator
    *[R(118, f"list(map(lambda x, y: x {op} y, xs, ys))", {"xs": "list_int", "ys": "list_int"}) for op in _BINOPS],
    R(118, "list(map(lambda x, y: y in x, ls, ys))", {"ls": "list_list_int", "ys": "list_int"}),
    R(118, "list(map(lambda x, y: x in y, ys, ls))", {"ls": "list_list_int", "ys": "list_int"}),
    *[R(118, f"list(map(lambda x: {op}x, xs))", {"xs": "list_int"}) for op in ("+", "~", "- ")],
    R(118, "list(map(lambda x: x[1], ps))", {"ps": "list_pair"}), R(118, "list(map(lambda x: x[-1], ps))", {"ps": "list_pair"}),
    R(118, "list(map(lambda x: (x[0], x[1]), ps))", {"ps": "list_pair"}), R(118, "list(map(lambda x: x[1:], ps))", {"ps": "list_pair"}),
    # FURB181 / FURB182: every hashlib algorithm
    *[R(181, f"hashlib.{h}(bs).digest().hex()", {"bs": "bytes"}, setup="import hashlib\n", cls="L") for h in _HASHES],
    *[R(181, f"hashlib.{h}(bs).digest({n}).hex()", {"bs": "bytes"}, setup="import hashlib\n", cls="L") for h in ("shake_128", "shake_256") for n in ("8", "1", "0")],
    # FURB167: every short regex flag
    *[R(167, f"re.compile('a', re.{f}).flags", {}, setup="import re\n", cls="L") for f in _RE_FLAGS],
    # FURB116: every base prefix builtin on negative and big ints
    R(116, "bin(n)[2:]", {"n": "nat"}), R(116, "oct(n)[2:]", {"n": "int"}), R(116, "hex(n)[2:]", {"n": "int"}), R(116, "hex(n)[3:]", {"n": "nat"}),
    # FURB146 / FURB155 / FURB141 / FURB144: every function of their tables, on names and on Path objects
    *[R(146, f"os.path.{f}(p)", {"p": "fs_name"}, setup="import os\nfrom pathlib import Path\n", cls="L", fs=True) for f in ("islink", "isfile", "isdir", "isabs")],
    *[R(155, f"{f}(p)", {"p": "fs_existing"}, setup="import os\nfrom pathlib import Path\n", cls="L", fs=True)
      for f in ("os.stat", "os.path.getsize", "os.path.getatime", "os.path.getmtime", "os.path.getctime")],
    *[R(c, f"{f}(pp)", {"pp": "fs_path_existing"}, setup="import os\nfrom pathlib import Path\n", cls="L", fs=True, annot={"pp": "Path"})
      for c, f in ((146, "os.path.isfile"), (146, "os.path.islink"), (155, "os.path.getmtime"), (155, "os.path.getatime"), (155, "os.path.getctime"), (141, "os.path.exists"))],
    R(144, "os.unlink(p)", {"p": "fs_name"}, setup="import os\nfrom pathlib import Path\n", cls="L", fs=True, mode="stmt"),
    # FURB159: the strip family with explicit characters
    *[R(159, f"s.{a}({x}).{b}({y})", {"s": "str"}) for a, b in (("lstrip", "rstrip"), ("rstrip", "lstrip"), ("strip", "lstrip"), ("lstrip", "lstrip"), ("rstrip", "strip"))
      for x, y in (("'x'", "'x'"), ("'ab'", "'ba'"), ("'a'", "'b'"), ("'b'", "'a'"), ("' '", "' '"))],
    # FURB163: every base
    *[R(163, f"math.log(v, {b})", {"v": "posfloat"}, setup="import math\n", cls="L") for b in ("2", "10", "math.e", "2.0", "10.0", "8", "math.pi")],
    # FURB161
    R(161, "bin(n).count('0')", {"n": "nat"}), R(161, "bin(n).count('1')", {"n": "nat"}),
    # FURB157: Decimal literals
    *[R(157, f"Decimal({a})", {}, setup="from decimal import Decimal\n", cls="L") for a in ("'1'", "'1.5'", "'-0'", "'+5'", "'1e3'", "' 5'", "'5_0'", "'０'", "float('nan')", "float('-inf')", "float('5')")],
]
