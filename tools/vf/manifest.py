"""Regenerates MANIFEST.json from the table below (run: python -m vf.manifest)."""
import json
from pathlib import Path

VERIF = Path(__file__).resolve().parents[2]

CHECKS = {
    "C17": dict(
        technique="Coq proof by reflection over the catalogue regenerated from source (translator) + exhaustive execution of --explain and the docs generator",
        category="proof",
        text="The catalogue is a finite table regenerated from /repo on every run (static ast translator, cross-checked against the loader). Uniqueness of codes/names, explain-finds-own-documentation (generic first-match-lookup lemma instantiated on the NoDup catalogue), docs/checks.md and docs/configs/default.toml agreement are Coq theorems over that table; the documented examples and --explain are executed exhaustively over all checks.",
        note="Trusted: Coq kernel+vm_compute; the ast translator (tied by equality with import-time introspection each run); textwrap.dedent and the markdown regex are applied by the translator. Docstring examples are decided by execution, not by a theorem.",
        ref="C17",
    ),
}

CHECKS["C15"] = dict(
    technique="Coq proof over version gates translated from source (all versions v>=7 by lia; the only clock a check may read is settings.get_python_version()) and over Settings.merge / get_python_version / load_settings translated from source (the command line's version is the target) + exhaustive lint of the idiom corpus at every target version with typeshed-dated features",
    category="proof",
    text="Every settings.get_python_version() test in refurb/checks is translated (fail-closed) into a gate table; never_too_new (for all minor versions v>=7: a firing check's message needs <= v), monotone and message_switch_only_upgrades are Coq theorems over that table and a hand-written feature-minimum table. The real linter is run at every target 3.7..running version on an idiom corpus + test/data; every message is dated against typeshed guards and checked for monotonicity; model fires/variant is compared with the real runs.",
    note="Trusted: Coq kernel; gates translator; Lib/Gates.v feature table (base_min/text_min) validated by the message scan (typeshed sys.version_info guards, floor 3.8, plus a hand list of 3.8 features).",
    ref="C15",
)

CHECKS["C04"] = dict(
    technique="Coq proof by induction over arbitrary trees (permutation schedules visit every node exactly once) over schedules translated from traverser.py/visitor.py/mapping.py and mypy's own sources; correspondence by vm_compute on serialised real trees; source-level context-placement oracle (also for a plugin check loaded under every spelling of its module name); identical-twin oracle (no run reports the very same diagnostic twice) over test data and the committed corpora",
    category="proof",
    text="Every visit_* body, the accept registry, METHOD_NODE_MAPPINGS, build_visitor and the RefurbVisitor override are translated (fail-closed) on each run, next to mypy's own TraverserVisitor as the definition of syntactic children. Lib/Tree.v proves for all trees of any depth/width: if each kind's schedule is a permutation of its child fields then one traversal returns every node exactly once (Permutation with the tree's structural enumeration, NoDup of paths) and each subscribed check is called once per node; the table facts are decided by vm_compute on the regenerated tables. The Coq traversal is compared with the real RefurbVisitor (recorder subscribed to every node type) on serialised real mypy trees, and a marked idiom is placed in ~75 syntactic contexts and their compositions and must be diagnosed exactly once at its position.",
    note="Trusted: Coq kernel; schedule/visitor_model translators; mypy's traverser as spec of children (minus derived `analyzed` nodes and two alias fields checked by identity on real trees); serializer. mypy's source->AST placement is covered by the context oracle only.",
    ref="C04",
)

CHECKS["C03"] = dict(
    technique="Coq proof: dispatch totality + traversal never raises for all trees (over tables translated from traverser.py and mypy's node classes); crash search by CLI/in-process runs over fault scenarios, mutated idioms and a stdlib sample",
    category="proof",
    text="Partial. Proved for all trees: every node class mypy defines has an accept() overload (finite, regenerated each run), Optional children are None-tested, hence visit never returns an error (traverse_no_exn, by the Tree.v induction). Not provable: absence of uncaught exceptions inside the 93 check bodies and inside mypy; those are searched: ~35 fault scenarios through the real CLI (encodings, missing/odd inputs, PEP 695, typing states), AST-mutated near-misses of every test/data idiom, test/data, a stdlib sample, each requiring exit status 0/1 and no traceback.",
    note="Trusted: Coq kernel; translators shared with C04; mypy class annotations for Optional-ness. The crash search is sampling, not proof (partial).",
    ref="C03",
)

CHECKS["C06"] = dict(
    technique="Coq proof by structural induction over the expression type (soundness + reflexivity of is_equiv, regenerated from common.is_equivalent by a translator); correspondence by vm_compute on serialised real mypy nodes; pair oracle via ast.dump",
    category="proof",
    text="is_equivalent/unmangle_name are translated (fail-closed) into a Coq Fixpoint plus one characterising equation per source case on every run. Proved for all pairs of expressions of any depth: is_equiv a b = true -> syn a = syn b under the guard mypy guarantees (soundness; corollaries for differing operator/attribute/arity/arg kind/keyword/int literal), and is_equiv a a = true (reflexivity). The generated function is compared with the real one on hundreds of harvested pairs (identical in other layouts, single-edit mutants, unrelated), the real function is compared with an ast.dump oracle, and FURB110 is checked end to end.",
    note="Trusted: Coq kernel; equiv translator; serializer; Lib/Equiv.v strconv (assumption: mypy renders different classes differently). Open findings: import aliases compare equal; classes without an explicit case are compared via str() (line numbers/definition markers).",
    ref="C06",
)

CHECKS["C02"] = dict(
    technique="hand-written Coq model of stringify and stringify_operand tied to the code by vm_compute correspondence on real mypy nodes; Coq proof of the string-literal escape round-trip for all strings; ast.parse/ast.dump oracle on curated and generated expressions",
    category="proof",
    text="Partial. Lib/Stringify.v models stringify/_stringify/get_fstring_parts (precedence, placeholders, f-strings) and is compared with the real function on ~700 (quick) harvested mypy nodes per run. Proved for all code-point lists: the quoted text of a str literal reads back as the same string (str_literal_roundtrip). Not expressible without a Python parser in Coq: 'parses and has the same tree'; that is decided by execution: every quoted fragment is parsed with ast.parse and its normalised dump compared with that of the source.",
    note="Trusted: Coq kernel; the model-code correspondence (differential testing); Python's ast as oracle; repr() of non-ASCII code points assumed to leave them unescaped (harness feeds printable ones). Open findings: call callee not parenthesised (pinned by a golden file), empty f-string and nested format spec quoted as mypy's desugaring.",
    ref="C02",
)

CHECKS["C09"] = dict(
    technique="Coq proof by induction over arbitrary option sequences (last mention wins) and over should_load_check/Settings.merge translated from source (ladder = README verdict, merge characterisation, end-to-end history theorem); exhaustive small-alphabet comparison of the real parse/merge/ladder with the model and with an independent transcription of the documented precedence",
    category="proof",
    text="should_load_check and Settings.merge are translated (fail-closed) into Coq on each run. Proved: for every option sequence of any length the folded enable/disable sets hold exactly the last mention of each classifier (induction); should_load = the README's verdict for every Settings value and check; a command-line all-switch resets the config's lists, otherwise lists combine with disable beating enable; composed into selection_matches_history for every config x command line; path-scoped ignores never unload. The hand-written folds (cli/config parsing) are tied by evaluating the model on all option sequences to length 2 (3 in thorough) x config combinations against the real functions; --verbose is checked through the CLI.",
    note="Trusted: Coq kernel; selection translator; the correspondence for the hand-modelled cli/config folds. Conventions where the README is silent are listed in evidence.assumptions.",
    ref="C09",
)

CHECKS["C14"] = dict(
    technique="hand-written Coq model of the CLI and config parsers tied by vm_compute correspondence on generated argument vectors and TOML documents; Coq proofs of totality (only ValueError) for all inputs, CLI = config for option lists of any length, file-position independence, and the merge laws over the translated Settings.merge",
    category="proof",
    text="Lib/Cli.v models parse_command_line_args (as a fold/state machine), parse_config_file over a TOML value type, and their helpers; it is compared with the real functions on ~3000 generated argument vectors and documents per quick run (valid and malformed: wrong types at every key, unknown keys, bad amend tables, non-table tool). Proved on the model: cli_total / cfg_total (for every argv / every TOML value the result is Ok or ValueError), cfg_cli_equiv (the same options written both ways give the same settings, lists of any length), files_position_independent (induction over option segments), merge laws (on Settings.merge translated from source). The property's own oracles run on the real code: CLI vs config, argument permutations, merge laws, and 20 malformed inputs through the real CLI requiring one `refurb:` line and exit 1.",
    note="Trusted: Coq kernel; the model-code correspondence for Lib/Cli.v (differential testing); tomllib; ASCII digits only in codes and versions.",
    ref="C14",
)

CHECKS["C13"] = dict(
    technique="hand-written Coq model of the three renderers/format_errors/exit status tied by vm_compute correspondence on generated Error objects and reports; Coq proofs for every message (colour minus escapes = plain, one line per diagnostic in each format, hint iff, exit iff); CLI matrix and string-literal perturbation search",
    category="proof",
    text="Lib/Render.v models Error.__str__, format_with_color (including the four-back-tick regex as a split), format_as_github_annotation, format_errors and the exit status; it is compared with the real functions on hundreds of generated Error objects (0-6 back-ticks, %, \\1, quotes, non-ASCII, odd file names) and reports under every format/quiet combination. Proved for all messages free of ESC/line breaks: strip_ansi (color e) = plain e, each rendering is one line, the hint appears iff a diagnostic exists and quiet is off, exit status 1 iff the report is non-empty. That real messages are single-line is searched: every string literal of test/data is perturbed with \\n, \\r and back-ticks and all diagnostics are re-rendered; every --format/--quiet/--sort combination runs through the real CLI on files inside, outside the cwd and missing.",
    note="Trusted: Coq kernel; model-code correspondence for Lib/Render.v; the regex-as-split modelling of ERROR_DIFF_PATTERN (checked by the correspondence on 4-back-tick messages).",
    ref="C13",
)

CHECKS["C08"] = dict(
    technique="hand-written Coq model of get_source_lines/is_ignored_via_comment (leftmost hash-noqa with a quote-free tail, every comment from there on, over code points) tied by vm_compute correspondence; Coq proofs for ALL lines, whatever they already contain (appended `# noqa` suppresses every code; appended `# noqa: codes` adds exactly the listed codes to what was suppressed before; exact characterisation of suppression; locality); metamorphic runs through run_refurb",
    category="proof",
    text="Lib/Noqa.v models line splitting (universal newlines, LF only), rstrip, the `# noqa(: [^quotes]*)?$` search and the code-list tokenisation over code points; it is compared with the real is_ignored_via_comment on ~3500 (file, line, code) triples per quick run, including FF/VT/FS/GS/RS/NEL/LS/PS inside literals, CRLF/CR, BOM, quotes, earlier `# noqa` text and every comment style. Proved for every line L without a hash and every alphanumeric code list of any length: ignored (L ++ '  # noqa') c = true and ignored (L ++ '  # noqa: ' ++ join ', ' cs) c = (c in cs); suppression depends on the named physical line only. The property's metamorphic relation runs on real lint runs: adding comments to subsets of diagnosed lines removes exactly the named (line, code) pairs.",
    note="Trusted: Coq kernel; model-code correspondence for Lib/Noqa.v (in particular the regex modelling); Python's physical-line definition.",
    ref="C08",
)

CHECKS["C12"] = dict(
    technique="hand-written Coq model of is_ignored_via_amend over path components tied by vm_compute correspondence on real directory trees; Coq proofs for all component lists (covered iff at or below, component not string prefix, ./ and x/.. invariance, cwd irrelevant for absolute paths, other codes untouched); realpath oracle incl. symlinks; CLI runs",
    category="proof",
    text="Partial (symbolic links are outside the Coq model). Lib/Paths.v models pathlib's parts/normalisation, Path.resolve() on a symlink-free file system, config-root selection and the component-prefix test; it is compared with the real function on ~500 layouts per quick run built as real temp directories (siblings sharing a prefix, nesting, odd names, entries spelled with ./, x/.., //, trailing /, absolute; config in root/sub/parent directory; several working directories; code, category and foreign entries). Proved for all paths: an entry covers exactly the paths that extend it component-wise, `src` never covers `src2/...`, ./ and x/.. spellings are irrelevant, the cwd is irrelevant once config and file are absolute, entries for other codes change nothing. Symlinked directories/files and two CLI runs (config in a sub-directory, another cwd) are decided by execution against os.path.realpath.",
    note="Trusted: Coq kernel; model-code correspondence for Lib/Paths.v; os.path.realpath as oracle. Symlinks: execution only.",
    ref="C12",
)

CHECKS["C07"] = dict(
    technique="Coq layout algebra (Z arithmetic, all layouts) for the hand-computed positions, over offsets translated from every ErrorInfo(...) built with explicit line/column; tokenize oracle on every diagnostic of test/data and a layout corpus under CRLF/BOM/tab/non-ASCII/form-feed variants",
    category="proof",
    text="Partial. A fail-closed translator finds every diagnostic whose position is not copied from a node (FURB106, FURB113, FURB180) and regenerates their offsets; Lib/Layout.v + Props/C07 prove for all layouts that FURB106 reports where `replace` starts and that FURB180 reports the keyword exactly when `metaclass=X` is written without blanks on one line (the refuted full statement has two witnesses, recorded as open findings). That mypy's own node positions are token starts cannot be a theorem about refurb; it is decided by execution: every diagnostic on test/data and the layout corpus, in six layout variants, must name a checked file, an existing line, a column inside it, and a position where Python's tokenizer starts a token.",
    note="Trusted: Coq kernel; the position-site translator; Python's tokenize; mypy node positions (execution only). Open: FURB180 with blanks around `=` or a split keyword.",
    ref="C07",
)

CHECKS["C10"] = dict(
    technique="Coq proof (induction over the visit sequence) that a run of checks with private state satisfies run(filter sel) = filter(run), with the hypotheses discharged from an effect summary translated from every check module and an inventory of state outside the check modules (memoised functions, mutated module-level containers: proved empty); fresh-process selection runs (singletons, complements, subsets; enable/disable/ignore) against the full run",
    category="proof",
    text="Partial. Lib/Run.v proves for every visit sequence, every list of checks (each a function of the node and its own state) and every selection that running the selected checks alone yields exactly the selected diagnostics of the full run, in order. That the real checks fit this model is an effect summary regenerated from source on each run (module-level objects mutated, attributes of non-local objects assigned, uses of the shared error list, names imported from other check modules) decided against a hand-reviewed allow-list by vm_compute; a new cross-module global, a write into the AST or a read of the error list breaks effects_admissible. The dynamic soundness of that static summary is not provable; the property itself is executed: every chosen selection is run in a fresh process and compared with the filtered full run.",
    note="Trusted: Coq kernel; effects translator and its allow-list (FURB120); run model. Static summary vs dynamic behaviour: execution only.",
    ref="C10",
)

CHECKS["C11"] = dict(
    technique="Coq proofs over the sort key translated from sort_errors: the sorted report is invariant under any permutation and any partition of its diagnostics (uniqueness of sorted permutations for a total order; lexicographic key order proved total/transitive/antisymmetric); fresh-process permutation/partition runs, in-process histories, cold/warm and concurrent CLI runs",
    category="proof",
    text="Partial. The key tuples of both sort modes and the shape `sorted(filtered, key=sort_errors)` of run_refurb are translated on each run. Proved for any number of diagnostics with pairwise distinct keys: report(ds1) = report(ds2) for every permutation (so for every order of the file arguments), report(concat groups) = sort of the concatenated group reports (any grouping), the report is sorted by the documented key and is a permutation of the input; equal keys name the same file, position and code. Outside any executable model and decided by execution only: that mypy's analysis of independent files does not depend on their order (all permutations / 2-block partitions of four files, fresh process each, both sort modes), process history (re-run, re-run after an edit, eight runs in sequence, six identical runs for id reuse, compared with fresh processes), cold vs warm cache and four concurrent CLI runs in one directory.",
    note="Trusted: Coq kernel; sort-key translator; Python's sorted modelled as insertion sort (same result for distinct keys); mypy (execution only). Concurrency and the on-disk cache cannot be expressed in the model.",
    ref="C11",
)

CHECKS["C18"] = dict(
    technique="Coq proof by exhaustive enumeration (vm_compute, lifted) of every outcome path of run_refurb's effect skeleton translated from source: no temporary file survives; list of write sites translated and pinned; real CLI runs with directory/TMPDIR snapshots and stats-file validation over the full scenario x flag table",
    category="proof",
    text="Partial. run_refurb's try/except/finally/with/for skeleton and its effectful calls are translated (fail-closed) into an effect program; Lib/Fs.v interprets it over all outcome choices (every call returns or raises any exception it is known to raise, loops run 0-2 times, with and without --timing-stats) and no_temp_left states that on every path the temporary file is gone; the set of file-system write calls in refurb/*.py is translated and proved to be exactly {mkstemp, unlink, write_text} in main.py. That mypy itself writes only below its cache directory is an assumption; it and the well-formedness of the stats file are decided by execution: 21 scenario x flag combinations through the real CLI with SHA-256 snapshots of the checked tree and a private TMPDIR.",
    note="Trusted: Coq kernel; the skeleton translator; may_raise summaries in Lib/Fs.v; mypy's writes (execution only).",
    ref="C18",
)

CHECKS["C16"] = dict(
    technique="Coq proof (induction over the target list with an invariant on the loaded set) that get_modules yields no module twice; model tied by vm_compute correspondence with the real get_modules on generated plugin packages; call-log oracle for multiplicity, selection, settings injection and every signature class through the real CLI",
    category="proof",
    text="Partial. Lib/Loader.v models get_modules over load targets (plain module / package with its walked leaves) with module identity = import name; modules_once is proved for every list of targets (duplicates, a package and its own sub-module, the built-in package again) and the model is compared with the real generator on every target list up to length 2 (3 in thorough). Everything that depends on Python's import system, inspect.signature and the visitor is executed: generated plugin checks append to a call log; each check must be called exactly once per matching node and never when unselected (11 selections), see the settings when it asks for them, and each of 9 invalid signatures must be rejected with `file:line: reason` and exit 1 while 5 valid ones run. One file under two import names is execution only.",
    note="Trusted: Coq kernel; model-code correspondence for Lib/Loader.v; the call log as oracle. Import aliasing and signature validation: execution only.",
    ref="C16",
)

CHECKS["C19"] = dict(
    technique="Coq proofs for selections of any size (every selected type imported exactly once from its own module, nothing else imported, next code free / 100 for a new prefix) over the node table and template translated from source; generated text compared with the real generator by vm_compute; exhaustive singletons (+ pairs in thorough) compiled, loaded and linted",
    category="proof",
    text="Partial. FILE_TEMPLATE, the format arguments, build_imports and get_next_error_id are checked against their recognised shapes and translated with the node table (mapping.py + each class's module) and the existing codes. Proved for every NoDup selection: imports_cover / imports_are_selection (group-by-module model) and next_id_free for every prefix. The model instantiates the template and is compared with the file written by refurb.gen.main (fzf prompts stubbed) for every selection tried. That the text is valid Python, is accepted by the loader and fires on exactly the selected types cannot be a theorem without a Python parser: every single node type (exhaustive), 120 pairs (all 3486 in thorough) and random larger selections are compiled, passed through extract_function_types, and a sample is run with --load on a file containing every node kind.",
    note="Trusted: Coq kernel; the gen.py shape check; model-text correspondence; compile() and the real loader as oracles.",
    ref="C19",
)

CHECKS["C05"] = dict(
    technique="Coq proof that the type test (_is_same_type, shape-checked and modelled; SIMPLE_TYPES and FURB123's table translated) accepts only an instance of exactly the expected builtin class; model tied by vm_compute correspondence on real mypy types; probe universe (10 casts x ~150 operand forms x contexts) judged against mypy's own inferred types",
    category="proof",
    text="Partial. SIMPLE_TYPES and FURB123's FUNC_NAME_MAPPING are translated as literals and _is_same_type must keep its recognised shape; Lib/Types.v models it over a summary of mypy type objects and same_type_exact proves for every type (through any chain of aliases) that a builtin class is matched only by an Instance/TypeInfo of exactly that class or a plain tuple type: Any, unions, None, type variables, unresolved operands never qualify; the model is compared with the real function on every distinct type the probes resolve to x 17 expected values. How an operand is resolved to a type (get_mypy_type) is not modelled; whether that resolution agrees with what mypy infers is decided by execution: 1400 probes `T(E)` (37 declared types, literals, calls, attributes, operators, subscripts, await, lambda, walrus, cast; narrowing, unreachable, loop/with/except/match contexts) are linted and FURB123 must only appear where mypy's exported type map gives exactly class T for E.",
    note="Trusted: Coq kernel; translator shape check; model-code correspondence; mypy's BuildResult.types (export_types switched on by the harness only) as oracle. Open: declared-vs-narrowed types, IntEnum members.",
    ref="C05",
)

CHECKS["C01"] = dict(
    technique="Coq models of the pure Python fragment (Lib/PyEval.v: values with identity, ==, is, <, in, and/or/not, conditional, min/max, sorted) and of statements over mutable lists/sets behind references (Lib/PyHeap.v), with one soundness theorem per rewrite rule in the fragment (guarded where the unguarded statement is refuted by a vm_compute witness); FURB123's cast table translated from source with a table-soundness theorem; the models are tied to CPython by vm_compute correspondence; check() of FURB110/114/136/171 translated from source into Gallina matchers with message templates (typed symbolic translator, tied to the real functions on harvested mypy nodes) and proved sound over a syntactic evaluator (Lib/PySyn.v) for arbitrary operand expressions; check() of the library idioms FURB104/141/144/146/155/163/181 translated the same way (one generated file each) and proved EQUAL, as functions from any call node and any answer of the type resolution to the printed messages, to a specification written from the pathlib correspondence table and the definition of log2/log10 (Props/C01/C01LibSpec.v); every rule instance (72 checks), every single-site neighbouring shape (siblings, slice bounds, keyword arguments), every member of the table-driven families and every operand written as a compound expression is linted by the real refurb, the replacement is taken from the message it prints (and must parse as the intended tree), and original and replacement are executed in CPython over typed operand products",
    category="proof",
    text="Partial. Proved for all operands: the 40 rule theorems in Props/C01 (FURB108/110/114/115/124/136/143/149/168/169/171/191/192 in their modelled operand types; statements FURB113/131/132/142/148/186/187; FURB123's table), each with its guard and, where the guard is needed, a refutation witness; and, over the check functions as translated from source (GenMatch.v) with the translated is_equivalent as sameness guard: whatever tree FURB110, 114, 136 (eight operator/branch shapes, integer operands) or 171 (guard: reflexive operand) reports evaluates like the replacement its message names, for every assignment of values to names and literals and arbitrary sub-expressions as operands (Props/C01/C01Match.v); for FURB104, 141, 144, 146, 155, 163 and 181 the advice printed is exactly what the specification table says for every call, every spelling of the callee (name, attribute, platform alias of os.path) and every typing of the argument (Props/C01/C01Lib<code>.v) -- which os function corresponds to which Path member, and that the library functions behave alike, is decided by execution on a scratch directory whose files have distinct access/modification/change times. For the other checks (library calls, file system, the remaining statements) equivalence is decided by execution over finite operand products only (value, type, exception class, stdout, aliasing, operand mutation, scratch directory tree).",
    note="Trusted: Coq kernel; hand-written PyEval/PyHeap models (tied by correspondence on the operand products the engine executes); the cast-table translator; the matcher translator tools/vf/translate/matchers.py (tied by the matcher correspondence; the helpers normalize_os_path and is_pathlike are transliterated in Lib/PyMatch.v and pinned to their source text, a different text fails closed) and Lib/PySyn.v (names and literals are parameters; operands containing conditional/lambda/await/walrus nodes are outside the structural fragment); rule table tools/vf/props/c01_rules.py (an instance per check, replacement read from refurb's own message); CPython as the reference semantics; the list of immutable builtins in Props/C01/C01Tables.v.",
    ref="C01",
)

NOT_APPLICABLE = {}


def main():
    props = [json.loads(l)["id"] for l in (VERIF / "properties.jsonl").read_text().splitlines() if l.strip()]
    checks = []
    for pid in props:
        if pid not in CHECKS:
            continue
        c = CHECKS[pid]
        checks.append({
            "property_id": pid,
            "quick_cmd": f"bin/check {pid} quick",
            "thorough_cmd": f"bin/check {pid} thorough",
            "evidence_file": f"/verif/evidence/{pid}.json",
            "replay_cmd_template": "cat {path}",
            "engine": "coq-model+harness",
            "level_claimed": {"category": c["category"], "text": c["text"], "design_ref": f"DESIGN.md section {c['ref']}"},
            "level_note": c["note"],
            "technique": c["technique"],
        })
    na = [{"property_id": p, "reason": NOT_APPLICABLE.get(p, "check not built yet in this session; planned (see DESIGN.md); not claimed until its check is registered")}
          for p in props if p not in CHECKS]
    m = {
        "version": 1,
        "setup_cmd": "bin/check setup",
        "hooks": {
            "guard": "REFURB_VERIF",
            "enable": "no source hooks: observation is by in-process calls, --load probe plugins and monkey-patching from the harness (bin/check exports REFURB_VERIF=1 for uniformity)",
            "baseline_off_cmd": "cd /repo && /venv/bin/python -m pytest -ra -q -p no:cacheprovider --timeout=900 --continue-on-collection-errors",
            "source_commits": [],
            "add_only": True,
        },
        "engines": [{
            "name": "coq-model+harness", "path": "/verif/bin/check",
            "serves_properties": [c["property_id"] for c in checks],
            "kind_free_text": "Coq 8.16.1 models (translated from /repo each run or hand-written with a differential correspondence check evaluated by vm_compute) + theorems; Python harness for correspondence and failing-input search",
        }],
        "checks": checks,
        "not_applicable": na,
        "notes": "See DESIGN.md. known_findings.json lists open and fixed findings.",
    }
    (VERIF / "MANIFEST.json").write_text(json.dumps(m, indent=1) + "\n")


if __name__ == "__main__":
    main()
