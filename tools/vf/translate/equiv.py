"""Translate refurb.checks.common.is_equivalent (and unmangle_name) into a Coq Fixpoint
over Lib/PyAst.expr.  Fail-closed: the translator understands exactly the shapes this
function is written in and aborts on anything else."""
from __future__ import annotations

import ast
from pathlib import Path

from .catalogue import TranslateError

# mypy class -> (constructor, [field names in constructor order], field kinds)
#   kinds: e = expr, s = string, o = option expr, L = list expr, A = call args,
#          D = dict items, S = list string
CLASSES = {
    "NameExpr": ("EName", ["name", "fullname"], "ss"),
    "MemberExpr": ("EMember", ["expr", "name", "fullname"], "ess"),
    "IndexExpr": ("EIndex", ["base", "index"], "ee"),
    "CallExpr": ("ECall", ["callee", "args"], "eA"),
    "ListExpr": ("EList", ["items"], "L"),
    "TupleExpr": ("ETuple", ["items"], "L"),
    "SetExpr": ("ESet", ["items"], "L"),
    "DictExpr": ("EDict", ["items"], "D"),
    "StarExpr": ("EStar", ["expr"], "e"),
    "UnaryExpr": ("EUnary", ["op", "expr"], "se"),
    "OpExpr": ("EOp", ["op", "left", "right"], "see"),
    "ComparisonExpr": ("ECmp", ["operators", "operands"], "SL"),
    "SliceExpr": ("ESlice", ["begin_index", "end_index", "stride"], "ooo"),
    "StrExpr": ("EStr", ["value"], "C"),
}


def fail(node, msg):
    raise TranslateError(f"is_equivalent:{getattr(node, 'lineno', '?')}: {msg}: {ast.unparse(node)[:90]}")


class Tr:
    def __init__(self, cls: str):
        self.cls = cls
        self.ctor, self.fields, kinds = CLASSES[cls]
        self.kind = dict(zip(self.fields, kinds))
        if cls == "CallExpr":
            self.kind.update({"arg_kinds": "K", "arg_names": "N"})

    def fld(self, e):
        """('lhs'|'rhs', field) for lhs.f / rhs.f"""
        if isinstance(e, ast.Attribute) and isinstance(e.value, ast.Name) and e.value.id in ("lhs", "rhs"):
            if e.attr not in self.kind:
                fail(e, f"unknown field of {self.cls}")
            return e.value.id, e.attr
        return None

    def var(self, side, f):
        if f in ("arg_kinds", "arg_names"):
            proj = "fst (fst a)" if f == "arg_kinds" else "snd (fst a)"
            return f"(map (fun a => {proj}) {side}_args)"
        return f"{side}_{f}"

    def pair(self, a, b):
        fa, fb = self.fld(a), self.fld(b)
        if not fa or not fb or fa[0] != "lhs" or fb[0] != "rhs" or fa[1] != fb[1]:
            fail(a, "expected lhs.f / rhs.f with the same field")
        return fa[1]

    def expr(self, e) -> str:
        if isinstance(e, ast.BoolOp) and isinstance(e.op, ast.And):
            return " && ".join(self.expr(v) for v in e.values)
        if isinstance(e, ast.Compare) and len(e.ops) == 1 and isinstance(e.ops[0], ast.Eq):
            l, r = e.left, e.comparators[0]
            # unmangle_name(lhs.fullname) == unmangle_name(rhs.fullname)
            if all(isinstance(x, ast.Call) and isinstance(x.func, ast.Name) and x.func.id == "unmangle_name" for x in (l, r)):
                la, ra = l.args[0], r.args[0]
                # unmangle_name(lhs.f or lhs.g) == unmangle_name(rhs.f or rhs.g)
                if all(isinstance(x, ast.BoolOp) and isinstance(x.op, ast.Or) and len(x.values) == 2 for x in (la, ra)):
                    f = self.pair(la.values[0], ra.values[0])
                    g = self.pair(la.values[1], ra.values[1])
                    if self.kind[f] != "s" or self.kind[g] != "s":
                        fail(e, "unmangle_name on a non-string field")
                    return f"String.eqb (unmangle (str_or lhs_{f} lhs_{g})) (unmangle (str_or rhs_{f} rhs_{g}))"
                f = self.pair(la, ra)
                if self.kind[f] != "s":
                    fail(e, "unmangle_name on a non-string field")
                return f"String.eqb (unmangle lhs_{f}) (unmangle rhs_{f})"
            # len(lhs.f) == len(rhs.f)
            if all(isinstance(x, ast.Call) and isinstance(x.func, ast.Name) and x.func.id == "len" for x in (l, r)):
                f = self.pair(l.args[0], r.args[0])
                if self.kind[f] not in "LDA":
                    fail(e, "len() of a non-list field")
                return f"Nat.eqb (List.length lhs_{f}) (List.length rhs_{f})"
            f = self.pair(l, r)
            k = self.kind[f]
            eq = {"s": "String.eqb", "S": "list_eqb String.eqb", "K": "list_eqb argkind_eqb", "C": "list_eqb N.eqb",
                  "N": "list_eqb (opt_eqb String.eqb)"}.get(k)
            if eq is None:
                fail(e, f"== on field of kind {k}")
            return f"{eq} {self.var('lhs', f)} {self.var('rhs', f)}"
        if isinstance(e, ast.Call) and isinstance(e.func, ast.Name):
            if e.func.id == "is_equivalent" and len(e.args) == 2:
                f = self.pair(*e.args)
                k = self.kind[f]
                if k == "e":
                    return f"is_equiv lhs_{f} rhs_{f}"
                if k == "o":
                    return f"opt_equiv lhs_{f} rhs_{f}"
                fail(e, f"is_equivalent on field of kind {k}")
            if e.func.id == "all" and len(e.args) == 1:
                a = e.args[0]
                # all(starmap(is_equivalent, zip(lhs.f, rhs.f)))
                if (isinstance(a, ast.Call) and isinstance(a.func, ast.Name) and a.func.id == "starmap"
                        and len(a.args) == 2 and isinstance(a.args[0], ast.Name) and a.args[0].id == "is_equivalent"
                        and isinstance(a.args[1], ast.Call) and isinstance(a.args[1].func, ast.Name)
                        and a.args[1].func.id == "zip" and len(a.args[1].args) == 2):
                    f = self.pair(*a.args[1].args)
                    k = self.kind[f]
                    if k == "L":
                        return f"all_zip lhs_{f} rhs_{f}"
                    if k == "A":
                        return f"all_zip_args lhs_{f} rhs_{f}"
                    fail(e, f"zip over field of kind {k}")
                # all(is_equivalent(l[0], r[0]) and is_equivalent(l[1], r[1]) for l, r in zip(lhs.items, rhs.items))
                if isinstance(a, ast.GeneratorExp) and len(a.generators) == 1:
                    g = a.generators[0]
                    want = "is_equivalent(lhs_item[0], rhs_item[0]) and is_equivalent(lhs_item[1], rhs_item[1])"
                    if (ast.unparse(a.elt) == want and ast.unparse(g.target) == "(lhs_item, rhs_item)" and not g.ifs
                            and isinstance(g.iter, ast.Call) and ast.unparse(g.iter.func) == "zip" and len(g.iter.args) == 2):
                        f = self.pair(*g.iter.args)
                        if self.kind[f] == "D":
                            return f"all_zip_dict lhs_{f} rhs_{f}"
                fail(e, "unrecognised all(...)")
        if isinstance(e, ast.Constant) and e.value is True:
            return "true"
        fail(e, "unrecognised expression")


def class_pair(p):
    """MatchSequence of two `C() as lhs` / `C() as rhs` with the same class -> C."""
    if isinstance(p, ast.MatchSequence) and len(p.patterns) == 2:
        names = []
        for q, want in zip(p.patterns, ("lhs", "rhs")):
            if (isinstance(q, ast.MatchAs) and q.name == want and isinstance(q.pattern, ast.MatchClass)
                    and isinstance(q.pattern.cls, ast.Name) and not q.pattern.patterns and not q.pattern.kwd_patterns):
                names.append(q.pattern.cls.id)
            else:
                return None
        if names[0] == names[1]:
            return names[0]
    return None


UNMANGLE_SRC = "def unmangle_name(name: str | None) -> str:\n    return (name or '').rstrip(\"'*\")"


def translate(repo: Path) -> str:
    tree = ast.parse((repo / "refurb" / "checks" / "common.py").read_text("utf8"))
    fns = {n.name: n for n in tree.body if isinstance(n, ast.FunctionDef)}
    if "unmangle_name" not in fns or ast.unparse(fns["unmangle_name"]) != UNMANGLE_SRC:
        raise TranslateError("unmangle_name is not `(name or '').rstrip(\"'*\")` any more")
    fn = fns.get("is_equivalent")
    if fn is None or [a.arg for a in fn.args.args] != ["lhs", "rhs"]:
        raise TranslateError("is_equivalent(lhs, rhs) not found")
    body = [s for s in fn.body if not (isinstance(s, ast.Expr) and isinstance(s.value, ast.Constant))]
    if (len(body) != 2 or not isinstance(body[0], ast.Match) or ast.unparse(body[0].subject) != "(lhs, rhs)"
            or ast.unparse(body[1]) != "return str(lhs) == str(rhs)"):
        raise TranslateError("is_equivalent is not `match (lhs, rhs): ...; return str(lhs) == str(rhs)`")
    arms = []
    eqs: list[str] = []
    tags: list[str] = []
    seen = set()
    none_case = False
    for case in body[0].cases:
        if case.guard is not None:
            fail(case.guard, "guards are not supported")
        if len(case.body) != 1 or not isinstance(case.body[0], ast.Return):
            fail(case.body[0], "case body must be a single return")
        ret = case.body[0].value
        pat = case.pattern
        if ast.unparse(pat) in ("[None, None]", "(None, None)"):
            if not (isinstance(ret, ast.Constant) and ret.value is True):
                fail(ret, "None, None must return True")
            none_case = True
            continue
        pats = pat.patterns if isinstance(pat, ast.MatchOr) else [pat]
        for p in pats:
            cls = class_pair(p)
            if cls is None or cls not in CLASSES:
                fail(case.pattern, "pattern is not a pair of the same supported class")
            if cls in seen:
                continue   # an earlier case already decides this pair
            seen.add(cls)
            t = Tr(cls)
            lp = " ".join(f"lhs_{f}" for f in t.fields)
            rp = " ".join(f"rhs_{f}" for f in t.fields)
            body_txt = t.expr(ret)
            arms.append(f"  | {t.ctor} {lp}, {t.ctor} {rp} =>\n      {body_txt}")
            eq_txt = body_txt
            for nm in ("all_zip_args", "all_zip_dict", "all_zip", "opt_equiv"):
                eq_txt = eq_txt.replace(f"{nm} lhs_", f"{nm}_of is_equiv lhs_")
            eqs.append(f"Lemma is_equiv_{t.ctor} {lp} {rp} :\n  is_equiv ({t.ctor} {lp}) ({t.ctor} {rp}) =\n  ({eq_txt}).\n"
                       "Proof. reflexivity. Qed.\n")
            tags.append(t.ctor)
    out = ["(* generated from refurb/checks/common.py: is_equivalent *)",
           "From Lib Require Import Base PyAst Equiv.", "Open Scope list_scope.", "",
           "Definition none_case_present : bool := %s." % ("true" if none_case else "false"), "",
           "Fixpoint is_equiv (lhs rhs : expr) {struct lhs} : bool :=",
           "  let all_zip := fix all_zip (l1 l2 : list expr) : bool :=",
           "    match l1, l2 with x :: r1, y :: r2 => is_equiv x y && all_zip r1 r2 | _, _ => true end in",
           "  let all_zip_args := fix all_zip_args (l1 l2 : list (argkind * option string * expr)) : bool :=",
           "    match l1, l2 with (_, x) :: r1, (_, y) :: r2 => is_equiv x y && all_zip_args r1 r2 | _, _ => true end in",
           "  let opt_equiv := fun (o1 o2 : option expr) =>",
           "    match o1, o2 with",
           "    | None, None => true",
           "    | Some x, Some y => is_equiv x y",
           "    | Some x, None => String.eqb (strconv x) \"None\"",
           "    | None, Some y => String.eqb \"None\" (strconv y)",
           "    end in",
           "  let all_zip_dict := fix all_zip_dict (l1 l2 : list (option expr * expr)) : bool :=",
           "    match l1, l2 with",
           "    | (k1, v1) :: r1, (k2, v2) :: r2 => opt_equiv k1 k2 && is_equiv v1 v2 && all_zip_dict r1 r2",
           "    | _, _ => true end in",
           "  match lhs, rhs with"]
    out += arms
    out += ["  | _, _ => String.eqb (strconv lhs) (strconv rhs)", "  end.", ""]
    # characterising equations: the hand proofs depend on these, not on the definition's text
    out += ["(* one equation per case of the source function *)"] + eqs
    arity = {c: len(f) for c, f, _ in CLASSES.values()}
    out += ["Definition explicit_tag (e : expr) : nat :=", "  match e with"]
    for i, c in enumerate(tags):
        out.append(f"  | {c} {' '.join('_' * 1 for _ in range(arity[c]))} => {i + 1}")
    out += ["  | _ => 0", "  end.", "",
            "Lemma is_equiv_fallback a b :",
            "  explicit_tag a = 0 \\/ explicit_tag a <> explicit_tag b ->",
            "  is_equiv a b = String.eqb (strconv a) (strconv b).",
            "Proof.",
            "  destruct a, b; intros [H|H]; try reflexivity; simpl in H; try discriminate; exfalso; apply H; reflexivity.",
            "Qed.", ""]
    return "\n".join(out)
