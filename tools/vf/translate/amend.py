"""Translate refurb/main.py:is_ignored_via_amend into Gallina (GenAmend.v), fail-closed.

The function is a loop that files path-scoped ignore entries into two sets and a final membership test.
Statements are translated structurally (locals -> let, the two set accumulators -> the state of a fold_left
over settings.ignore, the nested ifs -> conditionals on the state); pathlib calls are mapped to the
operations of Lib/Paths.v, which is where the modelling of the library lives (trusted, tied by C12's
correspondence on real directory trees):

    Path(x).resolve()              resolve cwd x            Path(f).parent     parent_of f
    (a / b).resolve()              resolve cwd (join_path a b)                 Path()   "."
    p.is_relative_to(q)            is_prefix q p            str(code)          code_text prefix id
"""
from __future__ import annotations

import ast
from pathlib import Path

from .catalogue import TranslateError


def fail(n, msg):
    raise TranslateError(f"amend:{getattr(n, 'lineno', '?')}: {msg}: {ast.unparse(n)[:100]}")


class Tr:
    def __init__(self):
        self.sets: list[str] = []          # accumulator names, in declaration order

    # value expressions: (coq term, type)  with types  P resolved path (component list), S path text, STR string
    def val(self, e, env):
        src = ast.unparse(e)
        if isinstance(e, ast.Name) and e.id in env:
            return env[e.id]
        if src == "Path(error.filename).resolve()":
            return "(resolve cwd filename)", "P"
        if src == "str(ErrorCode.from_error(type(error)))":
            return "(code_text prefix id)", "STR"
        if src == "Path(settings.config_file).parent if settings.config_file else Path()":
            return '(match config_file with Some f => parent_of f | None => "."%string end)', "S"
        if isinstance(e, ast.Call) and isinstance(e.func, ast.Attribute) and e.func.attr == "resolve" and not e.args \
                and isinstance(e.func.value, ast.BinOp) and isinstance(e.func.value.op, ast.Div):
            (a, ta), (b, tb) = self.val(e.func.value.left, env), self.val(e.func.value.right, env)
            if ta != "S" or tb != "S":
                fail(e, "path join of non-paths")
            return f"(resolve cwd (join_path {a} {b}))", "P"
        if src == "ignore.path" and "ignore" in env:
            return "ignore_path_text", "S"
        if src == "str(ignore)" and env.get("ignore_is") == "code":
            return "(code_text ig_prefix ig_id)", "STR"
        if src == "ignore.value" and env.get("ignore_is") == "cat":
            return "ig_value", "STR"
        fail(e, "unrecognised value")

    def cond(self, e, env) -> str:
        src = ast.unparse(e)
        if isinstance(e, ast.Call) and isinstance(e.func, ast.Attribute) and e.func.attr == "is_relative_to" and len(e.args) == 1:
            (p, tp), (q, tq) = self.val(e.func.value, env), self.val(e.args[0], env)
            if tp != "P" or tq != "P":
                fail(e, "is_relative_to of unresolved paths")
            return f"is_prefix {q} {p}"
        fail(e, f"unrecognised condition {src}")

    def loop_body(self, stmts, env) -> str:
        """state transformer: Coq term of type (list string * list string) given the current `acc`"""
        if not stmts:
            return "acc"
        st, rest = stmts[0], stmts[1:]
        if rest:
            if isinstance(st, ast.Assign) and len(st.targets) == 1 and isinstance(st.targets[0], ast.Name):
                t, ty = self.val(st.value, env)
                env2 = dict(env)
                env2[st.targets[0].id] = (st.targets[0].id, ty)
                return f"(let {st.targets[0].id} := {t} in {self.loop_body(rest, env2)})"
            fail(st, "statement followed by others inside the loop")
        if isinstance(st, ast.If):
            src = ast.unparse(st.test)
            if src == "ignore.path":
                if st.orelse:
                    fail(st, "else branch of `if ignore.path`")
                return f"(match entry_path ignore with Some ignore_path_text => {self.loop_body(st.body, env)} | None => acc end)"
            if src == "isinstance(ignore, ErrorCode)":
                a = self.loop_body(st.body, dict(env, ignore_is="code"))
                b = self.loop_body(st.orelse, dict(env, ignore_is="cat")) if st.orelse else "acc"
                return f"(match ignore with Code ig_prefix ig_id _ => {a} | Cat ig_value _ => {b} end)"
            if st.orelse:
                fail(st, "else branch")
            return f"(if {self.cond(st.test, env)} then {self.loop_body(st.body, env)} else acc)"
        if isinstance(st, ast.Expr) and isinstance(st.value, ast.Call) and isinstance(st.value.func, ast.Attribute) and st.value.func.attr == "add" \
                and isinstance(st.value.func.value, ast.Name) and st.value.func.value.id in self.sets and len(st.value.args) == 1:
            t, ty = self.val(st.value.args[0], env)
            if ty != "STR":
                fail(st, "adds a non-string to the set")
            i = self.sets.index(st.value.func.value.id)
            return f"(let '(s0, s1) := acc in {'(' + t + ' :: s0, s1)' if i == 0 else '(s0, ' + t + ' :: s1)'})"
        fail(st, "unrecognised statement in the loop")

    def final(self, e, env) -> str:
        if isinstance(e, ast.BoolOp) and isinstance(e.op, ast.Or):
            return "(" + " || ".join(self.final(v, env) for v in e.values) + ")"
        if isinstance(e, ast.Compare) and len(e.ops) == 1 and isinstance(e.ops[0], ast.In) and isinstance(e.comparators[0], ast.Name) and e.comparators[0].id in self.sets:
            t, ty = self.val(e.left, env)
            if ty != "STR":
                fail(e, "membership of a non-string")
            return f"existsb (String.eqb {t}) s{self.sets.index(e.comparators[0].id)}"
        src = ast.unparse(e)
        for i, s in enumerate(self.sets):
            if src == f"bool({s}.intersection(error.categories))":
                return f"existsb (fun c => existsb (String.eqb c) cats) s{i}"
        fail(e, "unrecognised result")


def translate(repo: Path) -> str:
    tree = ast.parse((repo / "refurb" / "main.py").read_text("utf8"))
    fn = next((n for n in tree.body if isinstance(n, ast.FunctionDef) and n.name == "is_ignored_via_amend"), None)
    if fn is None or [a.arg for a in fn.args.args] != ["error", "settings"]:
        raise TranslateError("amend: is_ignored_via_amend(error, settings) not found")
    body = [s for s in fn.body if not (isinstance(s, ast.Expr) and isinstance(s.value, ast.Constant)) and not isinstance(s, ast.Assert)]
    tr = Tr()
    env: dict = {}
    lets = []
    i = 0
    while i < len(body) and isinstance(body[i], ast.Assign):
        st = body[i]
        if len(st.targets) != 1 or not isinstance(st.targets[0], ast.Name):
            fail(st, "assignment target")
        name = st.targets[0].id
        if ast.unparse(st.value) == "set[str]()":
            tr.sets.append(name)
        else:
            t, ty = tr.val(st.value, env)
            env[name] = (name, ty)
            lets.append(f"let {name} := {t} in")
        i += 1
    if len(tr.sets) != 2 or i + 2 != len(body):
        raise TranslateError("amend: expected two `set[str]()` accumulators, one loop and a return")
    loop, ret = body[i], body[i + 1]
    if not (isinstance(loop, ast.For) and ast.unparse(loop.target) == "ignore" and ast.unparse(loop.iter) == "settings.ignore" and not loop.orelse):
        fail(loop, "expected `for ignore in settings.ignore`")
    if any(isinstance(x, (ast.Break, ast.Continue, ast.Return)) for x in ast.walk(loop)):
        fail(loop, "break/continue/return inside the loop")
    if not isinstance(ret, ast.Return):
        fail(ret, "expected return")
    step = tr.loop_body(loop.body, dict(env, ignore=("ignore", "CLS")))
    res = tr.final(ret.value, env)
    return ("(* generated from refurb/main.py:is_ignored_via_amend *)\n"
            "From Lib Require Import Base Select Paths.\nOpen Scope list_scope.\nOpen Scope bool_scope.\n\n"
            "Section Amend.\n  Variable code_text : string -> N -> string.      (* str(ErrorCode): prefix followed by the number *)\n\n"
            "  Definition amend_step (cwd : list comp) (config_file : option string) (filename prefix : string) (id : N)\n"
            "      (acc : list string * list string) (ignore : cls) : list string * list string :=\n    "
            + "\n    ".join(lets) + "\n    " + step + ".\n\n"
            "  Definition amend_translated (cwd : list comp) (config_file : option string) (ignores : list cls)\n"
            "      (filename prefix : string) (id : N) (cats : list string) : bool :=\n    "
            + "\n    ".join(lets) + "\n    "
            "let '(s0, s1) := fold_left (amend_step cwd config_file filename prefix id) ignores ([], []) in\n    " + res + ".\nEnd Amend.\n")
