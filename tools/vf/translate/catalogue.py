"""Static (ast) extraction of the check catalogue from /repo/refurb/checks.

Fail-closed: anything outside the recognised shapes raises TranslateError."""
from __future__ import annotations

import ast
import os
from pathlib import Path


class TranslateError(Exception):
    pass


def walk_modules(pkg_dir: Path, prefix: str):
    """Mirror pkgutil.walk_packages order: sorted directory entries; a package is
    yielded (ispkg) then descended into."""
    names = sorted(os.listdir(pkg_dir))
    seen = set()
    for fn in names:
        p = pkg_dir / fn
        if p.is_dir() and (p / "__init__.py").exists():
            mod = fn
            if mod in seen:
                continue
            seen.add(mod)
            yield from walk_modules(p, f"{prefix}{mod}.")
        elif fn.endswith(".py") and fn != "__init__.py":
            mod = fn[:-3]
            if mod in seen:
                continue
            seen.add(mod)
            yield f"{prefix}{mod}", p


def _lit(node, what, path):
    try:
        return ast.literal_eval(node)
    except Exception as e:  # noqa: BLE001
        raise TranslateError(f"{path}: {what} is not a literal: {ast.dump(node)[:80]}") from e


def _is_error_base(cls: ast.ClassDef) -> bool:
    return any(isinstance(b, ast.Name) and b.id == "Error" for b in cls.bases)


def parse_check_module(modname: str, path: Path) -> dict | None:
    src = path.read_text("utf8")
    tree = ast.parse(src)
    # get_error_class: first name in dir(module) (sorted) starting with "Error",
    # not Error/ErrorCode(/ErrorCategory), that is a subclass of Error.
    cands = sorted(
        (n for n in tree.body if isinstance(n, ast.ClassDef) and n.name.startswith("Error")
         and n.name not in ("Error", "ErrorCode", "ErrorCategory")),
        key=lambda c: c.name,
    )
    cands = [c for c in cands if _is_error_base(c)]
    if not cands:
        return None
    cls = cands[0]
    info = {
        "module": modname, "path": str(path), "class": cls.name, "prefix": "FURB",
        "enabled": True, "name": None, "categories": (), "code": None, "msg": None,
        "doc": ast.get_docstring(cls, clean=False), "lineno": cls.lineno,
    }
    for st in cls.body:
        tgt = val = None
        if isinstance(st, ast.Assign) and len(st.targets) == 1 and isinstance(st.targets[0], ast.Name):
            tgt, val = st.targets[0].id, st.value
        elif isinstance(st, ast.AnnAssign) and isinstance(st.target, ast.Name) and st.value is not None:
            tgt, val = st.target.id, st.value
        if tgt in ("prefix", "enabled", "name", "categories", "code"):
            info[tgt] = _lit(val, tgt, path)
        elif tgt == "msg":
            try:
                info["msg"] = ast.literal_eval(val)
            except Exception:  # noqa: BLE001
                info["msg"] = None
    if not isinstance(info["code"], int):
        raise TranslateError(f"{path}: class {cls.name} has no literal integer code")
    if not isinstance(info["categories"], tuple) or not all(isinstance(c, str) for c in info["categories"]):
        raise TranslateError(f"{path}: categories is not a tuple of strings")
    if not isinstance(info["enabled"], bool) or not isinstance(info["prefix"], str):
        raise TranslateError(f"{path}: enabled/prefix ill-typed")
    if info["name"] is not None and not isinstance(info["name"], str):
        raise TranslateError(f"{path}: name ill-typed")
    # the check function and its subscribed node types
    info["node_types"] = []
    info["takes_settings"] = False
    info["has_check"] = False
    for st in tree.body:
        if isinstance(st, ast.FunctionDef) and st.name == "check":
            info["has_check"] = True
            args = st.args.args
            if len(args) not in (2, 3):
                raise TranslateError(f"{path}: check() takes {len(args)} parameters")
            ann = args[0].annotation
            info["node_types"] = _union_names(ann, path)
            info["takes_settings"] = len(args) == 3
            info["n_annotations"] = sum(1 for a in args if a.annotation is not None) + (st.returns is not None)
    info["tree"] = tree
    info["source"] = src
    return info


def _union_names(ann, path) -> list[str]:
    if isinstance(ann, ast.BinOp) and isinstance(ann.op, ast.BitOr):
        return _union_names(ann.left, path) + _union_names(ann.right, path)
    if isinstance(ann, ast.Name):
        return [ann.id]
    if isinstance(ann, ast.Attribute):
        return [ann.attr]
    raise TranslateError(f"{path}: unrecognised node annotation {ast.dump(ann)[:80]}")


def catalogue(repo: Path) -> list[dict]:
    root = repo / "refurb" / "checks"
    out = []
    for modname, path in walk_modules(root, "refurb.checks."):
        info = parse_check_module(modname, path)
        if info is not None:
            out.append(info)
    if not out:
        raise TranslateError("no checks found")
    return out
