"""Extract the python-version gates of every check (fail-closed)."""
from __future__ import annotations

import ast

from .catalogue import TranslateError


def _is_version_call(n) -> bool:
    return (isinstance(n, ast.Call) and isinstance(n.func, ast.Attribute)
            and n.func.attr == "get_python_version")


def _mentions_version(n) -> bool:
    for x in ast.walk(n):
        if _is_version_call(x):
            return True
        if isinstance(x, ast.Attribute) and x.attr == "python_version":
            return True
        if isinstance(x, ast.Name) and x.id in ("get_python_version", "version_info"):
            return True
    return False


def _cmp(n):
    """(op, minor) for `settings.get_python_version() <op> (3, minor)`."""
    if (isinstance(n, ast.Compare) and _is_version_call(n.left) and len(n.ops) == 1
            and isinstance(n.comparators[0], ast.Tuple) and len(n.comparators[0].elts) == 2):
        a, b = n.comparators[0].elts
        if isinstance(a, ast.Constant) and a.value == 3 and isinstance(b, ast.Constant) and isinstance(b.value, int):
            return type(n.ops[0]).__name__, b.value
    return None


def module_gates(info: dict) -> list[tuple]:
    tree = info["tree"]
    gates: list[tuple] = []
    consumed = set()
    for fn in [n for n in ast.walk(tree) if isinstance(n, ast.FunctionDef)]:
        # leading `if v < (3, n): return` statements of check()
        if fn.name == "check":
            for st in fn.body:
                if isinstance(st, ast.Expr) and isinstance(st.value, ast.Constant):
                    continue
                c = _cmp(st.test) if isinstance(st, ast.If) else None
                if (c and c[0] == "Lt" and len(st.body) == 1 and isinstance(st.body[0], ast.Return)
                        and st.body[0].value is None and not st.orelse):
                    gates.append(("return", c[1]))
                    consumed.add(id(st.test))
                else:
                    break
    for n in ast.walk(tree):
        if isinstance(n, ast.IfExp):
            c = _cmp(n.test)
            if c and c[0] == "GtE" and all(isinstance(x, ast.Constant) and isinstance(x.value, str)
                                            for x in (n.body, n.orelse)):
                gates.append(("switch", c[1], n.body.value, n.orelse.value))
                consumed.add(id(n.test))
    # the only source of the version is the run's settings: no other clock (sys.version_info, the module-level
    # refurb.settings.get_python_version, which answers for the interpreter refurb runs on)
    for n in ast.walk(tree):
        if isinstance(n, ast.ImportFrom) and any(a.name in ("get_python_version", "version_info") for a in n.names):
            raise TranslateError(f"{info['path']}:{n.lineno}: imports {[a.name for a in n.names]}: a version that is not the configured target")
        if isinstance(n, ast.Name) and n.id in ("get_python_version", "version_info"):
            raise TranslateError(f"{info['path']}:{n.lineno}: uses `{n.id}`, which is not the configured target version")
        if isinstance(n, ast.Attribute) and n.attr == "version_info":
            raise TranslateError(f"{info['path']}:{n.lineno}: uses `{ast.unparse(n)}`, which is not the configured target version")
        if _is_version_call(n) and not (isinstance(n.func.value, ast.Name) and n.func.value.id == "settings"):
            raise TranslateError(f"{info['path']}:{n.lineno}: `{ast.unparse(n)}` is not `settings.get_python_version()`")
    # every other mention of the version is outside the recognised shapes
    for n in ast.walk(tree):
        if isinstance(n, ast.Compare) and id(n) in consumed:
            continue
        if _is_version_call(n) or (isinstance(n, ast.Attribute) and n.attr == "python_version"):
            parent_ok = any(isinstance(p, ast.Compare) and id(p) in consumed and p.left is n for p in ast.walk(tree))
            if not parent_ok:
                raise TranslateError(
                    f"{info['path']}:{getattr(n, 'lineno', '?')}: python-version test outside the recognised gate shapes")
    return gates
