"""Translate loader.should_load_check and Settings.merge into Coq (GenSelect.v).
Fail-closed expression translator for the straight-line boolean/set code they are
written in."""
from __future__ import annotations

import ast
from pathlib import Path

from .catalogue import TranslateError

# settings fields: name -> kind  (L list, S set of classifiers, B bool, O option)
FIELDS = {
    "files": "L", "explain": "O", "ignore": "S", "load": "L", "enable": "S", "disable": "S", "debug": "B",
    "generate": "B", "help": "B", "version": "B", "quiet": "B", "enable_all": "B", "disable_all": "B",
    "config_file": "O", "python_version": "O", "mypy_args": "L", "format": "O", "sort_by": "O", "verbose": "B",
    "timing_stats": "O", "color": "B",
}
FIELD_ORDER = list(FIELDS)


def fail(n, msg):
    raise TranslateError(f"selection:{getattr(n, 'lineno', '?')}: {msg}: {ast.unparse(n)[:90]}")


class Expr:
    """Translates expressions; `env` maps local names to (coq term, kind)."""

    def __init__(self, env):
        self.env = dict(env)

    def tr(self, e):
        """-> (coq, kind) with kind in S (set), B (bool), L, O, C (classifier)"""
        if isinstance(e, ast.Name):
            if e.id in self.env:
                return self.env[e.id]
            fail(e, "unknown name")
        if isinstance(e, ast.Constant) and isinstance(e.value, bool):
            return ("true" if e.value else "false"), "B"
        if isinstance(e, ast.Attribute) and isinstance(e.value, ast.Name):
            base, attr = e.value.id, e.attr
            if base in self.env and self.env[base][1] == "SETTINGS":
                if attr not in FIELDS:
                    fail(e, "unknown settings field")
                return f"({attr} {self.env[base][0]})", FIELDS[attr]
            if base == "error":
                if attr == "enabled":
                    return "(k_enabled k)", "B"
                if attr == "categories":
                    return "(k_cats k)", "CATS"
            fail(e, "unknown attribute")
        if isinstance(e, ast.Call):
            if ast.unparse(e) == "ErrorCode.from_error(error)":
                return "(Code (k_prefix k) (k_id k) None)", "C"
            if ast.unparse(e.func) == "set" and not e.args:
                return "[]", "S"
            fail(e, "unknown call")
        if isinstance(e, ast.SetComp):
            if ast.unparse(e) == "{ErrorCategory(cat) for cat in error.categories}":
                return "(map (fun cat => Cat cat None) (k_cats k))", "S"
            fail(e, "unknown comprehension")
        if isinstance(e, ast.Compare) and len(e.ops) == 1 and isinstance(e.ops[0], ast.In):
            a, ka = self.tr(e.left)
            b, kb = self.tr(e.comparators[0])
            if ka != "C" or kb != "S":
                fail(e, "`in` needs classifier in set")
            return f"(inb {a} {b})", "B"
        if isinstance(e, ast.BinOp):
            a, ka = self.tr(e.left)
            b, kb = self.tr(e.right)
            if isinstance(e.op, ast.Add) and ka == kb == "L":
                return f"({a} ++ {b})", "L"
            if ka != "S" or kb != "S":
                fail(e, "set operator on non-sets")
            op = {ast.BitOr: "union", ast.BitAnd: "inter", ast.Sub: "diff"}.get(type(e.op))
            if op is None:
                fail(e, "unknown operator")
            return f"({op} {a} {b})", "S"
        if isinstance(e, ast.BoolOp):
            parts = [self.tr(v) for v in e.values]
            kinds = {k for _, k in parts}
            if isinstance(e.op, ast.Or) and kinds == {"L"}:
                return "(or_list %s %s)" % (parts[0][0], parts[1][0]), "L"
            if isinstance(e.op, ast.Or) and kinds == {"O"}:
                return "(or_opt %s %s)" % (parts[0][0], parts[1][0]), "O"
            terms = [self.truth(v) for v in e.values]
            return "(" + (" || " if isinstance(e.op, ast.Or) else " && ").join(terms) + ")", "B"
        if isinstance(e, ast.UnaryOp) and isinstance(e.op, ast.Not):
            return f"(negb {self.truth(e.operand)})", "B"
        fail(e, "unrecognised expression")

    def truth(self, e) -> str:
        t, k = self.tr(e)
        if k == "B":
            return t
        if k == "S":
            return f"(nonempty {t})"
        fail(e, f"truthiness of kind {k}")


def tr_block(body, ex: Expr) -> str:
    """statements -> a Coq term of type bool (all paths return)."""
    body = [s for s in body if not (isinstance(s, ast.Expr) and isinstance(s.value, ast.Constant))]
    if not body:
        raise TranslateError("selection: block falls off the end")
    st, rest = body[0], body[1:]
    if isinstance(st, ast.Return):
        if rest:
            fail(st, "code after return")
        return ex.truth(st.value)
    if isinstance(st, ast.Assign) and len(st.targets) == 1 and isinstance(st.targets[0], ast.Name):
        t, k = ex.tr(st.value)
        name = st.targets[0].id
        ex2 = Expr(ex.env)
        ex2.env[name] = (name, k)
        return f"let {name} := {t} in\n  {tr_block(rest, ex2)}"
    if isinstance(st, ast.If) and not st.orelse:
        return f"if {ex.truth(st.test)} then ({tr_block(st.body, ex)})\n  else ({tr_block(rest, ex)})"
    fail(st, "unrecognised statement")


def translate(repo: Path) -> str:
    out = ["(* generated from refurb/loader.py:should_load_check and refurb/settings.py:Settings.merge *)",
           "From Lib Require Import Base Select.", "Open Scope list_scope.", "Open Scope bool_scope.", ""]
    # ---- should_load_check
    tree = ast.parse((repo / "refurb" / "loader.py").read_text("utf8"))
    fn = next((n for n in tree.body if isinstance(n, ast.FunctionDef) and n.name == "should_load_check"), None)
    if fn is None or [a.arg for a in fn.args.args] != ["settings", "error"]:
        raise TranslateError("should_load_check(settings, error) not found")
    ex = Expr({"settings": ("s", "SETTINGS")})
    out += ["Definition should_load (s : settings) (k : chk) : bool :=", "  " + tr_block(fn.body, ex) + ".", ""]
    # ---- Settings.merge
    tree = ast.parse((repo / "refurb" / "settings.py").read_text("utf8"))
    cls = next(n for n in tree.body if isinstance(n, ast.ClassDef) and n.name == "Settings")
    fn = next((n for n in cls.body if isinstance(n, ast.FunctionDef) and n.name == "merge"), None)
    if fn is None or [a.arg for a in fn.args.args] != ["old", "new"]:
        raise TranslateError("Settings.merge(old, new) not found")
    body = [s for s in fn.body if not (isinstance(s, ast.Expr) and isinstance(s.value, ast.Constant))]
    if len(body) != 2 or not isinstance(body[0], ast.If) or not isinstance(body[1], ast.Return):
        raise TranslateError("Settings.merge is not `if ...: enable/disable = ...; return Settings(...)`")
    ex = Expr({"old": ("old", "SETTINGS"), "new": ("new", "SETTINGS")})

    def branch(stmts):
        vals = {}
        for st in stmts:
            if not (isinstance(st, ast.Assign) and len(st.targets) == 1 and isinstance(st.targets[0], ast.Name)
                    and st.targets[0].id in ("enable", "disable")):
                fail(st, "merge branch may only assign enable/disable")
            e2 = Expr(ex.env)
            for k2, v2 in vals.items():
                e2.env[k2] = (f"({v2})", "S")
            t, k = e2.tr(st.value)
            if k != "S":
                fail(st, "enable/disable must be sets")
            vals[st.targets[0].id] = t
        if set(vals) != {"enable", "disable"}:
            fail(stmts[0], "branch must assign both enable and disable")
        return f"({vals['enable']}, {vals['disable']})"

    def ifchain(node):
        if isinstance(node, ast.If):
            orelse = node.orelse
            if len(orelse) == 1 and isinstance(orelse[0], ast.If):
                rest = ifchain(orelse[0])
            else:
                rest = branch(orelse)
            return f"if {ex.truth(node.test)} then {branch(node.body)}\n    else {rest}"
        fail(node, "expected if")
    out += ["Definition merge_lists (old new : settings) : list cls * list cls :=", "  " + ifchain(body[0]) + ".", ""]
    call = body[1].value
    if not (isinstance(call, ast.Call) and ast.unparse(call.func) == "Settings" and not call.args):
        fail(body[1], "merge must return Settings(field=...)")
    kws = {k.arg: k.value for k in call.keywords}
    if set(kws) != set(FIELDS):
        raise TranslateError(f"Settings.merge sets fields {sorted(set(kws) ^ set(FIELDS))} differently from the dataclass")
    ex2 = Expr(ex.env)
    ex2.env["enable"] = ("(fst (merge_lists old new))", "S")
    ex2.env["disable"] = ("(snd (merge_lists old new))", "S")
    rows = []
    for f in FIELD_ORDER:
        t, k = ex2.tr(kws[f])
        if k != FIELDS[f]:
            fail(kws[f], f"field {f} has kind {k}, expected {FIELDS[f]}")
        rows.append(f"{f} := {t}")
    out += ["Definition merge (old new : settings) : settings :=", "  {| " + ";\n     ".join(rows) + " |}.", ""]
    return "\n".join(out)
