"""Translate TraverserVisitor-style classes into per-method child schedules.

Works on refurb/visitor/traverser.py, on RefurbVisitor's overrides and on the
installed mypy's own mypy/traverser.py (the reference enumeration of syntactic
children).  Fail-closed: any statement outside the recognised shapes aborts."""
from __future__ import annotations

import ast
from dataclasses import dataclass
from pathlib import Path

from .catalogue import TranslateError


@dataclass(frozen=True)
class Sel:
    path: str          # access path from the node, e.g. "else_body", "items[*].0", "arguments[*].initializer"
    guard: str         # "" | "notnone" | "truthy" | "cond:<expr>"
    via: str           # "accept" | "visit_var" (direct method call instead of dispatch)


class MethodTranslator:
    def __init__(self, src_name: str, methods: dict[str, ast.FunctionDef]):
        self.src = src_name
        self.methods = methods
        self.cache: dict[str, list] = {}

    def err(self, node, msg):
        raise TranslateError(f"{self.src}:{getattr(node, 'lineno', '?')}: {msg}: {ast.unparse(node)[:80]}")

    def schedule(self, name: str) -> list:
        """list of Sel | ('checks', TypeName)"""
        if name in self.cache:
            return self.cache[name]
        fn = self.methods[name]
        params = [a.arg for a in fn.args.args]
        if len(params) != 2:
            self.err(fn, "visit method must take (self, o)")
        env = {params[1]: ""}
        out: list = []
        self.block(fn.body, env, "", out, set())
        self.cache[name] = out
        return out

    # -- access paths
    def path(self, e, env, idx):
        if isinstance(e, ast.Name):
            if e.id in env:
                return env[e.id]
            self.err(e, "unknown name in access path")
        if isinstance(e, ast.Attribute):
            base = self.path(e.value, env, idx)
            return (base + "." if base else "") + e.attr
        if isinstance(e, ast.Subscript) and isinstance(e.slice, ast.Name) and e.slice.id in idx:
            return self.path(e.value, env, idx) + "[*]"
        if (isinstance(e, ast.Call) and isinstance(e.func, ast.Attribute) and e.func.attr == "values"
                and not e.args and not e.keywords):
            return self.path(e.func.value, env, idx) + ".values()"
        self.err(e, "unrecognised access path")

    def accept_arg(self, call):
        """X for accept(X, self) | X.accept(self) | self.accept(X); None otherwise."""
        if not isinstance(call, ast.Call):
            return None
        f = call.func
        if isinstance(f, ast.Name) and f.id == "accept" and len(call.args) == 2:
            return call.args[0]
        if isinstance(f, ast.Attribute) and f.attr == "accept" and len(call.args) == 1:
            if isinstance(f.value, ast.Name) and f.value.id == "self":
                return call.args[0]
            if isinstance(call.args[0], ast.Name) and call.args[0].id == "self":
                return f.value
        return None

    def guard_of(self, test, env, idx):
        """(kind, path) for `X is not None` / `X`; ('cond', text) otherwise."""
        if (isinstance(test, ast.Compare) and len(test.ops) == 1 and isinstance(test.ops[0], ast.IsNot)
                and isinstance(test.comparators[0], ast.Constant) and test.comparators[0].value is None):
            return "notnone", self.path(test.left, env, idx)
        if isinstance(test, (ast.Name, ast.Attribute, ast.Subscript)):
            return "truthy", self.path(test, env, idx)
        if isinstance(test, ast.Compare):
            txt = ast.unparse(test).replace("mypy.nodes.", "")
            return "cond:" + txt, None
        self.err(test, "unrecognised guard")

    def block(self, body, env, guard, out, idx):
        env = dict(env)
        idx = set(idx)
        for st in body:
            if isinstance(st, ast.Pass) or isinstance(st, ast.Assert):
                continue
            if isinstance(st, ast.Expr) and isinstance(st.value, ast.Constant):
                continue
            if isinstance(st, ast.Return) and st.value is not None:
                st = ast.Expr(value=st.value)
            if isinstance(st, ast.Expr):
                x = self.accept_arg(st.value)
                if x is not None:
                    p = self.path(x, env, idx)
                    g = guard if guard.startswith("cond:") else (guard.split("|")[0] if guard and guard.split("|")[1] == p else "")
                    out.append(Sel(p, g, "accept"))
                    continue
                c = st.value
                if (isinstance(c, ast.Call) and isinstance(c.func, ast.Attribute)
                        and isinstance(c.func.value, ast.Name) and c.func.value.id == "self"):
                    if c.func.attr == "visit_var" and len(c.args) == 1:
                        out.append(Sel(self.path(c.args[0], env, idx), "", "visit_var"))
                        continue
                    if c.func.attr.startswith("visit_") and len(c.args) == 1 and self.path(c.args[0], env, idx) == "":
                        out.append(("inline", c.func.attr))
                        continue
                    if c.func.attr == "run_check":
                        continue  # handled by the enclosing `for check in self.checks[T]`
                self.err(st, "unrecognised expression statement")
            if isinstance(st, ast.Assign) and len(st.targets) == 1 and isinstance(st.targets[0], ast.Name):
                env[st.targets[0].id] = self.path(st.value, env, idx)
                continue
            if isinstance(st, ast.If):
                kind, p = self.guard_of(st.test, env, idx)
                g = kind if kind.startswith("cond:") else f"{kind}|{p}"
                self.block(st.body, env, g, out, idx)
                if st.orelse and not all(isinstance(x, ast.Pass) for x in st.orelse):
                    self.err(st, "else branch with effects")
                continue
            if isinstance(st, ast.For):
                it, tg = st.iter, st.target
                # for check in self.checks[T]: self.run_check(o, check)
                if (isinstance(it, ast.Subscript) and isinstance(it.value, ast.Attribute)
                        and it.value.attr == "checks" and isinstance(it.slice, ast.Name)):
                    out.append(("checks", it.slice.id))
                    continue
                env2, idx2 = dict(env), set(idx)
                if (isinstance(it, ast.Call) and isinstance(it.func, ast.Name) and it.func.id == "range"
                        and len(it.args) == 1 and isinstance(it.args[0], ast.Call)
                        and isinstance(it.args[0].func, ast.Name) and it.args[0].func.id == "len"
                        and isinstance(tg, ast.Name)):
                    idx2.add(tg.id)
                elif (isinstance(it, ast.Call) and isinstance(it.func, ast.Name) and it.func.id == "zip"
                      and isinstance(tg, ast.Tuple) and len(tg.elts) == len(it.args)):
                    for n, a in zip(tg.elts, it.args):
                        env2[n.id] = self.path(a, env, idx) + "[*]"
                elif isinstance(tg, ast.Tuple) and all(isinstance(n, ast.Name) for n in tg.elts):
                    base = self.path(it, env, idx)
                    for i, n in enumerate(tg.elts):
                        env2[n.id] = f"{base}[*].{i}"
                elif isinstance(tg, ast.Name):
                    env2[tg.id] = self.path(it, env, idx) + "[*]"
                else:
                    self.err(st, "unrecognised loop")
                if st.orelse:
                    self.err(st, "for-else")
                self.block(st.body, env2, guard, out, idx2)
                continue
            self.err(st, "unrecognised statement")

    def flat(self, name: str, seen=()) -> list:
        if name in seen:
            raise TranslateError(f"{self.src}: recursive inline {name}")
        res = []
        for x in self.schedule(name):
            if isinstance(x, tuple) and x[0] == "inline":
                res += self.flat(x[1], seen + (name,))
            else:
                res.append(x)
        return res


def class_methods(path: Path, cls: str) -> dict[str, ast.FunctionDef]:
    tree = ast.parse(path.read_text("utf8"))
    for n in tree.body:
        if isinstance(n, ast.ClassDef) and n.name == cls:
            return {m.name: m for m in n.body if isinstance(m, ast.FunctionDef)}
    raise TranslateError(f"{path}: class {cls} not found")


def registry(path: Path) -> dict[str, object]:
    """@accept.register functions: node class -> visit method name, or (for overloads
    that traverse children themselves) the list of Sel they visit."""
    tree = ast.parse(path.read_text("utf8"))
    out: dict[str, object] = {}
    for n in tree.body:
        if isinstance(n, ast.FunctionDef) and any(
                isinstance(d, ast.Attribute) and d.attr == "register" for d in n.decorator_list):
            if len(n.args.args) != 2:
                raise TranslateError(f"{path}:{n.lineno}: accept overload must take (node, visitor)")
            cls = ast.unparse(n.args.args[0].annotation).split(".")[-1]
            nodev, visv = n.args.args[0].arg, n.args.args[1].arg
            body = [s for s in n.body if not (isinstance(s, ast.Expr) and isinstance(s.value, ast.Constant))]
            if (len(body) == 1 and isinstance(body[0], ast.Return) and isinstance(body[0].value, ast.Call)
                    and isinstance(body[0].value.func, ast.Attribute) and isinstance(body[0].value.func.value, ast.Name)
                    and body[0].value.func.value.id == visv and len(body[0].value.args) == 1
                    and isinstance(body[0].value.args[0], ast.Name) and body[0].value.args[0].id == nodev):
                out[cls] = body[0].value.func.attr
                continue
            # an overload that walks children itself: accept(node.f, visitor) statements
            mt = MethodTranslator(str(path), {})
            sels: list = []
            # rewrite accept(X, visitor) -> accept(X, self) shape understood by the translator
            class R(ast.NodeTransformer):
                def visit_Name(self, x):
                    return ast.copy_location(ast.Name(id="self", ctx=x.ctx), x) if x.id == visv else x
            nb = [R().visit(s) for s in body]
            mt.block(nb, {nodev: ""}, "", sels, set())
            if any(not isinstance(x, Sel) for x in sels):
                raise TranslateError(f"{path}:{n.lineno}: unrecognised accept overload body")
            out[cls] = sels
    return out


def mapping(path: Path) -> dict[str, str]:
    tree = ast.parse(path.read_text("utf8"))
    for n in ast.walk(tree):
        if isinstance(n, ast.AnnAssign) and isinstance(n.target, ast.Name) and n.target.id == "METHOD_NODE_MAPPINGS":
            if not isinstance(n.value, ast.Dict):
                break
            return {k.value: ast.unparse(v).split(".")[-1] for k, v in zip(n.value.keys, n.value.values)}
    raise TranslateError(f"{path}: METHOD_NODE_MAPPINGS literal not found")


def mypy_accept_table(mypy_root: Path) -> dict[str, str]:
    """class -> visitor method, from the accept() methods of mypy/nodes.py, patterns.py."""
    table = {}
    for f in ("nodes.py", "patterns.py"):
        tree = ast.parse((mypy_root / f).read_text("utf8"))
        for c in tree.body:
            if not isinstance(c, ast.ClassDef):
                continue
            for m in c.body:
                if isinstance(m, ast.FunctionDef) and m.name == "accept":
                    calls = [x.func.attr for x in ast.walk(m) if isinstance(x, ast.Call)
                             and isinstance(x.func, ast.Attribute) and x.func.attr.startswith("visit")]
                    if len(calls) == 1:
                        table[c.name] = calls[0]
    return table


def optional_fields(mypy_root: Path) -> dict[tuple[str, str], str]:
    """(class, attribute) -> annotation text, from class-level annotations and __init__ parameters."""
    out = {}
    for f in ("nodes.py", "patterns.py"):
        tree = ast.parse((mypy_root / f).read_text("utf8"))
        for c in tree.body:
            if not isinstance(c, ast.ClassDef):
                continue
            for m in c.body:
                if isinstance(m, ast.AnnAssign) and isinstance(m.target, ast.Name):
                    out[(c.name, m.target.id)] = ast.unparse(m.annotation)
    return out
