"""Builds the visitor model (kinds, fields, schedules, dispatch, subscriptions) from
refurb's traverser/visitor/mapping sources and the installed mypy's sources, and
emits it as GenVisitor.v.  Also used by the harness to serialise real trees."""
from __future__ import annotations

import ast
from pathlib import Path

from .catalogue import TranslateError
from .schedule import (MethodTranslator, Sel, class_methods, mapping, mypy_accept_table,
                       optional_fields, registry)

MYPY = Path("/venv/lib/python3.12/site-packages/mypy")


def funcitem_subclasses() -> list[str]:
    tree = ast.parse((MYPY / "nodes.py").read_text("utf8"))
    return [c.name for c in tree.body if isinstance(c, ast.ClassDef)
            and any(isinstance(b, ast.Name) and b.id == "FuncItem" for b in c.bases)]


def dont_build(path: Path) -> list[str]:
    tree = ast.parse(path.read_text("utf8"))
    for n in ast.walk(tree):
        if isinstance(n, ast.Assign) and any(isinstance(t, ast.Name) and t.id == "_dont_build" for t in n.targets):
            return list(ast.literal_eval(n.value))
    raise TranslateError(f"{path}: _dont_build not found")


def check_build_visitor(path: Path) -> None:
    """build_visitor must be: run every check of checks[ty], then the base method."""
    tree = ast.parse(path.read_text("utf8"))
    fn = next((n for n in tree.body if isinstance(n, ast.FunctionDef) and n.name == "build_visitor"), None)
    if fn is None:
        raise TranslateError(f"{path}: build_visitor not found")
    inner = next((n for n in fn.body if isinstance(n, ast.FunctionDef)), None)
    ok = inner is not None and len(inner.body) == 2
    if ok:
        loop, base = inner.body
        ok = (isinstance(loop, ast.For) and ast.unparse(loop.iter) == "checks[ty]"
              and len(loop.body) == 1 and ast.unparse(loop.body[0]) == "self.run_check(o, check)"
              and ast.unparse(base) == "getattr(TraverserVisitor, name)(self, o)")
    if not ok:
        raise TranslateError(f"{path}: build_visitor.inner is not `for check in checks[ty]: run_check; base(self, o)`")
    # __init__: wraps every mapping entry whose type has checks, except _dont_build
    cls = next(n for n in tree.body if isinstance(n, ast.ClassDef) and n.name == "RefurbVisitor")
    init = next(n for n in cls.body if isinstance(n, ast.FunctionDef) and n.name == "__init__")
    loops = [n for n in init.body if isinstance(n, ast.For)]
    want = ("for name, type in METHOD_NODE_MAPPINGS.items():\n"
            "    if type in types and name not in self._dont_build:\n"
            "        func = build_visitor(name, type, self.checks)\n"
            "        setattr(self, name, func.__get__(self))")
    if len(loops) != 1 or ast.unparse(loops[0]) != want:
        raise TranslateError(f"{path}: RefurbVisitor.__init__ wrapper loop changed shape")
    # run_check: calls check(node, errors[, settings]) exactly once
    rc = next(n for n in cls.body if isinstance(n, ast.FunctionDef) and n.name == "run_check")
    calls = [n for n in ast.walk(rc) if isinstance(n, ast.Call) and isinstance(n.func, ast.Name) and n.func.id == "check"]
    if len(calls) != 2 or not isinstance(rc.body[-1], ast.If):
        raise TranslateError(f"{path}: run_check changed shape")


# Fields of derived-only node classes that alias a syntactic child of the parent:
# semanal builds `index_expr.analyzed = TypeApplication(index_expr.base, types)`, so
# TypeApplication.expr *is* IndexExpr.base.  (Checked on real trees by the harness.)
# fastparse builds ClassDef(metaclass=dict(keywords).get("metaclass"), keywords=keywords), so
# ClassDef.metaclass *is* ClassDef.keywords["metaclass"].
ALIAS_FIELDS = {("TypeApplication", "expr"), ("ClassDef", "metaclass")}


class SpecModel:
    """The mypy half alone (syntactic children per node class as mypy's own traverser visits
    them): the search oracle that stays available when refurb's traverser no longer translates."""

    def __init__(self):
        self.mt = MethodTranslator("mypy/traverser.py", class_methods(MYPY / "traverser.py", "TraverserVisitor"))
        self.accept = mypy_accept_table(MYPY)
        self.kind_info = {}
        for cls, mypy_m in self.accept.items():
            spec = [x for x in (self.mt.flat(mypy_m) if mypy_m in self.mt.methods else [])
                    if isinstance(x, Sel) and x.path.split(".")[-1] != "analyzed" and (cls, x.path) not in ALIAS_FIELDS]
            self.kind_info[cls] = dict(full_spec=spec)


class VisitorModel:
    def __init__(self, repo: Path):
        R = repo / "refurb" / "visitor"
        self.rt = MethodTranslator("refurb/visitor/traverser.py", class_methods(R / "traverser.py", "TraverserVisitor"))
        self.rv = MethodTranslator("refurb/visitor/visitor.py", class_methods(R / "visitor.py", "RefurbVisitor"))
        self.mt = MethodTranslator("mypy/traverser.py", class_methods(MYPY / "traverser.py", "TraverserVisitor"))
        self.reg = registry(R / "traverser.py")
        self.mapping = mapping(R / "mapping.py")
        self.accept = mypy_accept_table(MYPY)
        self.ann = optional_fields(MYPY)
        self.dont_build = dont_build(R / "visitor.py")
        check_build_visitor(R / "visitor.py")
        self.funcitems = funcitem_subclasses()
        self.kinds = list(self.accept.keys())
        overrides = {m for m in self.rv.methods if m.startswith("visit_")}
        self.kind_info = {}
        for cls in self.kinds:
            mypy_m = self.accept[cls]
            ref_m = self.reg.get(cls)
            # syntactic children = what mypy's own traverser visits, minus derived `analyzed` nodes
            spec = [x for x in (self.mt.flat(mypy_m) if mypy_m in self.mt.methods else [])
                    if isinstance(x, Sel) and x.path.split(".")[-1] != "analyzed"
                    and (cls, x.path) not in ALIAS_FIELDS]
            sched: list[Sel] = []
            subs: list[str] = []
            registered = isinstance(ref_m, str)
            if isinstance(ref_m, list):          # overload that walks the children itself: no checks run
                sched = list(ref_m)
            if registered:
                if ref_m in overrides:
                    body = self.rv.flat(ref_m)
                    if ref_m not in self.dont_build and ref_m in self.mapping:
                        # the generated wrapper would shadow the override whenever a check subscribes
                        raise TranslateError(f"RefurbVisitor.{ref_m} is overridden but not listed in _dont_build")
                elif ref_m in self.rt.methods:
                    body = self.rt.flat(ref_m)
                    if ref_m in self.mapping and ref_m not in self.dont_build:
                        subs.append(self.mapping[ref_m])
                else:
                    raise TranslateError(f"accept overload for {cls} calls missing method {ref_m}")
                # methods reached through self.visit_X(o) run their own wrapper too
                src = self.rv if (ref_m in overrides and ref_m in self.dont_build) else self.rt
                for x in src.schedule(ref_m):
                    if isinstance(x, tuple) and x[0] == "inline":
                        if x[1] in self.mapping and x[1] not in self.dont_build:
                            subs.append(self.mapping[x[1]])
                for x in body:
                    if isinstance(x, tuple) and x[0] == "checks":
                        subs.append(x[1])
                    elif isinstance(x, Sel):
                        sched.append(x)
            has_overload = ref_m is not None
            fields: list[str] = []
            # a kind without an accept overload cannot occur in a traversable tree (C03's
            # obligation); it gets no fields here
            for s in (spec + sched if has_overload else []):
                if s.path not in fields:
                    fields.append(s.path)
            self.kind_info[cls] = dict(mypy_method=mypy_m, ref_method=ref_m if isinstance(ref_m, str) else "",
                                       registered=has_overload, runs_checks=registered,
                                       spec=spec if has_overload else [], full_spec=spec, sched=sched,
                                       fields=fields, subs=subs)

    # -- optional-field analysis for the None-guards
    def _ann(self, cls: str, attr: str):
        txt = self.ann.get((cls, attr))
        return ast.parse(txt, mode="eval").body if txt else None

    @staticmethod
    def _strip_none(t):
        """(type without None, had_none)"""
        if isinstance(t, ast.BinOp) and isinstance(t.op, ast.BitOr):
            l, ln = VisitorModel._strip_none(t.left)
            r, rn = VisitorModel._strip_none(t.right)
            if isinstance(r, ast.Constant) and r.value is None:
                return l, True
            if isinstance(l, ast.Constant) and l.value is None:
                return r, True
            return t, ln or rn
        if isinstance(t, ast.Subscript) and isinstance(t.value, ast.Name) and t.value.id == "Optional":
            return t.slice, True
        return t, False

    def field_type(self, cls: str, path: str):
        """(optional?, [class names]) of the children selected by `path`; None if unknown."""
        toks = []
        for part in path.split("."):
            stars = 0
            while part.endswith("[*]"):
                part, stars = part[:-3], stars + 1
            toks += [part] + ["[*]"] * stars
        t = self._ann(cls, toks[0])
        if t is None:
            return None
        for tok in toks[1:]:
            t, _ = self._strip_none(t)
            if tok == "[*]":
                if isinstance(t, ast.Subscript) and isinstance(t.value, ast.Name) and t.value.id in ("list", "List", "Sequence"):
                    t = t.slice
                else:
                    return None
            elif tok.isdigit():
                if isinstance(t, ast.Subscript) and isinstance(t.value, ast.Name) and t.value.id in ("tuple", "Tuple") \
                        and isinstance(t.slice, ast.Tuple):
                    t = t.slice.elts[int(tok)]
                else:
                    return None
            elif tok == "values()":
                if isinstance(t, ast.Subscript) and isinstance(t.value, ast.Name) and t.value.id in ("dict", "Dict") \
                        and isinstance(t.slice, ast.Tuple):
                    t = ast.Subscript(value=ast.Name(id="list"), slice=t.slice.elts[1])
                else:
                    return None
            else:
                if isinstance(t, ast.Name):
                    t = self._ann(t.id, tok)
                    if t is None:
                        return None
                else:
                    return None
        base, opt = self._strip_none(t)
        names = []

        def collect(x):
            if isinstance(x, ast.BinOp):
                collect(x.left), collect(x.right)
            elif isinstance(x, ast.Name):
                names.append(x.id)
            elif isinstance(x, ast.Attribute):
                names.append(x.attr)
        collect(base)
        return opt, names

    def is_optional(self, cls: str, path: str) -> bool | None:
        r = self.field_type(cls, path)
        return None if r is None else r[0]

    # derived (`analyzed`) nodes the visitor descends into, with the classes they can have
    DERIVED_HINT = {("ClassDef", "analyzed"): ["NamedTupleExpr", "TypedDictExpr"]}

    def derived_targets(self) -> list[tuple[str, str, list[str]]]:
        out = []
        for k in self.kinds:
            for s in self.kind_info[k]["sched"]:
                if s.path.split(".")[-1] == "analyzed":
                    hint = self.DERIVED_HINT.get((k, s.path))
                    ft = self.field_type(k, s.path)
                    names = hint if hint is not None else (ft[1] if ft else ["?"])
                    out.append((k, s.path, names))
        return out

    def emit(self) -> str:
        from ..coq import coq_bool, coq_list, coq_str as S
        K = self.kinds
        L = ["From Lib Require Import Base.", "Open Scope list_scope."]
        L.append("Definition kind_names : list string := " + coq_list([S(k) for k in K]) + ".")
        L.append("Definition field_names : list (list string) := " + coq_list(
            [coq_list([S(f) for f in self.kind_info[k]["fields"]]) for k in K]) + ".")
        L.append("Definition arity_tbl : list nat := " + coq_list([str(len(self.kind_info[k]["fields"])) for k in K]) + ".")

        def idx(k, sels):
            f = self.kind_info[k]["fields"]
            return coq_list([str(f.index(s.path)) for s in sels])
        L.append("Definition sched_tbl : list (list nat) := " + coq_list([idx(k, self.kind_info[k]["sched"]) for k in K]) + ".")
        L.append("Definition spec_tbl : list (list nat) := " + coq_list([idx(k, self.kind_info[k]["spec"]) for k in K]) + ".")
        L.append("Definition reg_tbl : list bool := " + coq_list([coq_bool(self.kind_info[k]["registered"]) for k in K]) + ".")
        L.append("Definition runs_checks_tbl : list bool := " + coq_list([coq_bool(self.kind_info[k]["runs_checks"]) for k in K]) + ".")
        L.append("Definition subs_tbl : list (list string) := " + coq_list(
            [coq_list([S(x) for x in self.kind_info[k]["subs"]]) for k in K]) + ".")
        L.append("Definition funcitem_kinds : list string := " + coq_list([S(x) for x in self.funcitems]) + ".")
        L.append("Definition dispatch_tbl : list (string * string * string) := " + coq_list(
            [f"({S(k)}, {S(self.kind_info[k]['ref_method'] or '')}, {S(self.kind_info[k]['mypy_method'])})" for k in K]) + ".")
        L.append("Definition mapping_tbl : list (string * string) := " + coq_list(
            [f"({S(m)}, {S(t)})" for m, t in self.mapping.items()]) + ".")
        # non-derived selectors refurb visits that mypy's traverser does not
        extra = []
        for k in K:
            sp = {s.path for s in self.kind_info[k]["spec"]}
            for s in self.kind_info[k]["sched"]:
                if s.path not in sp and s.path.split(".")[-1] != "analyzed":
                    extra.append((k, s.path))
        # derived nodes the visitor descends into and the number of children their kinds traverse
        der = []
        for k, p, names in self.derived_targets():
            for n in names:
                nsub = len(self.kind_info[n]["sched"]) if n in self.kind_info else 99
                der.append((k, p, n, nsub))
        L.append("Definition derived_tbl : list (string * string * string * nat) := " + coq_list(
            [f"({S(k)}, {S(p)}, {S(n)}, {c})" for k, p, n, c in der]) + ".")
        L.append("Definition extra_fields : list (string * string) := " + coq_list([f"({S(k)}, {S(p)})" for k, p in extra]) + ".")
        # optional child dereferenced without a None-guard: (kind, path, optional, guarded)
        guards = []
        for k in K:
            for s in self.kind_info[k]["sched"]:
                opt = self.is_optional(k, s.path)
                guards.append((k, s.path, bool(opt), s.guard != ""))
        L.append("Definition guard_tbl : list (string * string * bool * bool) := " + coq_list(
            [f"({S(k)}, {S(p)}, {coq_bool(o)}, {coq_bool(g)})" for k, p, o, g in guards]) + ".")
        return "\n".join(L) + "\n"


# ---------------------------------------------------------------- evaluation of selectors on real nodes
def children(node, path: str) -> list:
    """Children of a real mypy node selected by an access path; None children omitted."""
    cur = [node]
    tokens = []
    for part in path.split("."):
        stars = 0
        while part.endswith("[*]"):
            part, stars = part[:-3], stars + 1
        tokens += [part] + ["[*]"] * stars
    for t in tokens:
        nxt = []
        for c in cur:
            if c is None:
                continue
            if t == "[*]":
                nxt += list(c)
            elif t == "values()":
                nxt += [list(c.values())]
            elif t.isdigit():
                nxt.append(c[int(t)])
            else:
                nxt.append(getattr(c, t))
        cur = nxt
    return [c for c in cur if c is not None]
