"""Exception routing summary of refurb's driver modules (everything but the check bodies and
`refurb gen`): per function, the exception classes its own `raise` statements and the library
calls of a small trusted table can let escape (after the function's own try/except/suppress), and
the package functions it calls together with the handlers around each call.  Fail-closed: a `raise`
whose class cannot be resolved is reported as `Exception`.

The closure (what can reach `main`'s caller) is computed in Coq (Lib/Routing.v), not here."""
from __future__ import annotations

import ast
import builtins
import importlib
from pathlib import Path

from .catalogue import TranslateError

# library calls that raise as part of their documented contract (trusted; by callee spelling)
LIB_RAISES = {
    "tomllib.loads": ["tomllib.TOMLDecodeError"],
    "import_module": ["ImportError"],
    "importlib.import_module": ["ImportError"],
    "read_text": ["OSError", "UnicodeDecodeError"],
    "write_text": ["OSError"],
    "mkstemp": ["OSError"],
    "tokenize.open": ["OSError", "SyntaxError", "UnicodeDecodeError"],
    "getsourcelines": ["OSError", "TypeError"],
    "getsourcefile": ["TypeError"],
}
MODULES = ["refurb/main.py", "refurb/settings.py", "refurb/loader.py", "refurb/explain.py", "refurb/error.py", "refurb/types.py", "refurb/__main__.py",
           "refurb/visitor/traverser.py", "refurb/visitor/visitor.py", "refurb/visitor/mapping.py", "refurb/visitor/__init__.py"]


def _spelling(f: ast.AST) -> str:
    try:
        return ast.unparse(f)
    except Exception:  # noqa: BLE001
        return ""


class Summary:
    def __init__(self, repo: Path):
        self.repo = repo
        self.funcs: dict[str, tuple[str, ast.FunctionDef]] = {}     # simple name -> (module, def); methods as Class.name
        self.ns: dict[str, dict] = {}
        for rel in MODULES:
            p = repo / rel
            if not p.exists():
                continue
            mod = rel[:-3].replace("/", ".").removesuffix(".__init__")
            tree = ast.parse(p.read_text("utf8"))
            try:
                self.ns[mod] = vars(importlib.import_module(mod))
            except Exception as e:  # noqa: BLE001
                raise TranslateError(f"cannot import {mod}: {e}") from e
            for n in tree.body:
                if isinstance(n, (ast.FunctionDef, ast.AsyncFunctionDef)):
                    self.funcs[f"{mod}.{n.name}"] = (mod, n)
                elif isinstance(n, ast.ClassDef):
                    for m in n.body:
                        if isinstance(m, (ast.FunctionDef, ast.AsyncFunctionDef)):
                            self.funcs[f"{mod}.{n.name}.{m.name}"] = (mod, m)
        self.direct: dict[str, list[tuple[str, list[str]]]] = {}    # fn -> [(origin text, mro names)] escaping its own handlers
        self.calls: dict[str, list[tuple[str, list[str]]]] = {}     # fn -> [(callee, handler class names around the call)]
        for name, (mod, fn) in self.funcs.items():
            self.direct[name], self.calls[name] = [], []
            self._block(name, mod, fn.body, [], None)

    def _key(self, mod: str, f: ast.AST) -> str | None:
        """The package function (module.qualname) a callee expression denotes in its module's namespace."""
        if not isinstance(f, (ast.Name, ast.Attribute)):
            return None
        try:
            obj = eval(compile(ast.Expression(f), "<callee>", "eval"), {}, self.ns[mod])  # noqa: S307
        except Exception:  # noqa: BLE001
            return None
        m, q = getattr(obj, "__module__", None), getattr(obj, "__qualname__", None)
        if not isinstance(m, str) or not isinstance(q, str) or not m.startswith("refurb"):
            return None
        return f"{m}.{q}." + "<class>" if isinstance(obj, type) else f"{m}.{q}"

    # -- classes
    def _cls(self, mod: str, e: ast.AST):
        try:
            obj = eval(compile(ast.Expression(e), "<exc>", "eval"), dict(vars(builtins)), self.ns[mod])  # noqa: S307
        except Exception:  # noqa: BLE001
            return None
        return obj if isinstance(obj, type) and issubclass(obj, BaseException) else None

    @staticmethod
    def _mro(c) -> list[str]:
        return [k.__name__ for k in c.__mro__ if k is not object]

    def _handler_classes(self, mod: str, h: ast.ExceptHandler) -> list:
        if h.type is None:
            return [BaseException]
        ts = h.type.elts if isinstance(h.type, ast.Tuple) else [h.type]
        out = []
        for t in ts:
            c = self._cls(mod, t)
            if c is None:
                raise TranslateError(f"unresolvable exception class in handler: {_spelling(t)}")
            out.append(c)
        return out

    def _escape(self, fn: str, origin: str, cls, stack: list[list]) -> None:
        if any(issubclass(cls, h) for hs in stack for h in hs):
            return
        self.direct[fn].append((origin, self._mro(cls)))

    def _raised_class(self, mod: str, exc: ast.AST, current):
        if isinstance(exc, ast.Call):
            c = self._cls(mod, exc.func)
            if c is not None:
                return [c]
            key = self._key(mod, exc.func)
            if key in self.funcs:                                                   # a helper that builds the exception
                m2, f2 = self.funcs[key]
                if f2.returns is not None:
                    c = self._cls(m2, f2.returns)
                    if c is not None:
                        return [c]
            return [Exception]
        c = self._cls(mod, exc)
        if c is not None:
            return [c]
        if isinstance(exc, ast.Name) and current and current[0] == exc.id:       # `except X as e: ... raise e`
            return current[1]
        return [Exception]

    def _block(self, fn: str, mod: str, body: list, stack: list[list], current) -> None:
        for st in body:
            self._stmt(fn, mod, st, stack, current)

    def _stmt(self, fn: str, mod: str, st: ast.AST, stack: list[list], current) -> None:
        if isinstance(st, (ast.FunctionDef, ast.AsyncFunctionDef, ast.ClassDef, ast.Lambda)):
            return                                    # a nested definition runs when called, not here
        if isinstance(st, ast.Try):
            hs = [c for h in st.handlers for c in self._handler_classes(mod, h)]
            self._block(fn, mod, st.body, [*stack, hs], current)
            for h in st.handlers:
                self._block(fn, mod, h.body, stack, (h.name, self._handler_classes(mod, h)))
            self._block(fn, mod, st.orelse, stack, current)
            self._block(fn, mod, st.finalbody, stack, current)
            return
        if isinstance(st, (ast.With, ast.AsyncWith)):
            sup = []
            for it in st.items:
                e = it.context_expr
                self._expr(fn, mod, e, stack)
                if isinstance(e, ast.Call) and _spelling(e.func) in ("suppress", "contextlib.suppress"):
                    sup += [c for a in e.args for c in [self._cls(mod, a)] if c is not None]
            self._block(fn, mod, st.body, [*stack, sup] if sup else stack, current)
            return
        if isinstance(st, ast.Raise):
            if st.exc is None:
                for c in (current[1] if current else [Exception]):
                    self._escape(fn, "re-raise", c, stack)
            else:
                for c in self._raised_class(mod, st.exc, current):
                    self._escape(fn, f"raise {_spelling(st.exc)[:40]}", c, stack)
                self._expr(fn, mod, st.exc, stack)
            return
        for field, value in ast.iter_fields(st):
            if isinstance(value, list):
                if value and isinstance(value[0], ast.stmt):
                    self._block(fn, mod, value, stack, current)
                else:
                    for v in value:
                        if isinstance(v, ast.AST):
                            self._expr(fn, mod, v, stack)
            elif isinstance(value, ast.AST):
                self._expr(fn, mod, value, stack)

    def _expr(self, fn: str, mod: str, e: ast.AST, stack: list[list]) -> None:
        for n in ast.walk(e):
            if isinstance(n, ast.Lambda):
                continue
            if isinstance(n, ast.Call):
                sp = _spelling(n.func)
                short = sp.rsplit(".", 1)[-1]
                for key in (sp, short):
                    if key in LIB_RAISES:
                        for cn in LIB_RAISES[key]:
                            c = self._cls(mod, ast.parse(cn, mode="eval").body) or eval(cn, {"tomllib": __import__("tomllib")})  # noqa: S307
                            self._escape(fn, f"{key}()", c, stack)
                        break
                targets = []
                hs_names = sorted({h.__name__ for hs in stack for h in hs})
                key = self._key(mod, n.func)
                if key in self.funcs:
                    targets.append(key)
                elif key is not None and key.endswith("<class>"):                   # constructing a package class runs its initialisers
                    targets += [k for k in (key[:-7] + "__init__", key[:-7] + "__post_init__") if k in self.funcs]
                elif isinstance(n.func, ast.Attribute) and isinstance(n.func.value, ast.Name) and n.func.value.id in ("self", "visitor"):
                    targets += [k for k in self.funcs if k.endswith("." + n.func.attr) and k.count(".") >= 3]       # any class's method of that name
                for t in targets:
                    self.calls[fn].append((t, hs_names))


def translate(repo: Path) -> tuple[str, Summary]:
    from ..coq import coq_list, coq_str as S
    s = Summary(repo)
    if "refurb.main.main" not in s.funcs:
        raise TranslateError("refurb.main.main not found")
    names = sorted(s.funcs)
    rows_d = [f"({S(f)}, {coq_list(['(%s, %s)' % (S(o), coq_list([S(m) for m in mro])) for o, mro in s.direct[f]])})" for f in names if s.direct[f]]
    rows_c = [f"({S(f)}, {coq_list(['(%s, %s)' % (S(g), coq_list([S(h) for h in hs])) for g, hs in s.calls[f]])})" for f in names if s.calls[f]]
    gen = ("From Lib Require Import Base Routing.\nOpen Scope list_scope.\n"
           f"Definition functions : list string := {coq_list([S(f) for f in names])}.\n"
           f"Definition direct_raises : list (string * list exn) := {coq_list(rows_d)}.\n"
           f"Definition call_sites : list (string * list (string * list string)) := {coq_list(rows_c)}.\n")
    return gen, s
