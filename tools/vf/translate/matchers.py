"""Translate the check() function of a check module into Gallina (GenMatch.v): which trees it reports and
the message it builds for each, as a template over the matched sub-expressions.

A small typed symbolic compiler for the subset of Python these functions are written in: structural
`match` with class / list / literal / or / capture patterns and guards, `if` chains, local assignments,
f-strings, calls of the helpers stringify / stringify_operand / is_equivalent / len, module-level string
tables and `.get` on them, helper functions of the form `return TABLE.get(k, default)`.  Anything else
raises TranslateError (fail closed): the check is then simply not among the translated ones and its
soundness theorem is an undischarged obligation.

Types: E expr, S string, T template (list part), B bool, LE list expr, LS list string, N nat,
OS option string, ARGS list of call arguments, OE option expr, Z integer.
"""
from __future__ import annotations

import ast
from pathlib import Path

from .catalogue import TranslateError

# mypy class -> (PyAst constructor, [(field, type) in constructor order])
CLASSES = {
    "ConditionalExpr": ("ECond", [("cond", "E"), ("if_expr", "E"), ("else_expr", "E")]),
    "ComparisonExpr": ("ECmp", [("operators", "LS"), ("operands", "LE")]),
    "UnaryExpr": ("EUnary", [("op", "S"), ("expr", "E")]),
    "OpExpr": ("EOp", [("op", "S"), ("left", "E"), ("right", "E")]),
    "NameExpr": ("EName", [("name", "S"), ("fullname", "S")]),
    "MemberExpr": ("EMember", [("expr", "E"), ("name", "S"), ("fullname", "S")]),
    "ListExpr": ("EList", [("items", "LE")]),
    "TupleExpr": ("ETuple", [("items", "LE")]),
    "SetExpr": ("ESet", [("items", "LE")]),
    "CallExpr": ("ECall", [("callee", "E"), ("args", "ARGS")]),
    "IndexExpr": ("EIndex", [("base", "E"), ("index", "E")]),
    "SliceExpr": ("ESlice", [("begin_index", "OE"), ("end_index", "OE"), ("stride", "OE")]),
    "IntExpr": ("EInt", [("value", "Z")]),
    "StrExpr": ("EStr", [("value", "CPS")]),
    "FloatExpr": ("EFloat", [("value", "FR")]),
}

# helpers defined outside the check module that a check may call: name -> (defining file, the source their
# transliteration in Lib/PyMatch.v was read from, normalised by ast.unparse).  A different source fails closed.
PINNED = {
    "normalize_os_path": ("refurb/checks/common.py",
                          "def normalize_os_path(module: str | None) -> str:\n    if not module:\n        return ''\n    segments = module.split('.')\n"
                          "    if segments[0].startswith(('genericpath', 'ntpath', 'posixpath')):\n        return '.'.join(['os', 'path'] + segments[1:])\n    return module"),
    "is_pathlike": ("refurb/checks/pathlib/util.py",
                    "def is_pathlike(expr: Expression) -> bool:\n    return is_same_type(get_mypy_type(expr), 'pathlib.Path')"),
}


# the checks translated first: their proofs (Props/C01/C01Match.v) destruct Coq literal patterns
LEGACY = (110, 114, 136, 149, 171)


def pinned_ok(repo: Path, name: str) -> None:
    rel, want = PINNED[name]
    tree = ast.parse((repo / rel).read_text("utf8"))
    fn = next((n for n in tree.body if isinstance(n, ast.FunctionDef) and n.name == name), None)
    if fn is None:
        raise TranslateError(f"matchers: {rel}: {name} not found")
    if fn.body and isinstance(fn.body[0], ast.Expr) and isinstance(fn.body[0].value, ast.Constant) and isinstance(fn.body[0].value.value, str):
        fn.body = fn.body[1:]
    got = ast.unparse(fn)
    if got != want:
        raise TranslateError(f"matchers: {rel}: {name} is no longer the function Lib/PyMatch.v transliterates:\n{got}")


def fail(n, msg):
    raise TranslateError(f"matchers:{getattr(n, 'lineno', '?')}: {msg}: {ast.unparse(n)[:100] if isinstance(n, ast.AST) else n}")


def cstr(s: str) -> str:
    if not all(32 <= ord(c) <= 126 for c in s):
        fail(s, "non-ASCII text in a message")
    return '"' + s.replace('"', '""') + '"%string'


class Tr:
    def __init__(self, tree: ast.Module, default_msg: str | None):
        self.tree = tree
        self.default_msg = default_msg
        self.fresh = 0
        self.tables: dict[str, list[tuple[str, str]]] = {}
        self.helpers: dict[str, tuple[str, str, str]] = {}      # name -> (param, table, default param or literal)
        self.funcs: dict[str, ast.FunctionDef] = {n.name: n for n in tree.body if isinstance(n, ast.FunctionDef) and n.name != "check"}
        self.uses_types = False
        self.type_names: set[str] = set()
        self.refs: set[str] = set()
        self.repo: Path | None = None
        self.legacy = False          # literal patterns as Coq literal patterns (the first translated checks' proofs destruct them) instead of tests
        self.side: list[str] = []    # tests that the literals of the pattern being translated stand for
        self.imported = {a.asname or a.name: (n.module or "") for n in tree.body if isinstance(n, ast.ImportFrom) for a in n.names}
        self.strsets: dict[str, list[str]] = {}
        for n in tree.body:
            if isinstance(n, ast.Assign) and len(n.targets) == 1 and isinstance(n.targets[0], ast.Name) and isinstance(n.value, (ast.Set, ast.Tuple, ast.List)) \
                    and n.value.elts and all(isinstance(x, ast.Constant) and isinstance(x.value, str) for x in n.value.elts):
                self.strsets[n.targets[0].id] = [x.value for x in n.value.elts]
        for n in tree.body:
            if isinstance(n, ast.Assign) and len(n.targets) == 1 and isinstance(n.targets[0], ast.Name) and isinstance(n.value, ast.Dict):
                if all(isinstance(k, ast.Constant) and isinstance(k.value, str) and isinstance(v, ast.Constant) and isinstance(v.value, str) and v.value
                       for k, v in zip(n.value.keys, n.value.values)):
                    self.tables[n.targets[0].id] = [(k.value, v.value) for k, v in zip(n.value.keys, n.value.values)]
            if isinstance(n, ast.FunctionDef) and n.name != "check" and len(n.args.args) == 1:
                body = [s for s in n.body if not (isinstance(s, ast.Expr) and isinstance(s.value, ast.Constant))]
                if len(body) == 1 and isinstance(body[0], ast.Return) and isinstance(body[0].value, ast.Call):
                    c = body[0].value
                    if (isinstance(c.func, ast.Attribute) and c.func.attr == "get" and isinstance(c.func.value, ast.Dict) and len(c.args) == 2
                            and all(isinstance(k, ast.Constant) and isinstance(v, ast.Constant) for k, v in zip(c.func.value.keys, c.func.value.values))
                            and isinstance(c.args[0], ast.Name) and c.args[0].id == n.args.args[0].arg and isinstance(c.args[1], ast.Name)
                            and c.args[1].id == n.args.args[0].arg):
                        self.helpers[n.name] = [(k.value, v.value) for k, v in zip(c.func.value.keys, c.func.value.values)]

    def var(self, base: str) -> str:
        self.fresh += 1
        return f"{base}_{self.fresh}"

    # ------------------------------------------------------------------ patterns
    def pat(self, p, ty: str, env: dict) -> str:
        """Coq pattern for Python pattern p matched against a value of type ty; captures go into env."""
        if isinstance(p, ast.MatchAs):
            if p.pattern is None:
                if p.name is None:
                    return "_"
                env[p.name] = (p.name, ty)
                return p.name
            inner = self.pat(p.pattern, ty, env)
            env[p.name] = (p.name, ty)
            return f"({inner} as {p.name})"
        if not self.legacy and ty in ("S", "Z", "FR"):
            lits = p.patterns if isinstance(p, ast.MatchOr) else [p]
            if all(isinstance(q, ast.MatchValue) and isinstance(q.value, ast.Constant) for q in lits):
                # a literal (or several): a variable plus a test, so that theorems case on the test and not on the bits of the literal
                v = self.var("lit")
                tests = []
                for q in lits:
                    c = q.value.value
                    if ty == "S" and isinstance(c, str):
                        tests.append(f"String.eqb {v} {cstr(c)}")
                    elif ty == "Z" and isinstance(c, int) and not isinstance(c, bool):
                        tests.append(f"Z.eqb {v} ({c})%Z")
                    elif ty == "FR" and isinstance(c, float):
                        tests.append(f"String.eqb {v} {cstr(str(c))}")
                    else:
                        fail(p, f"literal pattern of type {type(c).__name__} against {ty}")
                self.side.append("(" + " || ".join(tests) + ")")
                return v
        if isinstance(p, ast.MatchValue) and isinstance(p.value, ast.Constant):
            v = p.value.value
            if ty == "S" and isinstance(v, str):
                return cstr(v)
            if ty == "Z" and isinstance(v, int) and not isinstance(v, bool):
                return f"({v})%Z"
            if ty == "CPS" and isinstance(v, str):
                return "[" + "; ".join(f"{ord(c)}%N" for c in v) + "]"
            if ty == "FR" and isinstance(v, float):
                return cstr(str(v))
            fail(p, f"literal pattern of type {type(v).__name__} against {ty}")
        if isinstance(p, ast.MatchSingleton) and p.value is None and ty == "OE":
            return "None"
        if isinstance(p, ast.MatchOr):
            envs, alts = [], []
            n_side = len(self.side)
            for q in p.patterns:
                e2: dict = {}
                alts.append(self.pat(q, ty, e2))
                envs.append(e2)
            if len(self.side) != n_side:
                fail(p, "literal inside an alternative of an or-pattern")
            if any(set(e2) != set(envs[0]) for e2 in envs):
                fail(p, "alternatives bind different names")
            env.update(envs[0])
            return "(" + " | ".join(alts) + ")"
        if isinstance(p, ast.MatchSequence):
            if any(isinstance(q, ast.MatchStar) for q in p.patterns):
                fail(p, "star pattern")
            if ty == "LS":
                return "[" + "; ".join(self.pat(q, "S", env) for q in p.patterns) + "]"
            if ty == "LE":
                return "[" + "; ".join(self.pat(q, "E", env) for q in p.patterns) + "]"
            if ty == "ARGS":
                return "[" + "; ".join(f"(_, _, {self.pat(q, 'E', env)})" for q in p.patterns) + "]"
            fail(p, f"sequence pattern against {ty}")
        if isinstance(p, ast.MatchClass):
            cname = ast.unparse(p.cls)
            if cname == "RefExpr" and not p.patterns and ty == "E":
                # RefExpr is the common base of NameExpr and MemberExpr (mypy.nodes): either of the two, same fields
                given = dict(zip(p.kwd_attrs, p.kwd_patterns))
                if set(given) - {"name", "fullname"}:
                    fail(p, "RefExpr field")
                if self.legacy:
                    fail(p, "RefExpr in a check translated with literal patterns")
                flds = " ".join(self.pat(given[f], "S", env) if f in given else "_" for f in ("name", "fullname"))
                return f"((EName {flds}) | (EMember _ {flds}))"
            if cname not in CLASSES or p.patterns:
                fail(p, "class pattern of an untranslated class")
            if ty == "OE":
                return f"(Some {self.pat(p, 'E', env)})"
            if ty != "E":
                fail(p, f"class pattern against {ty}")
            ctor, fields = CLASSES[cname]
            given = dict(zip(p.kwd_attrs, p.kwd_patterns))
            if set(given) - {f for f, _ in fields}:
                fail(p, f"unknown field {sorted(set(given) - {f for f, _ in fields})}")
            return "(" + ctor + " " + " ".join(self.pat(given[f], t, env) if f in given else "_" for f, t in fields) + ")"
        fail(p, "unrecognised pattern")

    def class_fields(self, p) -> str | None:
        """for `A() | B() | C() as v` over display classes: the common field list, so that v.items works"""
        if isinstance(p, ast.MatchAs) and isinstance(p.pattern, ast.MatchOr) and p.name:
            names = [ast.unparse(q.cls) for q in p.pattern.patterns if isinstance(q, ast.MatchClass) and not q.kwd_attrs and not q.patterns]
            if len(names) == len(p.pattern.patterns) and all(n in ("ListExpr", "TupleExpr", "SetExpr") for n in names):
                return p.name
        return None

    # ------------------------------------------------------------------ expressions
    def tplify(self, t, ty):
        if ty == "T":
            return t
        if ty == "S":
            return f"[PLit {t}]"
        if ty == "CONST":
            return f"[PLit {cstr(str(ast.literal_eval(t)))}]"         # f"{v}" of an int / float / str is str(v)
        fail(t, f"a value of type {ty} inside an f-string (stringify it first)")

    def expr(self, e, env: dict) -> tuple[str, str]:
        if isinstance(e, ast.Name):
            if e.id in env:
                return env[e.id]
            fail(e, "unknown name")
        if isinstance(e, ast.BoolOp) and isinstance(e.op, ast.Or) and len(e.values) == 2 and isinstance(e.values[1], ast.Constant) and e.values[1].value == "":
            t, ty = self.expr(e.values[0], env)
            if ty == "S":
                return t, "S"                                          # `fullname or ""`: None is "" in the model
        if isinstance(e, ast.Constant):
            if isinstance(e.value, bool):
                return ("true" if e.value else "false"), "B"
            if isinstance(e.value, str):
                return cstr(e.value), "S"
            if isinstance(e.value, int):
                return str(e.value), "N"
            fail(e, "constant")
        if isinstance(e, ast.Attribute) and isinstance(e.value, ast.Name):
            key = f"{e.value.id}.{e.attr}"
            if key in env:
                return env[key]
            if e.attr == "name" and e.value.id in env and env[e.value.id][1] == "E":
                return f"(name_of {env[e.value.id][0]})", "S"          # RefExpr.name (the caller has narrowed the node to a NameExpr / MemberExpr)
            if e.attr == "fullname" and e.value.id in env and env[e.value.id][1] == "E":
                return f"(ref_fullname {env[e.value.id][0]})", "S"     # RefExpr.fullname, "" for None
            fail(e, "unknown attribute")
        if isinstance(e, ast.JoinedStr):
            parts = []
            for v in e.values:
                if isinstance(v, ast.Constant):
                    parts.append(f"[PLit {cstr(v.value)}]")
                elif isinstance(v, ast.FormattedValue) and v.conversion == -1 and v.format_spec is None:
                    t, ty = self.expr(v.value, env)
                    parts.append(self.tplify(t, ty))
                else:
                    fail(v, "f-string field with conversion/format")
            return "(" + " ++ ".join(parts or ["[]"]) + ")", "T"
        if isinstance(e, ast.IfExp):
            c = self.cond(e.test, env)
            (a, ta), (b, tb) = self.expr(e.body, env), self.expr(e.orelse, env)
            if ta != tb:
                if {ta, tb} == {"S", "T"}:
                    a, b, ta = self.tplify(a, ta), self.tplify(b, tb), "T"
                else:
                    fail(e, f"branches of types {ta}/{tb}")
            return f"(if {c} then {a} else {b})", ta
        if isinstance(e, ast.Subscript) and isinstance(e.slice, ast.Constant) and isinstance(e.slice.value, int) and e.slice.value >= 0:
            t, ty = self.expr(e.value, env)
            if ty == "ARGS":
                return f"(nth_arg {e.slice.value} {t})", "E"
            if ty != "LE":
                fail(e, "subscript of a non-list")
            return f"(nth {e.slice.value} {t} no_expr)", "E"
        if isinstance(e, ast.Call):
            fn = ast.unparse(e.func)
            args = e.args
            if fn in ("str", "int") and len(args) == 1 and not e.keywords:
                t, ty = self.expr(args[0], env)
                if ty != "CONST":
                    fail(e, f"{fn}() of something that is not a matched literal")
                return repr({"str": str, "int": int}[fn](ast.literal_eval(t))), "CONST"
            if fn in PINNED and fn not in self.funcs and len(args) == 1 and not e.keywords:
                if self.imported.get(fn) != PINNED[fn][0][:-3].replace("/", ".") or self.repo is None:
                    fail(e, f"{fn} is not the helper of {PINNED[fn][0]}")
                pinned_ok(self.repo, fn)
                t, ty = self.expr(args[0], env)
                if fn == "normalize_os_path":
                    if ty != "S":
                        fail(e, "normalize_os_path of a non-string")
                    return f"(normalize_os_path {t})", "S"
                if ty != "E":
                    fail(e, "is_pathlike of a non-expression")
                self.uses_types = True
                self.type_names.add("pathlib.Path")
                return f"(type_is {t} {cstr('pathlib.Path')})", "B"
            if fn == "stringify" and len(args) == 1 and not e.keywords:
                t, ty = self.expr(args[0], env)
                if ty != "E":
                    fail(e, "stringify of a non-expression")
                return f"[PExpr {t}]", "T"
            if fn == "stringify_operand" and len(args) == 2 and not e.keywords:
                (t, ty), (o, to) = self.expr(args[0], env), self.expr(args[1], env)
                if ty != "E" or to != "S":
                    fail(e, "stringify_operand(expression, operator)")
                return f"[POperand {t} {o}]", "T"
            if fn == "is_equivalent" and len(args) == 2 and not e.keywords:
                (a, ta), (b, tb) = self.expr(args[0], env), self.expr(args[1], env)
                if ta != "E" or tb != "E":
                    fail(e, "is_equivalent of non-expressions")
                return f"(is_equiv {a} {b})", "B"
            if fn == "len" and len(args) == 1:
                t, ty = self.expr(args[0], env)
                if ty not in ("LE", "LS"):
                    fail(e, "len of a non-list")
                return f"(List.length {t})", "N"
            if fn in ("is_bool_literal", "is_true_literal", "is_false_literal") and len(args) == 1 and not e.keywords:
                t, ty = self.expr(args[0], env)
                if ty != "E":
                    fail(e, f"{fn} of a non-expression")
                return f"({fn} {t})", "B"
            if fn == "is_same_type" and len(args) == 2 and not e.keywords and isinstance(args[0], ast.Call) and ast.unparse(args[0].func) == "get_mypy_type" \
                    and len(args[0].args) == 1 and isinstance(args[1], ast.Starred) and isinstance(args[1].value, ast.Name) and args[1].value.id in self.strsets:
                # is_same_type(get_mypy_type(e), *NAMES): the type is one of the listed full names
                t, ty = self.expr(args[0].args[0], env)
                if ty != "E":
                    fail(e, "type of a non-expression")
                names = sorted(self.strsets[args[1].value.id])
                self.uses_types = True
                self.type_names |= set(names)
                return f"(existsb (type_is {t}) [{'; '.join(cstr(x) for x in names)}])", "B"
            if fn == "is_same_type" and len(args) >= 2 and not e.keywords and isinstance(args[0], ast.Call) and ast.unparse(args[0].func) == "get_mypy_type" \
                    and len(args[0].args) == 1 and all(isinstance(a, ast.Name) for a in args[1:]):
                t, ty = self.expr(args[0].args[0], env)
                if ty != "E":
                    fail(e, "type of a non-expression")
                self.uses_types = True
                self.type_names |= {a.id for a in args[1:]}
                return "(" + " || ".join(f"type_is {t} {cstr(a.id)}" for a in args[1:]) + ")", "B"
            if fn in self.funcs and fn not in self.helpers and not e.keywords:
                return self.inline(self.funcs[fn], [self.expr(a, env) for a in args], e)
            if fn in self.helpers and len(args) == 1 and not e.keywords:
                k, tk = self.expr(args[0], env)
                if tk != "S":
                    fail(e, "helper applied to a non-string")
                return f"(match lookup_str {self.table_term(self.helpers[fn])} {k} with Some v_ => v_ | None => {k} end)", "S"
            if isinstance(e.func, ast.Attribute) and e.func.attr == "get" and isinstance(e.func.value, ast.Name) and e.func.value.id in self.tables and len(args) == 1:
                k, tk = self.expr(args[0], env)
                if tk != "S":
                    fail(e, "table lookup with a non-string key")
                return f"(lookup_str {self.table_term(self.tables[e.func.value.id])} {k})", "OS"
            fail(e, "unrecognised call")
        if isinstance(e, (ast.Compare, ast.BoolOp, ast.UnaryOp)):
            return self.cond(e, env), "B"
        fail(e, "unrecognised expression")

    def inline(self, fn: ast.FunctionDef, args: list, at) -> tuple[str, str]:
        """a module-level helper `def f(a, b): x = ...; return <expr>` applied to translated arguments"""
        if len(fn.args.args) != len(args) or fn.args.vararg or fn.args.kwarg or fn.args.kwonlyargs:
            fail(at, "helper called with another arity")
        env = {p.arg: a for p, a in zip(fn.args.args, args)}
        body = [s for s in fn.body if not (isinstance(s, ast.Expr) and isinstance(s.value, ast.Constant))]
        lets = []
        for st in body[:-1]:
            if not (isinstance(st, ast.Assign) and len(st.targets) == 1 and isinstance(st.targets[0], ast.Name)):
                fail(st, "helper body is not assignments followed by a return")
            t, ty = self.expr(st.value, env)
            v = self.var(st.targets[0].id)
            env[st.targets[0].id] = (v, ty)
            lets.append(f"let {v} := {t} in ")
        if not body or not isinstance(body[-1], ast.Return) or body[-1].value is None:
            fail(fn, "helper does not end in `return <expr>`")
        t, ty = self.expr(body[-1].value, env)
        return "(" + "".join(lets) + t + ")", ty

    @staticmethod
    def table_term(rows) -> str:
        return "[" + "; ".join(f"({cstr(k)}, {cstr(v)})" for k, v in rows) + "]"

    def cond(self, e, env: dict) -> str:
        if isinstance(e, ast.BoolOp):
            op = " && " if isinstance(e.op, ast.And) else " || "
            return "(" + op.join(self.cond(v, env) for v in e.values) + ")"
        if isinstance(e, ast.UnaryOp) and isinstance(e.op, ast.Not):
            return f"(negb {self.cond(e.operand, env)})"
        if isinstance(e, ast.Compare) and len(e.ops) == 1:
            a, ta = self.expr(e.left, env)
            neg = isinstance(e.ops[0], ast.NotEq)
            if isinstance(e.ops[0], (ast.Eq, ast.NotEq)):
                b, tb = self.expr(e.comparators[0], env)
                if ta == tb == "S":
                    t = f"(String.eqb {a} {b})"
                elif ta == tb == "N":
                    t = f"(Nat.eqb {a} {b})"
                else:
                    fail(e, f"== between {ta} and {tb}")
                return f"(negb {t})" if neg else t
            if isinstance(e.ops[0], (ast.In, ast.NotIn)) and isinstance(e.comparators[0], (ast.Set, ast.Tuple, ast.List)) and ta == "S" \
                    and all(isinstance(x, ast.Constant) and isinstance(x.value, str) for x in e.comparators[0].elts):
                t = f"(existsb (String.eqb {a}) [{'; '.join(cstr(x.value) for x in e.comparators[0].elts)}])"
                return f"(negb {t})" if isinstance(e.ops[0], ast.NotIn) else t
            fail(e, "comparison operator")
        t, ty = self.expr(e, env)
        if ty == "B":
            return t
        if ty in ("ARGS", "LE", "LS") and not self.legacy:
            return f"(negb (is_nil {t}))"
        fail(e, f"truth value of type {ty}")

    # ------------------------------------------------------------------ statements
    def block(self, stmts: list, env: dict, rest: str) -> str:
        """Coq term of type `list template`: the messages emitted by stmts followed by `rest`."""
        stmts = [s for s in stmts if not (isinstance(s, ast.Expr) and isinstance(s.value, ast.Constant))]
        if not stmts:
            return rest
        st, tail = stmts[0], stmts[1:]
        if isinstance(st, ast.Return) and st.value is None:
            return "[]"
        if isinstance(st, ast.Pass):
            return self.block(tail, env, rest)
        if isinstance(st, ast.Expr) and isinstance(st.value, ast.Call) and ast.unparse(st.value.func) == "errors.append":
            call = st.value.args[0]
            if not (isinstance(call, ast.Call) and ast.unparse(call.func) == "ErrorInfo.from_node" and call.args and ast.unparse(call.args[0]) == "node"):
                fail(st, "errors.append of something else than ErrorInfo.from_node(node, ...)")
            if len(call.args) == 2:
                t, ty = self.expr(call.args[1], env)
                msg = self.tplify(t, ty)
            elif self.default_msg is not None:
                msg = f"[PLit {cstr(self.default_msg)}]"
            else:
                fail(st, "no message and no default")
            return f"({msg} :: {self.block(tail, env, rest)})"
        if isinstance(st, ast.Assign) and len(st.targets) == 1 and isinstance(st.targets[0], ast.Name):
            t, ty = self.expr(st.value, env)
            v = self.var(st.targets[0].id)
            env2 = dict(env)
            if ty == "CONST":
                env2[st.targets[0].id] = (t, ty)                       # a value known at translation time: no binder
                return self.block(tail, env2, rest)
            env2[st.targets[0].id] = (v, ty)
            return f"(let {v} := {t} in {self.block(tail, env2, rest)})"
        if isinstance(st, (ast.If, ast.Match)):
            early = any(isinstance(x, ast.Return) for x in ast.walk(st))
            binds = any(isinstance(x, ast.Assign) for x in ast.walk(st))
            if early or binds:
                # what follows the statement runs inside each branch (with the names that branch has bound)
                if isinstance(st, ast.If):
                    return self.if_(st.test, st.body + tail, st.orelse + tail, env, rest)
                subj, ty = self.expr(st.subject, env)
                if ty != "E":
                    fail(st, "match on a non-expression")
                return self.cases(subj, st.cases, env, rest, tail, st.subject.id if isinstance(st.subject, ast.Name) else None)
            after = self.block(tail, env, rest)
            if isinstance(st, ast.If):
                t = self.if_(st.test, st.body, st.orelse, env, "[]")
            else:
                subj, ty = self.expr(st.subject, env)
                if ty != "E":
                    fail(st, "match on a non-expression")
                t = self.cases(subj, st.cases, env, "[]", [], st.subject.id if isinstance(st.subject, ast.Name) else None)
            return t if after == "[]" else f"({t} ++ {after})"
        fail(st, "unrecognised statement")

    def if_(self, test, body, orelse, env: dict, after: str) -> str:
        """`if test: body else: orelse`, then `after`; walrus conjuncts bind for the body."""
        if isinstance(test, ast.UnaryOp) and isinstance(test.op, ast.Not) and isinstance(test.operand, ast.Name) and env.get(test.operand.id, ("", ""))[1] == "OS":
            # `if not looked_up:` -- the tables hold non-empty strings only (checked when they are read), so falsy is None
            t, _ = env[test.operand.id]
            v = self.var(test.operand.id)
            env2 = dict(env)
            env2[test.operand.id] = (v, "S")
            return f"(match {t} with Some {v} => {self.block(orelse, env2, after)} | None => {self.block(body, env, after)} end)"
        conj = test.values if isinstance(test, ast.BoolOp) and isinstance(test.op, ast.And) else [test]
        plain, binds = [], []
        for c in conj:
            if isinstance(c, ast.NamedExpr):
                binds.append(c)
            elif binds:
                fail(c, "plain condition after a walrus condition")
            else:
                plain.append(c)
        else_t = self.block(orelse, env, after)
        env2 = dict(env)
        wraps = []
        for w in binds:
            t, ty = self.expr(w.value, env2)
            if ty != "OS":
                fail(w, "walrus of something else than a table lookup")
            v = self.var(w.target.id)
            env2[w.target.id] = (v, "S")
            wraps.append((t, v))
        inner = self.block(body, env2, after)
        for t, v in reversed(wraps):
            inner = f"(match {t} with Some {v} => {inner} | None => {else_t} end)"
        if plain:
            c = " && ".join(self.cond(p, env) for p in plain)
            return f"(if ({c}) then {inner} else {else_t})"
        return inner

    @staticmethod
    def literal_alternatives(pattern) -> list | None:
        """`A(value=1 | 2) | B(value=3.0)` -> [A(value=1), A(value=2), B(value=3.0)] when every alternative is a class
        pattern that fixes `value` to literals (tried in this order, as Python tries them); None otherwise."""
        alts = pattern.patterns if isinstance(pattern, ast.MatchOr) else [pattern]
        out = []
        for a in alts:
            if not (isinstance(a, ast.MatchClass) and not a.patterns and a.kwd_attrs == ["value"]):
                return None
            vs = a.kwd_patterns[0].patterns if isinstance(a.kwd_patterns[0], ast.MatchOr) else [a.kwd_patterns[0]]
            if not all(isinstance(v, ast.MatchValue) and isinstance(v.value, ast.Constant) and type(v.value.value) in (int, float, str) for v in vs):
                return None
            out += [ast.MatchClass(cls=a.cls, patterns=[], kwd_attrs=["value"], kwd_patterns=[v]) for v in vs]
        return out

    def cases(self, subj: str, cases: list, env: dict, after: str, tail: list, subj_name: str | None = None) -> str:
        """tail: statements that follow the match statement (run after whichever case body was taken, or after none)"""
        if not cases:
            return self.block(tail, env, after)
        c, more = cases[0], cases[1:]
        if isinstance(c.pattern, ast.MatchAs) and c.pattern.pattern is None and c.guard is None:
            # irrefutable: the remaining cases (and falling out of the match) are unreachable
            env2 = dict(env)
            if c.pattern.name:
                env2[c.pattern.name] = (subj, "E")
            return self.block(c.body + tail, env2, after)
        lits = self.literal_alternatives(c.pattern) if subj_name and c.guard is None else None
        if lits and any(isinstance(x, ast.Attribute) and x.attr == "value" and isinstance(x.value, ast.Name) and x.value.id == subj_name
                        for st in c.body for x in ast.walk(st)):
            # the body reads `<subject>.value`: one case per literal, in each of which that value is known
            rest = self.cases(subj, more, env, after, tail, subj_name)
            for alt in reversed(lits):
                env2 = dict(env)
                env2[f"{subj_name}.value"] = (repr(alt.kwd_patterns[0].value.value), "CONST")
                self.side = []
                p = self.pat(alt, "E", {})
                conds, self.side = self.side, []
                body = self.block(c.body + tail, env2, after)
                rest = self.tested(subj, p, conds, body, rest)
            return rest
        rest = self.cases(subj, more, env, after, tail, subj_name)
        env2 = dict(env)
        self.side = []
        p = self.pat(c.pattern, "E", env2)
        conds, self.side = self.side, []
        # `A() | B() as v` then `v.items`: bind the common field through an or-pattern
        for q in ast.walk(c.pattern):
            name = self.class_fields(q)
            if name:
                fld = f"{name}_items"
                p = p.replace(f"((EList _) | (ETuple _) | (ESet _)) as {name}", f"((EList {fld}) | (ETuple {fld}) | (ESet {fld})) as {name}")
                env2[f"{name}.items"] = (fld, "LE")
        if c.guard is not None:
            body = self.guarded(c.guard, c.body + tail, env2, after, rest)      # a failed guard falls through to the remaining cases
        else:
            body = self.block(c.body + tail, env2, after)
        return self.tested(subj, p, conds, body, rest)

    def tested(self, subj: str, p: str, conds: list, body: str, rest: str) -> str:
        """`match subj with p => (if conds then body else rest) | _ => rest end`, with rest written once"""
        if not conds:
            return f"(match {subj} with {p} => {body} | _ => {rest} end)"
        if rest == "[]":
            return f"(match {subj} with {p} => (if {' && '.join(conds)} then {body} else []) | _ => [] end)"
        r = self.var("taken")
        return (f"(match (match {subj} with {p} => (if {' && '.join(conds)} then Some ({body}) else None) | _ => None end) "
                f"with Some {r} => {r} | None => {rest} end)")

    def guarded(self, guard, body, env: dict, after: str, rest: str) -> str:
        conj = guard.values if isinstance(guard, ast.BoolOp) and isinstance(guard.op, ast.And) else [guard]
        if any(isinstance(c, ast.NamedExpr) for c in conj):
            fail(guard, "walrus in a case guard")
        return f"(if {self.cond(guard, env)} then {self.block(body, env, after)} else {rest})"


def translate_check(path: Path, code: int, default_msg: str | None, repo: Path | None = None, info: dict | None = None) -> str:
    """`Definition check_<code> (node : expr) : list template`"""
    tree = ast.parse(path.read_text("utf8"))
    fn = next((n for n in tree.body if isinstance(n, ast.FunctionDef) and n.name == "check"), None)
    if fn is None or [a.arg for a in fn.args.args][:2] != ["node", "errors"] or len(fn.args.args) != 2:
        raise TranslateError(f"matchers: {path.name}: check(node, errors) not found")
    ann = ast.unparse(fn.args.args[0].annotation)
    tr = Tr(tree, default_msg)
    tr.repo = repo
    tr.legacy = code in LEGACY
    env: dict = {"node": ("node", "E")}
    if ann in CLASSES:
        ctor, fields = CLASSES[ann]
        vs = [f"node_{f}" for f, _ in fields]
        for (f, t), v in zip(fields, vs):
            env[f"node.{f}"] = (v, t)
        body = tr.block(fn.body, env, "[]")
        term = f"match node with {ctor} {' '.join(vs)} => {body} | _ => [] end"
    else:
        raise TranslateError(f"matchers: {path.name}: node annotated {ann}")
    if info is not None:
        info["type_names"] = sorted(tr.type_names)
    return f"Definition check_{code} (node : expr) : list template :=\n  {term}.\n"


def uses_type_oracle(text: str) -> bool:
    return "type_is " in text
