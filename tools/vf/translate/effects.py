"""Static effect summary of every check module: what it mutates besides its own locals
and the shared error list."""
from __future__ import annotations

import ast
from pathlib import Path

from .catalogue import TranslateError, catalogue

MUTATORS = {"add", "append", "extend", "update", "clear", "pop", "remove", "discard", "insert", "setdefault", "popitem",
            "difference_update", "intersection_update", "symmetric_difference_update", "sort", "reverse"}


def module_effects(info: dict) -> dict:
    tree = info["tree"]
    own_classes = {n.name for n in tree.body if isinstance(n, ast.ClassDef)}
    # module-level names bound to something that is not a function/class/import
    module_names = set()
    for n in tree.body:
        if isinstance(n, (ast.Assign, ast.AnnAssign)):
            for t in (n.targets if isinstance(n, ast.Assign) else [n.target]):
                if isinstance(t, ast.Name):
                    module_names.add(t.id)
    mutated_globals, ast_writes, errors_reads, foreign = set(), set(), set(), set()
    imported_from_checks = {}
    for n in tree.body:
        if isinstance(n, ast.ImportFrom) and n.module and n.module.startswith("refurb.checks.") and n.module != "refurb.checks.common" \
                and not n.module.endswith(".util"):
            for a in n.names:
                imported_from_checks[a.asname or a.name] = n.module
    # every name this module binds by an import (whatever the module): mutating such an object is
    # mutating state that other modules see
    imported_any = {}
    for n in tree.body:
        if isinstance(n, ast.ImportFrom) and n.module:
            for a in n.names:
                imported_any[a.asname or a.name] = f"{n.module}.{a.name}"
        elif isinstance(n, ast.Import):
            for a in n.names:
                imported_any[(a.asname or a.name).split(".")[0]] = a.name
    shared_mutations = set()

    def root_name(e):
        while isinstance(e, (ast.Attribute, ast.Subscript)):
            e = e.value
        return e.id if isinstance(e, ast.Name) else None
    for fn in [n for n in ast.walk(tree) if isinstance(n, (ast.FunctionDef, ast.AsyncFunctionDef))]:
        bound_here = {a.arg for a in fn.args.args + fn.args.kwonlyargs + fn.args.posonlyargs} | \
                     {t.id for x in ast.walk(fn) if isinstance(x, ast.Name) and isinstance(x.ctx, ast.Store) for t in [x]}
        for n in ast.walk(fn):
            if isinstance(n, ast.Call) and isinstance(n.func, ast.Attribute) and n.func.attr in MUTATORS:
                r = root_name(n.func.value)
                if r in imported_any and r not in bound_here:
                    shared_mutations.add(f"{imported_any[r]} (mutated via .{n.func.attr})")
            tg = n.targets if isinstance(n, (ast.Assign, ast.Delete)) else [n.target] if isinstance(n, (ast.AugAssign, ast.AnnAssign)) else []
            for t in tg:
                if isinstance(t, (ast.Subscript, ast.Attribute)):
                    r = root_name(t)
                    if r in imported_any and r not in bound_here:
                        shared_mutations.add(f"{imported_any[r]} (assigned through)")
    for fn in [n for n in ast.walk(tree) if isinstance(n, (ast.FunctionDef, ast.AsyncFunctionDef))]:
        local_objs = set()      # names bound in this function to instances of classes defined here (private helpers)
        params = {a.arg for a in fn.args.args + fn.args.kwonlyargs}
        for n in ast.walk(fn):
            # objects this function creates itself (a class of this module, or a fresh mypy node)
            if isinstance(n, ast.Assign) and isinstance(n.value, ast.Call) and isinstance(n.value.func, ast.Name) \
                    and (n.value.func.id in own_classes or n.value.func.id[:1].isupper()):
                for t in n.targets:
                    if isinstance(t, ast.Name):
                        local_objs.add(t.id)
        has_global_decl = {x for n in ast.walk(fn) if isinstance(n, ast.Global) for x in n.names}
        for n in ast.walk(fn):
            # obj.attr = value / obj.attr += value
            tgts = n.targets if isinstance(n, ast.Assign) else [n.target] if isinstance(n, (ast.AugAssign, ast.AnnAssign)) else []
            for t in tgts:
                if isinstance(t, ast.Attribute):
                    base = t.value
                    if isinstance(base, ast.Name) and (base.id == "self" or base.id in local_objs):
                        continue
                    ast_writes.add(t.attr)
                elif isinstance(t, ast.Subscript) and isinstance(t.value, ast.Name) and t.value.id in module_names:
                    mutated_globals.add(t.value.id)
                elif isinstance(t, ast.Name) and t.id in has_global_decl:
                    mutated_globals.add(t.id)
            if isinstance(n, ast.Call) and isinstance(n.func, ast.Attribute) and n.func.attr in MUTATORS \
                    and isinstance(n.func.value, ast.Name) and n.func.value.id in module_names:
                mutated_globals.add(n.func.value.id)
            if isinstance(n, ast.Delete):
                for t in n.targets:
                    if isinstance(t, ast.Subscript) and isinstance(t.value, ast.Name) and t.value.id in module_names:
                        mutated_globals.add(t.value.id)
            # uses of the shared error list other than appending to it / handing it on
            if isinstance(n, ast.Name) and n.id == "errors" and "errors" in params:
                pass
        if "errors" in params:
            for n in ast.walk(fn):
                if isinstance(n, ast.Call):
                    if isinstance(n.func, ast.Attribute) and isinstance(n.func.value, ast.Name) and n.func.value.id == "errors":
                        if n.func.attr not in ("append", "extend"):
                            errors_reads.add(f"errors.{n.func.attr}()")
                    elif isinstance(n.func, ast.Name) and n.func.id in ("len", "list", "iter", "sorted", "any", "all"):
                        if any(isinstance(a, ast.Name) and a.id == "errors" for a in n.args):
                            errors_reads.add(f"{n.func.id}(errors)")
                elif isinstance(n, (ast.For, ast.comprehension)) and isinstance(n.iter, ast.Name) and n.iter.id == "errors":
                    errors_reads.add("iterate(errors)")
                elif isinstance(n, ast.Subscript) and isinstance(n.value, ast.Name) and n.value.id == "errors":
                    errors_reads.add("errors[...]")
    for n in ast.walk(tree):
        if isinstance(n, ast.Name) and n.id in imported_from_checks:
            foreign.add(f"{imported_from_checks[n.id]}.{n.id}")
    return dict(code=info["code"], module=info["module"], mutated_globals=sorted(mutated_globals), ast_writes=sorted(ast_writes),
                errors_reads=sorted(errors_reads), foreign=sorted(foreign), shared_mutations=sorted(shared_mutations))


def translate(repo: Path):
    rows = [module_effects(c) for c in catalogue(repo) if c["prefix"] == "FURB"]
    by_mod = {r["module"]: r for r in rows}
    for r in rows:
        # a name imported from another check module matters only if that module mutates it
        r["foreign_mutable"] = [f for f in r["foreign"]
                                if f.rsplit(".", 1)[1] in by_mod.get(f.rsplit(".", 1)[0], {}).get("mutated_globals", [])]
        r["foreign"] = r["foreign_mutable"] + r["shared_mutations"]
    from ..coq import coq_list, coq_str as S
    out = ["From Lib Require Import Base.", "Open Scope list_scope.",
           "(* per check: code, module-level objects mutated at run time, attributes of non-local objects assigned,",
           "   uses of the shared error list other than appending, names imported from other check modules *)",
           "Definition effects : list (N * list string * list string * list string * list string) := ["]
    out.append(";\n".join("  (%d%%N, %s, %s, %s, %s)" % (r["code"], coq_list([S(x) for x in r["mutated_globals"]]),
                                                      coq_list([S(x) for x in r["ast_writes"]]), coq_list([S(x) for x in r["errors_reads"]]),
                                                      coq_list([S(x) for x in r["foreign"]])) for r in rows) + "].")
    return "\n".join(out) + "\n", rows
