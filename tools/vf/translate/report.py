"""Translate refurb/main.py:format_errors and the tail of main() into Gallina (GenFormat.v), fail-closed.

format_errors: an if/elif/else that picks one of the three renderers from the settings, the join over the list, and the
conditional hint.  main(): the report is printed when it is not empty and the status is `1 if errors else 0`.
The renderers themselves are Lib/Render.v (hand-written, tied by C13's correspondence)."""
from __future__ import annotations

import ast
from pathlib import Path

from .catalogue import TranslateError

RENDERERS = {"format_as_github_annotation": "FGithub", "format_with_color": "FColor", "str": "FPlain"}


def fail(n, msg):
    raise TranslateError(f"report:{getattr(n, 'lineno', '?')}: {msg}: {ast.unparse(n)[:100]}")


def cond(e) -> str:
    """conditions over the settings: format == "x", color, quiet, not ..., and/or"""
    src = ast.unparse(e)
    if isinstance(e, ast.BoolOp):
        return "(" + (" && " if isinstance(e.op, ast.And) else " || ").join(cond(v) for v in e.values) + ")"
    if isinstance(e, ast.UnaryOp) and isinstance(e.op, ast.Not):
        return f"(negb {cond(e.operand)})"
    if isinstance(e, ast.Compare) and len(e.ops) == 1 and isinstance(e.ops[0], ast.Eq) and ast.unparse(e.left) == "settings.format" \
            and isinstance(e.comparators[0], ast.Constant) and isinstance(e.comparators[0].value, str):
        return f'(opt_str_eqb format "{e.comparators[0].value}")'
    if src in ("settings.color", "settings.quiet"):
        return src.split(".")[1]
    if src in ("any((isinstance(err, Error) for err in errors))", "any((isinstance(error, Error) for error in errors))"):
        return "(existsb is_err items)"
    fail(e, "unrecognised condition")


def translate(repo: Path) -> str:
    tree = ast.parse((repo / "refurb" / "main.py").read_text("utf8"))
    fe = next((n for n in tree.body if isinstance(n, ast.FunctionDef) and n.name == "format_errors"), None)
    mn = next((n for n in tree.body if isinstance(n, ast.FunctionDef) and n.name == "main"), None)
    if fe is None or mn is None or [a.arg for a in fe.args.args] != ["errors", "settings"]:
        raise TranslateError("report: format_errors(errors, settings) / main not found")
    body = [s for s in fe.body if not (isinstance(s, ast.Expr) and isinstance(s.value, ast.Constant))]
    if len(body) != 4 or not isinstance(body[0], ast.If) or not isinstance(body[2], ast.If) or not isinstance(body[3], ast.Return):
        raise TranslateError("report: format_errors is not `pick formatter; join; optional hint; return`")

    def pick(node) -> str:
        if isinstance(node, ast.If):
            if len(node.body) != 1:
                fail(node, "branch with several statements")
            then = assign(node.body[0])
            if len(node.orelse) == 1 and isinstance(node.orelse[0], ast.If):
                other = pick(node.orelse[0])
            elif len(node.orelse) == 1:
                other = assign(node.orelse[0])
            else:
                fail(node, "formatter not chosen on every path")
            return f"(if {cond(node.test)} then {then} else {other})"
        fail(node, "expected if")

    def assign(st) -> str:
        if isinstance(st, (ast.Assign, ast.AnnAssign)):
            tgt = st.targets[0] if isinstance(st, ast.Assign) else st.target
            if ast.unparse(tgt) == "formatter" and ast.unparse(st.value) in RENDERERS:
                return RENDERERS[ast.unparse(st.value)]
        fail(st, "expected `formatter = <renderer>`")
    chosen = pick(body[0])
    if ast.unparse(body[1]) != "done = '\\n'.join((formatter(error) for error in errors))":
        fail(body[1], "the report is not the renderings joined by newlines")
    hint_if = body[2]
    if hint_if.orelse or len(hint_if.body) != 1 or not isinstance(hint_if.body[0], ast.AugAssign) or ast.unparse(hint_if.body[0].target) != "done" \
            or not isinstance(hint_if.body[0].op, ast.Add) or not isinstance(hint_if.body[0].value, ast.Constant):
        fail(hint_if, "the hint is not `if ...: done += <text>`")
    hint_text = hint_if.body[0].value.value
    if ast.unparse(body[3]) != "return done":
        fail(body[3], "return")
    # main(): print the report when it is not empty; status 1 iff any line
    tail = [ast.unparse(s) for s in mn.body[-2:]]
    want_tail = ["if (formatted_errors := format_errors(errors, settings)):\n    print(formatted_errors)", "return 1 if errors else 0"]
    if tail != want_tail:
        raise TranslateError(f"report: main() no longer ends in print-if-nonempty / `return 1 if errors else 0`: {tail}")
    from ..coq import coq_str
    return ("(* generated from refurb/main.py: format_errors and the tail of main() *)\n"
            "From Lib Require Import Base Render.\nOpen Scope list_scope.\nOpen Scope bool_scope.\n"
            "Definition opt_str_eqb (o : option string) (s : string) : bool := match o with Some t => String.eqb t s | None => false end.\n"
            f"Definition hint_text : string := {coq_str(hint_text)}.\n"
            "Definition chosen_format (format : option string) (color quiet : bool) : fmt := " + chosen + ".\n"
            "Definition format_errors_translated (format : option string) (color quiet : bool) (rel : string -> string) (items : list item) : string :=\n"
            "  (concat_str nl (map (render (chosen_format format color quiet) rel) items) ++ (if " + cond(hint_if.test) + " then hint_text else \"\"))%string.\n"
            "Definition exit_translated (items : list item) : nat := match items with [] => 0 | _ => 1 end.\n")
