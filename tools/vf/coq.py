"""Coq plumbing: build the hand-written library, compile the per-property
files against freshly generated models, evaluate case files with vm_compute."""
from __future__ import annotations

import fcntl
import os
import re
import shutil
import subprocess
import time
from concurrent.futures import ThreadPoolExecutor
from pathlib import Path

from .core import VERIF, Ctx

LIB = VERIF / "coq" / "Lib"
PROPS = VERIF / "coq" / "Props"

# Axioms declared by Coq's own standard library that a proof may depend on.
ALLOWED_AXIOMS = {
    "functional_extensionality_dep",
    "FunctionalExtensionality.functional_extensionality_dep",
    "Coq.Logic.FunctionalExtensionality.functional_extensionality_dep",
    "classic", "Classical_Prop.classic",
    "proof_irrelevance", "ProofIrrelevance.proof_irrelevance",
    "Eqdep.Eq_rect_eq.eq_rect_eq", "eq_rect_eq",
    "JMeq_eq", "JMeq.JMeq_eq",
}

FORBIDDEN = re.compile(
    r"\b(Admitted|admit|Axiom|Axioms|Parameter|Parameters|Conjecture|Admit Obligations|"
    r"Unset Guard Checking|Unset Positivity Checking|Unset Universe Checking|bypass_check|"
    r"type-in-type|impredicative-set)\b"
)


def _run(cmd, cwd=None, timeout=900):
    try:
        p = subprocess.run(cmd, cwd=cwd, capture_output=True, text=True, timeout=timeout)
        return p.returncode, p.stdout, p.stderr
    except subprocess.TimeoutExpired as e:
        return 124, (e.stdout or b"").decode(errors="replace") if isinstance(e.stdout, bytes) else (e.stdout or ""), "TIMEOUT"


def build_lib(timeout: int = 1500) -> tuple[bool, str]:
    """Full .vo build of coq/Lib (hand-written models and lemmas that do not depend
    on generated code).  Serialised with a lock so concurrent checks do not race."""
    LIB.mkdir(parents=True, exist_ok=True)
    lock = open(VERIF / "coq" / ".lock", "w")
    fcntl.flock(lock, fcntl.LOCK_EX)
    try:
        vs = sorted(p.name for p in LIB.glob("*.v"))
        proj = "-Q . Lib\n" + "\n".join(vs) + "\n"
        pf = LIB / "_CoqProject"
        if not pf.exists() or pf.read_text() != proj:
            pf.write_text(proj)
        if not (LIB / "Makefile").exists() or (LIB / "Makefile").stat().st_mtime < pf.stat().st_mtime:
            rc, out, err = _run(["coq_makefile", "-f", "_CoqProject", "-o", "Makefile"], cwd=LIB)
            if rc:
                return False, out + err
        rc, out, err = _run(["make", "-j12"], cwd=LIB, timeout=timeout)
        return rc == 0, (out + err)[-4000:]
    finally:
        fcntl.flock(lock, fcntl.LOCK_UN)
        lock.close()


def scan_forbidden(paths) -> list[str]:
    bad = []
    for p in paths:
        txt = re.sub(r"\(\*.*?\*\)", "", Path(p).read_text(), flags=re.S)
        for m in FORBIDDEN.finditer(txt):
            bad.append(f"{p}: {m.group(0)}")
    return bad


def parse_assumptions(src: str, out: str) -> dict[str, str]:
    """Pair each `Print Assumptions X.` of the source with its output block."""
    names = re.findall(r"^\s*Print Assumptions\s+([\w.']+)\s*\.", src, flags=re.M)
    blocks = re.findall(
        r"(Closed under the global context|Axioms:\n(?:.+\n?)*?(?=\n(?:Closed under|Axioms:)|\Z))", out
    )
    res = {}
    for i, n in enumerate(names):
        res[n] = blocks[i].strip() if i < len(blocks) else "<no output>"
    return res


def axioms_ok(block: str) -> tuple[bool, list[str]]:
    if block.startswith("Closed under the global context"):
        return True, []
    if not block.startswith("Axioms:"):
        return False, ["<unparsed>"]
    names = re.findall(r"^([\w.']+)\s*:", block[len("Axioms:"):], flags=re.M)
    bad = [n for n in names if n not in ALLOWED_AXIOMS and n.split(".")[-1] not in ALLOWED_AXIOMS]
    return not bad, names


class PropBuild:
    def __init__(self):
        self.ok = True
        self.files: dict[str, dict] = {}
        self.theorems: dict[str, dict] = {}   # name -> {ok, axioms, file}
        self.first_error = ""


def compile_props(ctx: Ctx, gen: dict[str, str], order: list[str], timeout: int = 600,
                  subdir: str | None = None) -> PropBuild:
    """Write the generated files, copy coq/Props/<ID>/*.v next to them and compile
    `order` (file stems, dependency order).  Logical path: -Q <work> P, -Q Lib Lib."""
    src_dir = PROPS / (subdir or ctx.pid)
    wd = ctx.work / "coq"
    if wd.exists():
        shutil.rmtree(wd)
    wd.mkdir(parents=True)
    for name, text in gen.items():
        (wd / f"{name}.v").write_text(text)
    for p in src_dir.glob("*.v"):
        shutil.copy(p, wd / p.name)
    res = PropBuild()
    bad = scan_forbidden([wd / f"{s}.v" for s in order]) + scan_forbidden(LIB.glob("*.v"))
    if bad:
        res.ok = False
        res.first_error = "forbidden construct: " + "; ".join(bad[:5])
        return res
    for stem in order:
        f = wd / f"{stem}.v"
        t = time.time()
        rc, out, err = _run(
            ["timeout", str(timeout), "coqc", "-q", "-Q", str(LIB), "Lib", "-Q", str(wd), "P", f.name],
            cwd=wd, timeout=timeout + 30,
        )
        info = {"rc": rc, "secs": round(time.time() - t, 1), "err": err[-3000:]}
        res.files[stem] = info
        src = f.read_text()
        ass = parse_assumptions(src, out)
        for thm, block in ass.items():
            ok, names = axioms_ok(block)
            res.theorems[thm] = {"ok": ok and rc == 0, "axioms": block if names else "closed", "file": stem}
        if rc != 0:
            res.ok = False
            if not res.first_error:
                res.first_error = f"{stem}.v: {err.strip()[-1500:]}"
            # the file produced no .vo: none of its theorems is discharged; files that
            # do not depend on it are still compiled
            for thm in re.findall(r"^\s*Print Assumptions\s+([\w.']+)\s*\.", src, flags=re.M):
                res.theorems[thm] = {"ok": False, "axioms": "", "file": stem}
    return res


def record_build(ctx: Ctx, b: PropBuild) -> None:
    for thm, info in b.theorems.items():
        ctx.obligation(thm, info["ok"], detail=f"file {info['file']}.v", axioms=info["axioms"])
    ctx.extra.setdefault("coq_files", {}).update(
        {k: {"rc": v["rc"], "secs": v["secs"]} for k, v in b.files.items()}
    )


# ---------------------------------------------------------------- terms
def coq_str(s: str) -> str:
    """A Coq `string` term for the UTF-8 encoding of s."""
    if all(32 <= ord(c) <= 126 for c in s):
        return '"' + s.replace('"', '""') + '"'
    bs = s.encode("utf8", errors="surrogatepass")
    return "(bs [" + ";".join(str(b) for b in bs) + "]%N)"


def coq_cps(s: str) -> str:
    """A `list N` of code points."""
    return "[" + ";".join(str(ord(c)) for c in s) + "]%N"


def coq_list(items) -> str:
    return "[" + "; ".join(items) + "]"


def coq_bool(b) -> str:
    return "true" if b else "false"


def coq_opt(x, f=str) -> str:
    return "None" if x is None else f"(Some {f(x)})"


def eval_shards(ctx: Ctx, name: str, header: str, shards: list[str], timeout: int = 600,
                extra_q: list[tuple[str, str]] | None = None) -> list[tuple[int, str, str]]:
    """Each shard is the body of a .v file (after `header`).  Compiled in parallel.
    Returns [(rc, stdout, stderr)] per shard."""
    wd = ctx.work / "cases" / name
    if wd.exists():
        shutil.rmtree(wd)
    wd.mkdir(parents=True)
    qs = ["-Q", str(LIB), "Lib", "-Q", str(ctx.work / "coq"), "P"]
    for d, l in extra_q or []:
        qs += ["-Q", d, l]

    def one(i):
        f = wd / f"s{i}.v"
        f.write_text(header + "\n" + shards[i])
        return _run(["timeout", str(timeout), "coqc", "-q", *qs, f.name], cwd=wd, timeout=timeout + 30)

    with ThreadPoolExecutor(max_workers=min(12, max(1, len(shards)))) as ex:
        out = list(ex.map(one, range(len(shards))))
    if all(rc == 0 for rc, _, _ in out):
        shutil.rmtree(wd, ignore_errors=True)
    return out


def parse_eval_values(out: str) -> list[str]:
    """Values printed by successive `Eval vm_compute in …` commands (width is set
    large by the header so each value is on one logical block `= v : T`)."""
    vals = re.findall(r"^\s*= (.*?)\n\s*: ", out, flags=re.S | re.M)
    return [re.sub(r"\s+", " ", v).strip() for v in vals]
