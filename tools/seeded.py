#!/usr/bin/env python3
"""Run registered checks against a seeded change kept under /verif/seeded/<id>/<variant>/.

    tools/seeded.py run C04/a [--tier quick|thorough] [--checks C04,C03]

The patch is applied to /repo's working tree (never committed), the checks run, and the tree is
restored straight afterwards (also on error).  The outcome is written next to the patch as
result.json: which checks raised a VIOLATION, the lines they printed and the replay they named.
"""
from __future__ import annotations

import argparse
import json
import subprocess
import sys
import time
from pathlib import Path

VERIF = Path(__file__).resolve().parents[1]
REPO = Path("/repo")


def sh(*a, **k):
    return subprocess.run(list(a), capture_output=True, text=True, **k)


def clean() -> bool:
    return sh("git", "-C", str(REPO), "status", "--porcelain").stdout.strip() == ""


def main() -> int:
    ap = argparse.ArgumentParser()
    ap.add_argument("cmd", choices=["run"])
    ap.add_argument("target")
    ap.add_argument("--tier", default="quick")
    ap.add_argument("--checks", default="")
    ap.add_argument("--seed", default="")
    a = ap.parse_args()
    d = VERIF / "seeded" / a.target
    patch = d / "patch.diff"
    pid = a.target.split("/")[0]
    checks = [c for c in a.checks.split(",") if c] or [pid]
    if not clean():
        print("refusing: /repo working tree is not clean", file=sys.stderr)
        return 2
    r = sh("git", "-C", str(REPO), "apply", str(patch))
    if r.returncode != 0:
        print("patch does not apply:", r.stderr, file=sys.stderr)
        return 2
    out = {"target": a.target, "tier": a.tier, "checks": {}}
    # evidence and replays belong to runs on the unchanged tree: keep them aside while a seeded change is applied
    import shutil
    import tempfile
    keep = Path(tempfile.mkdtemp(prefix="seeded-keep-"))
    for sub in ("evidence", "replays"):
        if (VERIF / sub).exists():
            shutil.copytree(VERIF / sub, keep / sub)
    try:
        import os
        env = dict(os.environ)
        if a.seed:
            env["VERIF_SEED"] = a.seed
        for c in checks:
            t0 = time.time()
            p = sh(str(VERIF / "bin" / "check"), c, a.tier, cwd=str(VERIF), env=env)
            vio = [l for l in p.stdout.splitlines() if l.startswith("VIOLATION")]
            detail = [l.strip() for l in p.stdout.splitlines() if l.startswith("  (")]
            replays = []
            for l in vio:
                for w in l.split():
                    if w.startswith("replay="):
                        f = Path(w[7:])
                        if f.exists():
                            replays.append(json.loads(f.read_text()))
            out["checks"][c] = {"exit": p.returncode, "violations": vio, "detail": [x[:400] for x in detail][:6], "wall_s": round(time.time() - t0, 1),
                                "summary": p.stdout.strip().splitlines()[-1] if p.stdout.strip() else p.stderr[-300:],
                                "with_failing_input": sum(1 for l in vio if not l.endswith("no-failing-input-found")),
                                "replay_keys": [str(x.get("key", ""))[:200] for x in replays][:6]}
            print(f"{a.target} {c} {a.tier}: exit {p.returncode}, {len(vio)} violation line(s)")
            for l in vio[:4]:
                print("   ", l[:260])
    finally:
        sh("git", "-C", str(REPO), "apply", "-R", str(patch))
        if not clean():
            sh("git", "-C", str(REPO), "checkout", "--", ".")
            sh("git", "-C", str(REPO), "clean", "-fdq", "refurb", "docs", "test")
        assert clean(), "/repo not restored"
        for sub in ("evidence", "replays"):
            if (keep / sub).exists():
                shutil.rmtree(VERIF / sub, ignore_errors=True)
                shutil.copytree(keep / sub, VERIF / sub)
        shutil.rmtree(keep, ignore_errors=True)
    key = f"result-{a.tier}.json"
    (d / key).write_text(json.dumps(out, indent=1) + "\n")
    return 0


if __name__ == "__main__":
    sys.exit(main())
