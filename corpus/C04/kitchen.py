# A file that exercises every statement/expression/pattern form refurb's visitor handles.
from __future__ import annotations

import asyncio
import os.path as osp
import sys
from dataclasses import dataclass
from enum import Enum
from typing import Any, Generic, List, NamedTuple, NewType, TypedDict, TypeVar, cast, overload

from os import *  # noqa

T = TypeVar("T")
UserId = NewType("UserId", int)
Alias = List[int]
Union2 = int | str
Color = Enum("Color", "RED GREEN")


class Point(NamedTuple):
    x: int
    y: int = 0


class Movie(TypedDict, total=False):
    name: str


Emp = NamedTuple("Emp", [("name", str)])
TD = TypedDict("TD", {"a": int})


def deco(f: Any) -> Any:
    return f


@dataclass
class Box(Generic[T], metaclass=type):
    item: T
    items: list[int] = None  # type: ignore

    @property
    def first(self) -> T:
        return self.item

    @staticmethod
    def make(x: int = 1 + 2, *args: int, key: str = "k", **kw: int) -> "Box[int]":
        return Box(x)


@overload
def ov(x: int) -> int: ...
@overload
def ov(x: str) -> str: ...
def ov(x: Any) -> Any:
    return x


@deco
def decorated(a: int, b: int = (lambda q: q)(3)) -> int:
    global T
    total = 0
    for i, v in enumerate([a, b]):
        if i and v:
            total += v
        elif i:
            continue
        else:
            break
    else:
        total = -1
    while total < 10:
        total += 1
        if total == 5:
            pass
    else:
        total = 0
    try:
        total //= a
    except ZeroDivisionError as e:
        raise ValueError("x") from e
    except (KeyError, IndexError):
        raise
    except Exception:
        del total
        return 0
    except:
        for v in (a, b):
            total = int(v)
        raise
    else:
        assert total, "msg"
    finally:
        print("done", end="")
    with open("f") as fh, open("g"):
        data = fh.read()
    xs = [x * 2 for x in range(3) if x if not x]
    ys = {x for x in xs}
    zs = {k: v for k, v in zip(xs, xs) if k}
    gen = (x for x in xs for y in ys)
    tup = (1, 2.0, 3j, "s", b"b", ..., None, True)
    a, (b2, *rest) = 1, (2, 3, 4)
    d = {"k": 1, **zs}
    sl = xs[1:2:3], xs[::], xs[-1]
    cond = a if b else -a
    cmp = 1 < a <= b != 3
    call = print(*xs, sep="", **{"end": ""})
    fs = f"{a!r:>{b}} {call}"
    star = [*xs, *ys]
    if (n := len(xs)) > 1:
        pass
    la: List[int] = List[int]()
    c = cast(int, a)
    al = Alias()
    reveal_type(a)  # type: ignore
    match tup:
        case [1, 2, *others] if others:
            pass
        case {"k": 1, **restmap}:
            pass
        case Point(x=0, y=yy) | Point(1, yy):
            pass
        case (str() | bytes()) as s:
            pass
        case None | True:
            pass
        case osp.sep:
            pass
        case _:
            pass

    def inner() -> None:
        nonlocal total
        total = 1

    return total


async def co() -> int:
    async with asyncio.Lock() as lk:
        pass
    async for z in agen():
        pass
    r = await asyncio.sleep(0)
    return [q async for q in agen()][0]


async def agen():
    yield 1
    yield


def g():
    yield from range(3)
    x = yield
    return super().__init__()


class Sub(Box[int]):
    def __init__(self) -> None:
        super().__init__(1)
        self.v = not -~+1
        self.w: int
        self.v @= 2


if sys.version_info >= (3, 8):
    pass
elif sys.platform == "win32":
    pass
