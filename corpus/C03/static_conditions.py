# Conditions mypy decides statically (platform, version, TYPE_CHECKING, literal truth) in every
# branch position: mypy marks the dead branch unreachable and may attach an EMPTY else block, so
# code that indexes `else_body.body[0]` or assumes a non-empty body meets shapes it never sees
# in ordinary programs.  Each shape carries an idiom some check looks at.
import sys
from typing import TYPE_CHECKING, Final

MYPY = False
ALWAYS: Final = True
override = ""
name = "abc.txt"
nums = [1, 2, 3]
d = {"a": 1}


def platform_elif_no_else() -> str:
    if override:
        return override
    elif sys.platform == "linux":
        return "linux"
    return "other"


def platform_elif_in_else_part(s: str) -> str:
    if s.startswith("a"):
        s = s[1:]
    elif sys.platform == "win32":
        s = s[1:]
    return s


def nested_static_in_else(s: str) -> str:
    if s:
        pass
    else:
        if sys.version_info >= (3, 9):
            if s.endswith(".txt"):
                s = s[:-4]
    return s


def version_chain(x: int) -> int:
    if sys.version_info >= (3, 12):
        y = int(x)
    elif sys.version_info >= (3, 8):
        y = int(x) + 1
    elif x:
        y = 2
    return y


def type_checking_branches() -> None:
    if TYPE_CHECKING:
        import os
    if not TYPE_CHECKING:
        print("")
    elif TYPE_CHECKING:
        print("")
    if MYPY:
        pass
    elif name.startswith("abc"):
        _ = name[3:]


def literal_truth(x: int) -> int:
    if True:
        x = int(x)
    if False:
        x = int(x)
    elif ALWAYS:
        x = int(x)
    while True:
        if x in (1,):
            break
        elif sys.platform == "darwin":
            continue
        x += 1
    return x if sys.platform == "linux" else int(x)


def else_return_shapes(x: int) -> int:
    for n in nums:
        if n == x:
            pass
        elif sys.platform == "linux":
            pass
        else:
            continue
    if x:
        return 1
    elif sys.version_info < (3, 0):
        return 2
    else:
        return 3


def with_and_try() -> None:
    try:
        if sys.platform == "linux":
            _ = d["a"]
    except KeyError:
        pass
    if sys.platform != "linux":
        try:
            _ = d["a"]
        except KeyError:
            pass
    elif sys.platform == "linux":
        with open("f") as f:
            _ = f.read()


def match_static(v: object) -> None:
    match v:
        case int() if sys.platform == "linux":
            print("")
        case str() if TYPE_CHECKING:
            print("")
        case _:
            pass


class K:
    if sys.version_info >= (3, 11):
        def m(self) -> int:
            return int(0)
    elif sys.platform == "linux":
        def m(self) -> int:
            return int(1)

    if TYPE_CHECKING:
        attr: int


if sys.platform == "linux":
    z = nums[:]
elif sys.platform == "win32":
    z = list(nums)

if override:
    pass
elif sys.version_info >= (3, 8):
    if name.endswith(".txt"):
        name = name[:-4]

assert sys.version_info >= (3, 8)
w = [n for n in nums if sys.platform == "linux"]
