x = 1
q = isinstance(x, int) or isinstance()
r = issubclass(int, str) or issubclass(int)
