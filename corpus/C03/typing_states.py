import sys
from typing import TYPE_CHECKING, Any

import not_installed_anywhere
from also_missing import thing

if TYPE_CHECKING:
    from collections.abc import Sequence

if sys.version_info < (3, 0):
    a = b if b else c
    d = int(0)
    for q in list(range(3)):
        print("")

if sys.platform == "nonexistent":
    e = not not e2

def untyped(x, y, *a, **k):
    z = x if x else y
    w = thing(x)[:]
    u = not_installed_anywhere.f(x).copy()
    return z in [w], u == None

def anys(x: Any, y: "Undefined") -> Any:
    if x == True:
        return len(x) == 0
    del x[:]
    return str(y), int(x), list(y)

def after_return() -> int:
    return 1
    s = {1, 2}
    if 1 in s:
        s.remove(1)

def no_return_type(a=[], b={}):
    a.append(1)
    a.append(2)
    with open(b) as f:
        x = f.read()
    return x

class K:
    x = unknown_name
    def m(self):
        return self.x.y.z(1)[2].w if self.x.y.z(1)[2].w else None

lambda: (yield)
f = lambda *a, **k: print(*a, **k)
[x for x in ()]
{**{}}
print(*[], **{})
"".join()
" ".join(shlex.quote(a) for a in [])
open()
int()
sorted()[0]
sorted([])[-1]
isinstance()
x = y = z = 1
del x, y
with open("a"), open("b") as (p, q):
    pass
try:
    pass
except:
    pass


# overload groups WITHOUT an implementation (mypy leaves OverloadedFuncDef.impl = None):
# in a Protocol, as abstract methods, under TYPE_CHECKING, and at module level (a non-blocking mypy error)
import abc as _abc
from typing import Protocol as _Protocol, TYPE_CHECKING as _TC, overload as _overload


class _Reader(_Protocol):
    @_overload
    def read(self, n: int) -> bytes: ...
    @_overload
    def read(self, n: None = None) -> str: ...


class _Abstract(_abc.ABC):
    @_overload
    @_abc.abstractmethod
    def get(self, k: int) -> int: ...
    @_overload
    @_abc.abstractmethod
    def get(self, k: str) -> str: ...


if _TC:
    @_overload
    def _only_for_types(x: int) -> int: ...
    @_overload
    def _only_for_types(x: str) -> str: ...


@_overload
def _no_impl(x: int) -> int: ...
@_overload
def _no_impl(x: str) -> str: ...


class _Props:
    @property
    def p(self) -> int:
        return int(0)

    @p.setter
    def p(self, v: int) -> None:
        self._v = int(v)

    @p.deleter
    def p(self) -> None:
        del self._v
