import sys
from typing import TYPE_CHECKING, Any

import not_installed_anywhere
from also_missing import thing

if TYPE_CHECKING:
    from collections.abc import Sequence

if sys.version_info < (3, 0):
    a = b if b else c
    d = int(0)
    for q in list(range(3)):
        print("")

if sys.platform == "nonexistent":
    e = not not e2

def untyped(x, y, *a, **k):
    z = x if x else y
    w = thing(x)[:]
    u = not_installed_anywhere.f(x).copy()
    return z in [w], u == None

def anys(x: Any, y: "Undefined") -> Any:
    if x == True:
        return len(x) == 0
    del x[:]
    return str(y), int(x), list(y)

def after_return() -> int:
    return 1
    s = {1, 2}
    if 1 in s:
        s.remove(1)

def no_return_type(a=[], b={}):
    a.append(1)
    a.append(2)
    with open(b) as f:
        x = f.read()
    return x

class K:
    x = unknown_name
    def m(self):
        return self.x.y.z(1)[2].w if self.x.y.z(1)[2].w else None

lambda: (yield)
f = lambda *a, **k: print(*a, **k)
[x for x in ()]
{**{}}
print(*[], **{})
"".join()
" ".join(shlex.quote(a) for a in [])
open()
int()
sorted()[0]
sorted([])[-1]
isinstance()
x = y = z = 1
del x, y
with open("a"), open("b") as (p, q):
    pass
try:
    pass
except:
    pass
