type Alias = int | str
type Gen[T] = list[T]


def ident[T](x: T) -> T:
    return x


class Stack[T]:
    def push(self, item: T) -> None:
        self.items = [item]


v: Alias = int(0)
