import functools
import shlex
from datetime import datetime
from functools import lru_cache
from shlex import quote


@functools.lru_cache(maxsize=None)
def f1() -> int:
    return 1


@lru_cache(maxsize=None)
def f2() -> int:
    return 2


def bits(x: int) -> int:
    return bin(x).count("1")


def iso(s: str) -> datetime:
    return datetime.fromisoformat(s.replace("Z", "+00:00"))


def union(d: dict[str, int]) -> dict[str, int]:
    return {"a": 1, **d}


def inst(x: object) -> bool:
    return isinstance(x, int) or isinstance(x, str)


def sub(x: type) -> bool:
    return issubclass(x, int) or issubclass(x, str)


def prefix(s: str) -> str:
    if s.startswith("ab"):
        s = s[2:]
    return s


def suffix(s: str) -> str:
    return s[:-2] if s.endswith("ab") else s


def join1(args: list[str]) -> str:
    return " ".join(shlex.quote(a) for a in args)


def join2(args: list[str]) -> str:
    return " ".join(quote(a) for a in args)


def join3(args: list[str]) -> str:
    return " ".join([shlex.quote(a.strip()) for a in args if a])
