# Idioms of the checks that keep a record of nodes they have already handled (FURB140, FURB179,
# FURB183, FURB184, FURB185, FURB188, FURB120) placed inside the constructs the OTHER ones keep
# records about: f-string fields with surrounding text and format specs, comprehensions and
# their inner generators, chained calls, if/elif chains.
from functools import reduce
from itertools import chain, starmap
from operator import add, concat

rows = [[1, 2], [3]]
pairs = [(1, 2), (3, 4)]
name = "abc.txt"
d = {"a": 1}


def f(a: int, b: int) -> int:
    return a + b


# FURB179 call forms and FURB140 comprehensions inside f-string fields (FURB183 looks at those)
s1 = f"flat: {sum(rows, [])}"
s2 = f"flat: {reduce(add, rows)} and {reduce(concat, rows)}"
s3 = f"{list(chain(*rows))!r:>10}"
s4 = f"pairs: {[f(a, b) for a, b in pairs]}"
s5 = f"{[x for row in rows for x in row]} done"
s6 = f"{name}"
s7 = f"{sum(rows, [])}"
s8 = f"x{f'{sum(rows, [])}'}y"

# f-strings (FURB183) inside comprehensions and generators (FURB140/179 look at those)
c1 = [f"{a}" for a, b in pairs]
c2 = [f(a, b) for a, b in pairs if f"{a}"]
c3 = list(f(a, b) for a, b in pairs)
c4 = {x for row in rows for x in row}
c5 = [f"{x}" for row in rows for x in row]
c6 = [[f(a, b) for a, b in pairs] for _ in rows]
c7 = sum([[f(a, b) for a, b in pairs]], [])

# copies and merges (FURB185) around the others
m1 = d.copy() | {k: f"{v}" for k, v in d.items()}
m2 = {**d, "k": sum(rows, [])}

# if/elif chains (FURB188 records elif nodes) holding the others
if name.startswith("abc"):
    name = name[3:]
elif name.endswith(".txt"):
    name = name[:-4]
    t1 = f"cut: {sum(rows, [])}"
else:
    t2 = [f(a, b) for a, b in pairs]


def g(k: int = 1, flat=sum(rows, [])) -> str:        # default arguments (FURB120 walks calls)
    return f"{k}"


r1 = g(1)
r2 = f"call: {g(1)}"

# special forms: mypy keeps an `analyzed` node beside the call that shares the argument expression,
# so what is traversed depends on whether any enabled check looks at calls
from typing import Any, assert_type, cast

k1 = cast(bool, r1 == "1" or r1 == "2")
k2 = cast(int, not not rows)
k3 = assert_type(name.lstrip().rstrip(), str)
k4 = cast(Any, [x for row in rows for x in row])
k5 = cast(str, f"{name}")
