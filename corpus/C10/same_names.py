"""Entities that share a short name but not a type: nested classes, function-local classes, methods.
Each pair is looked at by two different type-dependent checks, in both orders."""


class User:
    class Config:
        fields: dict[str, str] = {}
        label: str = ""
        size: int = 0

        def items(self) -> list[str]:
            return []

    config = Config()


class Group:
    class Config:
        fields: list[str] = []
        label: bytes = b""
        size: str = ""

        def items(self) -> dict[str, int]:
            return {}

    config = Config()


def has_field(user: User, key: str) -> bool:
    return key in user.config.fields.keys()


def group_fields(group: Group) -> list[str]:
    return list(group.config.fields)


def group_label(group: Group) -> bytes:
    return bytes(group.config.label)


def user_label(user: User) -> str:
    return str(user.config.label)


def user_size(user: User) -> int:
    return int(user.config.size)


def group_size(group: Group) -> str:
    return str(group.config.size)


def group_items(group: Group, key: str) -> bool:
    return key in group.config.items().keys()


def user_items(user: User) -> list[str]:
    return list(user.config.items())


def user_fields_again(user: User) -> dict[str, str]:
    return dict(user.config.fields)


def group_has(group: Group, key: str) -> bool:
    return key in list(group.config.fields)


def local_one(key: str) -> bool:
    class Box:
        content: dict[str, int] = {}

    b = Box()
    return key in b.content.keys()


def local_two() -> list[int]:
    class Box:
        content: list[int] = []

    b = Box()
    return list(b.content)


def local_three() -> str:
    class Box:
        content: str = ""

    b = Box()
    return str(b.content)


class A:
    def value(self) -> int:
        return 1

    name: str = ""


class B:
    def value(self) -> str:
        return ""

    name: bytes = b""


def a_value(a: A) -> int:
    return int(a.value())


def b_value(b: B) -> str:
    return str(b.value())


def b_name(b: B) -> bytes:
    return bytes(b.name)


def a_name(a: A) -> str:
    return str(a.name)


def shadow(value: int) -> str:
    return str(int(value))


def shadow2(value: str) -> str:
    return str(value)
