# The ways a callee's signature can be found (FURB120 and friends follow the symbol to its definition): functions,
# methods, classes whose construction goes through __new__, __init__, both, neither, a base class, a metaclass;
# each used after another check has already reported something in the same file and in the same block.
from dataclasses import dataclass
from typing import NamedTuple, overload

flag = bool(True)


def plain(name: str = "default", verbose: bool = False) -> None: ...


class OnlyInit:
    def __init__(self, name: str = "default", verbose: bool = False) -> None: ...


class OnlyNew:
    def __new__(cls, name: str = "default", verbose: bool = False) -> "OnlyNew":
        return super().__new__(cls)


class Both:
    def __new__(cls, *args: object, **kwargs: object) -> "Both":
        return super().__new__(cls)

    def __init__(self, name: str = "default", verbose: bool = False) -> None: ...


class BothTyped:
    def __new__(cls, name: str = "default", verbose: bool = False) -> "BothTyped":
        return super().__new__(cls)

    def __init__(self, name: str = "default", verbose: bool = False) -> None: ...


class Inherits(OnlyInit): ...


class InheritsBoth(Both): ...


@dataclass
class Data:
    name: str = "default"
    verbose: bool = False


class Tup(NamedTuple):
    name: str = "default"
    verbose: bool = False


class Methods:
    def m(self, name: str = "default", verbose: bool = False) -> None: ...

    @staticmethod
    def s(name: str = "default", verbose: bool = False) -> None: ...

    @classmethod
    def c(cls, name: str = "default", verbose: bool = False) -> None: ...


@overload
def over(a: int, b: int = 1) -> int: ...
@overload
def over(a: str, b: int = 1) -> str: ...
def over(a, b=1):
    return a


# ---- calls
over(1, 1)
over("x", b=1)
plain(verbose=False)
OnlyInit(verbose=False)
OnlyNew(verbose=False)
Both(verbose=False)
BothTyped(verbose=False)
Inherits(verbose=False)
InheritsBoth(verbose=False)
Data(verbose=False)
Tup(verbose=False)
Methods().m(verbose=False)
Methods.s(verbose=False)
Methods.c(verbose=False)


def later() -> None:
    zero = int(0)
    plain("default")
    Both("default", False)
    InheritsBoth(name="default")
    OnlyNew("default")
    print(str(""), Both(verbose=False), Data("default"))
