# Layouts for the diagnostics whose position is computed by hand, and general layout stress.
from abc import ABCMeta
import abc


class A1(metaclass=ABCMeta):
    pass


class A2(metaclass = ABCMeta):
    pass


class A3(metaclass= abc.ABCMeta):
    pass


class A4(
    metaclass=ABCMeta,
):
    pass


class A5(
    metaclass
    =
    ABCMeta
):
    pass


class A6(object, metaclass=abc.ABCMeta):
    pass


def tabs(s: str, b: bytes) -> None:
    _ = s.replace("\t", " " * 8)
    _ = s.strip().replace("\t", "    ")
    _ = (
        s
        .strip()
        .replace("\t", " " * 4)
    )
    _ = s.replace(
        "\t",
        "        ",
    )
    _ = b.replace(b"\t", b" " * 8)
    _ = (b
         .replace(b"\t", 8 * b" "))


def appends(xs: list[int]) -> None:
    xs.append(1)
    xs.append(2)
    if xs:
        xs.append(
            3
        )
        xs.append(4)


def continuation(x: int) -> int:
    y = 1 + \
        int(0)
    z = (
        not not x
    )
    return y + z + \
        int(0)
