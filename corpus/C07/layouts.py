# Layouts for the diagnostics whose position is computed by hand, and general layout stress.
from abc import ABCMeta
import abc


class A1(metaclass=ABCMeta):
    pass


class A2(metaclass = ABCMeta):
    pass


class A3(metaclass= abc.ABCMeta):
    pass


class A4(
    metaclass=ABCMeta,
):
    pass


class A5(
    metaclass
    =
    ABCMeta
):
    pass


class A6(object, metaclass=abc.ABCMeta):
    pass


def tabs(s: str, b: bytes) -> None:
    _ = s.replace("\t", " " * 8)
    _ = s.strip().replace("\t", "    ")
    _ = (
        s
        .strip()
        .replace("\t", " " * 4)
    )
    _ = s.replace(
        "\t",
        "        ",
    )
    _ = b.replace(b"\t", b" " * 8)
    _ = (b
         .replace(b"\t", 8 * b" "))


def appends(xs: list[int]) -> None:
    xs.append(1)
    xs.append(2)
    if xs:
        xs.append(
            3
        )
        xs.append(4)


def continuation(x: int) -> int:
    y = 1 + \
        int(0)
    z = (
        not not x
    )
    return y + z + \
        int(0)


def several_in_one_statement(nums: list[int], names: list[str], cache: dict[str, int], f: str) -> None:
    # statement forms that take a comma-separated list, with an idiom in each position
    del nums[:], names[:]
    del (nums[:], names[:],)
    del nums[0], names[:]
    del (
        nums[:],
        cache["k"],
        names[:],
    )
    a, b = int(0), str("")
    c = d = int(0)
    (e, (g, h)) = (bool(True), (list(nums), dict(cache)))
    with open(f) as fa, open(f) as fb:
        x = fa.read()
        y = fb.read()
    p = int(0); q = str(""); del nums[:]
    assert int(0) == 0, str("")
    print(int(0), str(""), sep=str(""))
    for i, j in zip(list(nums), list(names)):
        pass
    lam = lambda k=int(0), m=str(""): (k, m)


def not_first_on_its_line(found: list[int], a: int, b: int) -> None:
    # a statement that a block-level check reports, written after another statement on the same physical line
    total = 0; found.append(a)
    found.append(b)
    if total: pass; found.append(1); found.append(2)
    x = int(0); y = not not x; z = str("")


def block_begins_with_a_decorated_function(out: list[int]) -> None:
    import functools

    @functools.cache
    def helper() -> int:
        return int(0)

    out.append(helper())
    out.append(2)

    class Inner:
        @staticmethod
        def m(xs: list[int]) -> None:
            xs.append(1)
            xs.append(2)

        names: list[str] = []
        names.append("a")
        names.append("b")
