(* NoqaAppend.v — appending a comment to a line of code without a hash character:
   `# noqa` suppresses every code, `# noqa: A, B, ...` exactly the listed ones. *)
From Lib Require Import Base Noqa.
Open Scope list_scope.
Local Notation length := List.length.
Open Scope N_scope.

Definition alnum (c : N) : bool := ((48 <=? c) && (c <=? 57)) || ((65 <=? c) && (c <=? 90)) || ((97 <=? c) && (c <=? 122)).
Definition tok (t : text) : bool := negb (match t with [] => true | _ => false end) && forallb alnum t.

Lemma alnum_props c : alnum c = true ->
  is_space c = false /\ (c =? 32) = false /\ (c =? 44) = false /\ (c =? 39) = false /\ (c =? 34) = false.
Proof.
  unfold alnum, is_space. intros H.
  repeat match goal with H : (_ || _)%bool = true |- _ => apply orb_true_iff in H as [H|H] end;
    apply andb_true_iff in H as [H1 H2]; apply N.leb_le in H1, H2;
    repeat split;
    repeat match goal with
    | |- (_ || _)%bool = false => apply orb_false_iff; split
    | |- (_ && _)%bool = false => apply andb_false_iff
    | |- (_ =? _) = false => apply N.eqb_neq; lia
    end; try (left; apply N.leb_gt; lia); try (right; apply N.leb_gt; lia).
Qed.

(* rstrip leaves a text alone when it ends in a non-space *)
Lemma rstrip_app (a b : text) : rstrip b <> [] -> rstrip (a ++ b) = a ++ rstrip b.
Proof.
  intros Hb. induction a as [|c r IH]; [reflexivity|]. simpl. rewrite IH.
  destruct (r ++ rstrip b) eqn:E; [|reflexivity]. apply app_eq_nil in E as [_ E]. congruence.
Qed.

Lemma rstrip_last (t : text) c : is_space c = false -> rstrip (t ++ [c]) = t ++ [c].
Proof.
  intros Hc. rewrite rstrip_app; simpl; rewrite Hc; [reflexivity|discriminate].
Qed.

Definition suffix_all : text := [32; 32; 35; 32; 110; 111; 113; 97].          (* two spaces, hash noqa *)
Definition suffix_some : text := [32; 32; 35; 32; 110; 111; 113; 97; 58; 32].  (* ... colon space *)

Theorem noqa_all_appended_all : forall (L code : text), no_hash L = true -> ignored_on_line (L ++ suffix_all) code = true.
Proof.
  intros L code H. unfold ignored_on_line.
  rewrite rstrip_app by (vm_compute; discriminate).
  replace (rstrip suffix_all) with suffix_all by reflexivity.
  rewrite (search_no_hash_prefix L suffix_all H). reflexivity.
Qed.

(* join ", " *)
Fixpoint join_cs (cs : list text) : text :=
  match cs with [] => [] | [t] => t | t :: r => t ++ [44; 32] ++ join_cs r end.

Lemma forallb_app' {A} (f : A -> bool) a b : forallb f (a ++ b) = (forallb f a && forallb f b)%bool.
Proof. induction a as [|x r IH]; simpl; [reflexivity|]. now rewrite IH, andb_assoc. Qed.

Lemma join_no_quote cs : forallb tok cs = true -> no_quote (join_cs cs) = true.
Proof.
  induction cs as [|t r IH]; [reflexivity|]. intros H. cbn [forallb] in H. apply andb_true_iff in H as [Ht Hr].
  assert (Hq : no_quote t = true).
  { unfold tok in Ht. apply andb_true_iff in Ht as [_ Ht]. unfold no_quote. rewrite forallb_forall in *.
    intros c Hc. destruct (alnum_props c (Ht c Hc)) as (_ & _ & _ & A & B). now rewrite A, B. }
  destruct r as [|t2 r2]; [exact Hq|].
  change (join_cs (t :: t2 :: r2)) with (t ++ [44; 32] ++ join_cs (t2 :: r2)).
  unfold no_quote in *. rewrite !forallb_app', Hq, (IH Hr). reflexivity.
Qed.

Lemma join_nonempty_last cs : cs <> [] -> forallb tok cs = true ->
  exists t c, join_cs cs = t ++ [c] /\ is_space c = false.
Proof.
  induction cs as [|t r IH]; [congruence|]. intros _ H. cbn [forallb] in H. apply andb_true_iff in H as [Ht Hr].
  destruct r as [|t2 r2].
  - unfold tok in Ht. apply andb_true_iff in Ht as [Hne Hal].
    destruct (exists_last (l := t)) as (t' & c & ->); [destruct t; [discriminate|congruence]|].
    exists t', c. split; [reflexivity|]. rewrite forallb_app' in Hal. apply andb_true_iff in Hal as [_ Hal].
    simpl in Hal. rewrite andb_true_r in Hal. now destruct (alnum_props c Hal).
  - destruct (IH ltac:(discriminate) Hr) as (t' & c & E & Hc).
    exists (t ++ [44; 32] ++ t'), c. split; [|exact Hc].
    change (join_cs (t :: t2 :: r2)) with (t ++ [44; 32] ++ join_cs (t2 :: r2)). rewrite E, <- !app_assoc. reflexivity.
Qed.

(* splitting the joined codes gives the codes back (and empty strings between them) *)
Lemma split_sp_tok t rest : forallb alnum t = true ->
  split_sp (t ++ 44 :: 32 :: rest) = t :: [] :: split_sp rest.
Proof.
  induction t as [|c r IH]; intros H; [reflexivity|].
  cbn [forallb] in H. apply andb_true_iff in H as [Hc Hr]. destruct (alnum_props c Hc) as (_ & A & B & _).
  simpl. rewrite A, B. simpl. rewrite (IH Hr). reflexivity.
Qed.

Lemma split_sp_single t : forallb alnum t = true -> split_sp t = [t].
Proof.
  induction t as [|c r IH]; intros H; [reflexivity|].
  cbn [forallb] in H. apply andb_true_iff in H as [Hc Hr]. destruct (alnum_props c Hc) as (_ & A & B & _).
  simpl. rewrite A, B. simpl. rewrite (IH Hr). reflexivity.
Qed.

Lemma existsb_split_join code cs : tok code = true -> forallb tok cs = true -> cs <> [] ->
  existsb (text_eqb code) (split_sp (join_cs cs)) = existsb (text_eqb code) cs.
Proof.
  intros Hcode. induction cs as [|t r IH]; [congruence|]. intros H _.
  cbn [forallb] in H. apply andb_true_iff in H as [Ht Hr].
  assert (Hal : forallb alnum t = true) by (unfold tok in Ht; now apply andb_true_iff in Ht as [_ ?]).
  destruct r as [|t2 r2].
  - simpl join_cs. now rewrite (split_sp_single _ Hal).
  - change (join_cs (t :: t2 :: r2)) with (t ++ 44 :: 32 :: join_cs (t2 :: r2)).
    rewrite (split_sp_tok _ _ Hal). cbn [existsb]. rewrite (IH Hr ltac:(discriminate)).
    assert (E : text_eqb code [] = false).
    { unfold tok in Hcode. apply andb_true_iff in Hcode as [Hne _]. destruct code; [discriminate|reflexivity]. }
    rewrite E. reflexivity.
Qed.

Theorem noqa_some_appended_all : forall (L code : text) (cs : list text),
  no_hash L = true -> tok code = true -> forallb tok cs = true -> cs <> [] ->
  ignored_on_line (L ++ suffix_some ++ join_cs cs) code = existsb (text_eqb code) cs.
Proof.
  intros L code cs HL Hcode Hcs Hne. unfold ignored_on_line.
  destruct (join_nonempty_last cs Hne Hcs) as (t & c & E & Hc).
  assert (Hr : rstrip (L ++ suffix_some ++ join_cs cs) = L ++ suffix_some ++ join_cs cs).
  { rewrite E, !app_assoc. apply rstrip_last. exact Hc. }
  rewrite Hr, (search_no_hash_prefix L _ HL).
  assert (Hs : search (suffix_some ++ join_cs cs) = Some (Some (join_cs cs))).
  { pose proof (join_no_quote cs Hcs) as Hq. generalize dependent (join_cs cs). intros J _ _ Hq.
    unfold suffix_some. cbn [app].
    assert (A : at_noqa (35 :: 32 :: 110 :: 111 :: 113 :: 97 :: 58 :: 32 :: J) = Some (Some J)).
    { unfold at_noqa. cbn [starts noqa_lit N.eqb Pos.eqb]. rewrite Hq. reflexivity. }
    cbn [search]. change (at_noqa (32 :: 32 :: 35 :: 32 :: 110 :: 111 :: 113 :: 97 :: 58 :: 32 :: J)) with (@None (option text)).
    cbn [search]. change (at_noqa (32 :: 35 :: 32 :: 110 :: 111 :: 113 :: 97 :: 58 :: 32 :: J)) with (@None (option text)).
    cbn [search]. rewrite A. reflexivity. }
  rewrite Hs. now apply existsb_split_join.
Qed.
