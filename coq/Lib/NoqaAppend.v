(* NoqaAppend.v — appending a comment to ANY line (whatever comments, quotes or hash signs it
   already holds): `# noqa` suppresses every code, `# noqa: A, B, ...` adds exactly the listed
   ones to what was suppressed before. *)
From Lib Require Import Base Noqa.
Open Scope list_scope.
Local Notation length := List.length.
Open Scope N_scope.

Definition alnum (c : N) : bool := ((48 <=? c) && (c <=? 57)) || ((65 <=? c) && (c <=? 90)) || ((97 <=? c) && (c <=? 122)).
Definition tok (t : text) : bool := negb (match t with [] => true | _ => false end) && forallb alnum t.

Lemma alnum_props c : alnum c = true ->
  is_space c = false /\ (c =? 32) = false /\ (c =? 44) = false /\ (c =? 39) = false /\ (c =? 34) = false.
Proof.
  unfold alnum, is_space. intros H.
  repeat match goal with H : (_ || _)%bool = true |- _ => apply orb_true_iff in H as [H|H] end;
    apply andb_true_iff in H as [H1 H2]; apply N.leb_le in H1, H2;
    repeat split;
    repeat match goal with
    | |- (_ || _)%bool = false => apply orb_false_iff; split
    | |- (_ && _)%bool = false => apply andb_false_iff
    | |- (_ =? _) = false => apply N.eqb_neq; lia
    end; try (left; apply N.leb_gt; lia); try (right; apply N.leb_gt; lia).
Qed.

(* rstrip leaves a text alone when it ends in a non-space *)
Lemma rstrip_app (a b : text) : rstrip b <> [] -> rstrip (a ++ b) = a ++ rstrip b.
Proof.
  intros Hb. induction a as [|c r IH]; [reflexivity|]. simpl. rewrite IH.
  destruct (r ++ rstrip b) eqn:E; [|reflexivity]. apply app_eq_nil in E as [_ E]. congruence.
Qed.

Lemma rstrip_last (t : text) c : is_space c = false -> rstrip (t ++ [c]) = t ++ [c].
Proof.
  intros Hc. rewrite rstrip_app; simpl; rewrite Hc; [reflexivity|discriminate].
Qed.

(* join ", " *)
Fixpoint join_cs (cs : list text) : text :=
  match cs with [] => [] | [t] => t | t :: r => t ++ [44; 32] ++ join_cs r end.

Lemma forallb_app' {A} (f : A -> bool) a b : forallb f (a ++ b) = (forallb f a && forallb f b)%bool.
Proof. induction a as [|x r IH]; simpl; [reflexivity|]. now rewrite IH, andb_assoc. Qed.

Lemma join_no_quote cs : forallb tok cs = true -> no_quote (join_cs cs) = true.
Proof.
  induction cs as [|t r IH]; [reflexivity|]. intros H. cbn [forallb] in H. apply andb_true_iff in H as [Ht Hr].
  assert (Hq : no_quote t = true).
  { unfold tok in Ht. apply andb_true_iff in Ht as [_ Ht]. unfold no_quote. rewrite forallb_forall in *.
    intros c Hc. destruct (alnum_props c (Ht c Hc)) as (_ & _ & _ & A & B). now rewrite A, B. }
  destruct r as [|t2 r2]; [exact Hq|].
  change (join_cs (t :: t2 :: r2)) with (t ++ [44; 32] ++ join_cs (t2 :: r2)).
  unfold no_quote in *. rewrite !forallb_app', Hq, (IH Hr). reflexivity.
Qed.

Lemma join_nonempty_last cs : cs <> [] -> forallb tok cs = true ->
  exists t c, join_cs cs = t ++ [c] /\ is_space c = false.
Proof.
  induction cs as [|t r IH]; [congruence|]. intros _ H. cbn [forallb] in H. apply andb_true_iff in H as [Ht Hr].
  destruct r as [|t2 r2].
  - unfold tok in Ht. apply andb_true_iff in Ht as [Hne Hal].
    destruct (exists_last (l := t)) as (t' & c & ->); [destruct t; [discriminate|congruence]|].
    exists t', c. split; [reflexivity|]. rewrite forallb_app' in Hal. apply andb_true_iff in Hal as [_ Hal].
    simpl in Hal. rewrite andb_true_r in Hal. now destruct (alnum_props c Hal).
  - destruct (IH ltac:(discriminate) Hr) as (t' & c & E & Hc).
    exists (t ++ [44; 32] ++ t'), c. split; [|exact Hc].
    change (join_cs (t :: t2 :: r2)) with (t ++ [44; 32] ++ join_cs (t2 :: r2)). rewrite E, <- !app_assoc. reflexivity.
Qed.

(* splitting the joined codes gives the codes back (and empty strings between them) *)
Lemma split_sp_tok t rest : forallb alnum t = true ->
  split_sp (t ++ 44 :: 32 :: rest) = t :: [] :: split_sp rest.
Proof.
  induction t as [|c r IH]; intros H; [reflexivity|].
  cbn [forallb] in H. apply andb_true_iff in H as [Hc Hr]. destruct (alnum_props c Hc) as (_ & A & B & _).
  simpl. rewrite A, B. simpl. rewrite (IH Hr). reflexivity.
Qed.

Lemma split_sp_single t : forallb alnum t = true -> split_sp t = [t].
Proof.
  induction t as [|c r IH]; intros H; [reflexivity|].
  cbn [forallb] in H. apply andb_true_iff in H as [Hc Hr]. destruct (alnum_props c Hc) as (_ & A & B & _).
  simpl. rewrite A, B. simpl. rewrite (IH Hr). reflexivity.
Qed.

Lemma existsb_split_join code cs : tok code = true -> forallb tok cs = true -> cs <> [] ->
  existsb (text_eqb code) (split_sp (join_cs cs)) = existsb (text_eqb code) cs.
Proof.
  intros Hcode. induction cs as [|t r IH]; [congruence|]. intros H _.
  cbn [forallb] in H. apply andb_true_iff in H as [Ht Hr].
  assert (Hal : forallb alnum t = true) by (unfold tok in Ht; now apply andb_true_iff in Ht as [_ ?]).
  destruct r as [|t2 r2].
  - simpl join_cs. now rewrite (split_sp_single _ Hal).
  - change (join_cs (t :: t2 :: r2)) with (t ++ 44 :: 32 :: join_cs (t2 :: r2)).
    rewrite (split_sp_tok _ _ Hal). cbn [existsb]. rewrite (IH Hr ltac:(discriminate)).
    assert (E : text_eqb code [] = false).
    { unfold tok in Hcode. apply andb_true_iff in Hcode as [Hne _]. destruct code; [discriminate|reflexivity]. }
    rewrite E. reflexivity.
Qed.


(* ---- white space ---- *)
Lemma space_facts c : is_space c = true ->
  (110 =? c) = false /\ (111 =? c) = false /\ (113 =? c) = false /\ (97 =? c) = false /\
  (c =? 35) = false /\ (c =? 39) = false /\ (c =? 34) = false.
Proof.
  intros H. repeat split;
  match goal with |- (?a =? ?b) = false => destruct (N.eqb_spec a b) as [E|]; [|reflexivity]; subst; vm_compute in H; discriminate end.
Qed.

Lemma spaces_no_hash w : forallb is_space w = true -> no_hash w = true.
Proof.
  unfold no_hash. rewrite !forallb_forall. intros H c Hc. destruct (space_facts c (H c Hc)) as (_ & _ & _ & _ & E & _). now rewrite E.
Qed.

Lemma spaces_no_quote w : forallb is_space w = true -> no_quote w = true.
Proof.
  unfold no_quote. rewrite !forallb_forall. intros H c Hc. destruct (space_facts c (H c Hc)) as (_ & _ & _ & _ & _ & A & B). now rewrite A, B.
Qed.

Lemma rstrip_spaces w : forallb is_space w = true -> rstrip w = [].
Proof.
  induction w as [|c r IH]; [reflexivity|]. intros H. cbn [forallb] in H. apply andb_true_iff in H as [Hc Hr].
  simpl. now rewrite (IH Hr), Hc.
Qed.

Lemma rstrip_app_spaces (c w : text) : forallb is_space w = true -> rstrip (c ++ w) = rstrip c.
Proof.
  intros Hw. induction c as [|x r IH]; [simpl; now apply rstrip_spaces|]. simpl. now rewrite IH.
Qed.

Lemma strip_app_spaces (c w : text) : forallb is_space w = true -> strip (c ++ w) = strip c.
Proof. intros Hw. unfold strip. now rewrite rstrip_app_spaces. Qed.

(* every text is its rstrip followed by white space *)
Lemma rstrip_decomp (L : text) : exists W, L = rstrip L ++ W /\ forallb is_space W = true.
Proof.
  induction L as [|x r (W & E & HW)]; [now exists []|]. simpl.
  destruct (rstrip r) as [|y r'] eqn:Er.
  - simpl in E. subst r. destruct (is_space x) eqn:Hx.
    + exists (x :: W). split; [reflexivity|]. simpl. now rewrite Hx.
    + exists W. split; [reflexivity|assumption].
  - exists W. split; [|assumption]. simpl. f_equal. exact E.
Qed.

(* ---- the search, when a quote-free text that begins with two white-space characters is appended ---- *)
Lemma starts_noqa_app (m X' : text) (w1 w2 : N) : m <> [] -> is_space w1 = true -> is_space w2 = true ->
  starts noqa_lit (m ++ w1 :: w2 :: X') =
  match starts noqa_lit m with Some r => Some (r ++ w1 :: w2 :: X') | None => None end.
Proof.
  intros Hm H1 H2.
  destruct (space_facts w1 H1) as (A1 & B1 & C1 & D1 & _).
  destruct (space_facts w2 H2) as (A2 & _).
  destruct m as [|a [|b [|c [|d [|e [|f r]]]]]]; [congruence| | | | | |]; cbn [starts noqa_lit app];
    repeat first [ rewrite A1 | rewrite B1 | rewrite C1 | rewrite D1 | rewrite A2
                 | match goal with |- context [(?x =? ?y)] => destruct (x =? y) end ];
    reflexivity.
Qed.

Lemma no_quote_app (a b : text) : no_quote (a ++ b) = (no_quote a && no_quote b)%bool.
Proof. unfold no_quote. apply forallb_app'. Qed.

Lemma search_app (M X' : text) (w1 w2 : N) : is_space w1 = true -> is_space w2 = true -> no_quote X' = true ->
  search (M ++ w1 :: w2 :: X') =
  match search M with Some t => Some (t ++ w1 :: w2 :: X') | None => search (w1 :: w2 :: X') end.
Proof.
  intros H1 H2 HQ. set (X := w1 :: w2 :: X').
  assert (HX : no_quote X = true).
  { unfold X. change (w1 :: w2 :: X') with ([w1; w2] ++ X'). rewrite no_quote_app, HQ, andb_true_r.
    apply spaces_no_quote. simpl. now rewrite H1, H2. }
  induction M as [|c r IH].
  - reflexivity.
  - change ((c :: r) ++ X) with (c :: (r ++ X)) at 1. cbn [search].
    assert (E : at_noqa (c :: r ++ X) = match at_noqa (c :: r) with Some t => Some (t ++ X) | None => None end).
    { unfold at_noqa. change (c :: r ++ X) with ((c :: r) ++ X). unfold X at 1 3.
      rewrite (starts_noqa_app (c :: r) X' w1 w2 ltac:(discriminate) H1 H2). fold X.
      destruct (starts noqa_lit (c :: r)) as [rest|]; [|reflexivity].
      rewrite no_quote_app, HX, andb_true_r. destruct (no_quote rest); reflexivity. }
    rewrite E. destruct (at_noqa (c :: r)) as [t|]; [reflexivity|]. exact IH.
Qed.

(* ---- the central statement: a comment U appended after two spaces ---- *)
Definition ws2 : text := [32; 32].

Lemma comment_empty code : comment_ignores code (strip []) = false.
Proof. reflexivity. Qed.

Lemma appended (L U code : text) :
  no_hash U = true -> no_quote U = true -> rstrip U = U -> U <> [] ->
  at_noqa (35 :: U) = Some (35 :: U) ->
  ignored_on_line (L ++ ws2 ++ 35 :: U) code = (ignored_on_line L code || comment_ignores code (strip U))%bool.
Proof.
  intros HH HQ HR HN HA. unfold ignored_on_line.
  assert (Hr : rstrip (L ++ ws2 ++ 35 :: U) = L ++ ws2 ++ 35 :: U).
  { replace (L ++ ws2 ++ 35 :: U) with ((L ++ ws2 ++ [35]) ++ U) by (rewrite <- !app_assoc; reflexivity).
    rewrite rstrip_app; [now rewrite HR|now rewrite HR]. }
  rewrite Hr. destruct (rstrip_decomp L) as (W & EL & HW). set (M := rstrip L) in *.
  rewrite EL at 1. rewrite <- app_assoc.
  assert (Hhead : exists w1 w2 X', W ++ ws2 ++ 35 :: U = w1 :: w2 :: X' /\ is_space w1 = true /\ is_space w2 = true
                                   /\ X' = skipn 2 (W ++ ws2 ++ 35 :: U)).
  { destruct W as [|a [|b W']]; cbn [forallb] in HW.
    - exists 32, 32, (35 :: U). repeat split.
    - apply andb_true_iff in HW as [Ha _]. exists a, 32, (32 :: 35 :: U). repeat split. exact Ha.
    - apply andb_true_iff in HW as [Ha HW]. apply andb_true_iff in HW as [Hb _].
      exists a, b, (W' ++ ws2 ++ 35 :: U). repeat split; assumption. }
  destruct Hhead as (w1 & w2 & X' & EX & H1 & H2 & _).
  assert (HQX : no_quote (W ++ ws2 ++ 35 :: U) = true).
  { rewrite !no_quote_app. rewrite (spaces_no_quote W HW). simpl. exact HQ. }
  assert (HQX' : no_quote X' = true).
  { rewrite EX in HQX. change (w1 :: w2 :: X') with ([w1; w2] ++ X') in HQX. rewrite no_quote_app in HQX.
    now apply andb_true_iff in HQX as [_ ?]. }
  rewrite EX, (search_app M X' w1 w2 H1 H2 HQX'), <- EX.
  assert (HWs : forallb is_space (W ++ ws2) = true) by (rewrite forallb_app', HW; reflexivity).
  assert (Hf : forall x, comment_ignores code (strip (x ++ W ++ ws2)) = comment_ignores code (strip x))
    by (intros x; now rewrite strip_app_spaces).
  destruct (search M) as [t|].
  - unfold verdict. replace (t ++ W ++ ws2 ++ 35 :: U) with ((t ++ W ++ ws2) ++ 35 :: U) by (rewrite <- !app_assoc; reflexivity).
    rewrite split_hash_app, existsb_app, (split_hash_no_hash U HH).
    rewrite (split_hash_app_no_hash t (W ++ ws2) (spaces_no_hash _ HWs)).
    rewrite (existsb_map_last (fun c => comment_ignores code (strip c)) (fun c => c ++ W ++ ws2) _ Hf).
    cbn [existsb]. now rewrite orb_false_r.
  - replace (W ++ ws2 ++ 35 :: U) with ((W ++ ws2) ++ 35 :: U) by (rewrite <- app_assoc; reflexivity).
    rewrite (search_no_hash_prefix (W ++ ws2) _ (spaces_no_hash _ HWs)).
    cbn [search]. rewrite HA. unfold verdict. cbn [split_hash N.eqb Pos.eqb]. rewrite (split_hash_no_hash U HH).
    cbn [existsb]. rewrite comment_empty, orb_false_r. reflexivity.
Qed.

Definition suffix_all : text := [32; 32; 35; 32; 110; 111; 113; 97].          (* two spaces, hash noqa *)
Definition suffix_some : text := [32; 32; 35; 32; 110; 111; 113; 97; 58; 32].  (* ... colon space *)

(* appending a bare noqa comment to any line whatsoever suppresses every code on it *)
Theorem noqa_all_appended_all : forall (L code : text), ignored_on_line (L ++ suffix_all) code = true.
Proof.
  intros L code. change suffix_all with (ws2 ++ 35 :: [32; 110; 111; 113; 97]).
  rewrite appended; try reflexivity; [|discriminate]. apply orb_true_r.
Qed.

(* appending a noqa comment with codes to any line whatsoever suppresses what was suppressed before
   plus exactly the listed codes *)
Theorem noqa_some_appended_all : forall (L code : text) (cs : list text),
  tok code = true -> forallb tok cs = true -> cs <> [] ->
  ignored_on_line (L ++ suffix_some ++ join_cs cs) code = (ignored_on_line L code || existsb (text_eqb code) cs)%bool.
Proof.
  intros L code cs Hcode Hcs Hne.
  destruct (join_nonempty_last cs Hne Hcs) as (t & c & E & Hc).
  pose proof (join_no_quote cs Hcs) as HQ.
  pose proof (existsb_split_join code cs Hcode Hcs Hne) as HS.
  assert (HH : no_hash (join_cs cs) = true).
  { clear - Hcs. induction cs as [|x r IH]; [reflexivity|]. cbn [forallb] in Hcs. apply andb_true_iff in Hcs as [Hx Hr].
    assert (Hxh : no_hash x = true).
    { unfold tok in Hx. apply andb_true_iff in Hx as [_ Hx]. unfold no_hash. rewrite forallb_forall in *. intros c Hc.
      specialize (Hx c Hc). destruct (N.eqb_spec c 35) as [->|]; [vm_compute in Hx; discriminate|reflexivity]. }
    destruct r as [|y r']; [exact Hxh|]. change (join_cs (x :: y :: r')) with (x ++ [44; 32] ++ join_cs (y :: r')).
    unfold no_hash in *. rewrite !forallb_app', Hxh, (IH Hr). reflexivity. }
  set (J := join_cs cs) in *.
  change (suffix_some ++ J) with (ws2 ++ 35 :: ([32; 110; 111; 113; 97; 58; 32] ++ J)).
  set (U := [32; 110; 111; 113; 97; 58; 32] ++ J).
  assert (HUr : rstrip U = U).
  { unfold U. rewrite E, app_assoc. apply rstrip_last. exact Hc. }
  rewrite (appended L U code).
  - f_equal. unfold U, strip. fold U. rewrite HUr. unfold U. cbn [app lstrip]. change (is_space 32) with true. cbn iota.
    change (is_space 110) with false. cbn iota. unfold comment_ignores.
    change (110 :: 111 :: 113 :: 97 :: 58 :: 32 :: J) with (noqa_colon ++ J). rewrite starts_app.
    rewrite HS. unfold noqa_colon, noqa_word. cbn [app text_eqb list_eqb N.eqb Pos.eqb andb orb]. reflexivity.
  - unfold U, no_hash. rewrite forallb_app'. fold (no_hash J). now rewrite HH.
  - unfold U. rewrite no_quote_app, HQ. reflexivity.
  - exact HUr.
  - unfold U. discriminate.
  - unfold at_noqa, U. change (35 :: [32; 110; 111; 113; 97; 58; 32] ++ J) with (noqa_lit ++ ([58; 32] ++ J)).
    rewrite starts_app, no_quote_app, HQ. reflexivity.
Qed.
