(* C14 — totality: neither parser can fail with anything but a ValueError. *)
From Lib Require Import Base Select Cli.
Open Scope list_scope.

Definition nocrash {A} (r : res A) : Prop := match r with Crash _ => False | _ => True end.

Lemma bind_nocrash {A B} (r : res A) (f : A -> res B) :
  nocrash r -> (forall a, nocrash (f a)) -> nocrash (bind r f).
Proof. destruct r; simpl; auto. Qed.

Lemma map_res_nocrash {A B} (f : A -> res B) l : (forall a, nocrash (f a)) -> nocrash (map_res f l).
Proof.
  intros H. induction l as [|x r IH]; simpl; [exact I|].
  apply bind_nocrash; [apply H|]. intros y. apply bind_nocrash; [exact IH|]. intros ys. exact I.
Qed.

Lemma parse_error_id_nocrash s : nocrash (parse_error_id s).
Proof. unfold parse_error_id. repeat match goal with |- context [if ?b then _ else _] => destruct b end; exact I. Qed.

Lemma parse_error_classifier_nocrash s : nocrash (parse_error_classifier s).
Proof.
  unfold parse_error_classifier. destruct s as [|c r]; [apply parse_error_id_nocrash|].
  destruct (Ascii.eqb_spec c "#"%char) as [->|N]; [exact I|].
  destruct c as [[] [] [] [] [] [] [] []]; try apply parse_error_id_nocrash; exact I.
Qed.

Lemma parse_python_version_nocrash s : nocrash (parse_python_version s).
Proof.
  unfold parse_python_version. destruct (split_on "." s) as [|a [|b [|c r]]]; try exact I.
  match goal with |- context [if ?b then _ else _] => destruct b end; exact I.
Qed.

Lemma validate_format_nocrash s : nocrash (validate_format s).
Proof. unfold validate_format. match goal with |- context [if ?b then _ else _] => destruct b end; exact I. Qed.
Lemma validate_sort_by_nocrash s : nocrash (validate_sort_by s).
Proof. unfold validate_sort_by. match goal with |- context [if ?b then _ else _] => destruct b end; exact I. Qed.

Lemma apply_value_nocrash s opt v : nocrash (apply_value s opt v).
Proof.
  unfold apply_value.
  repeat match goal with |- context [if String.eqb ?a ?b then _ else _] => destruct (String.eqb a b) end;
    try exact I;
    apply bind_nocrash; try (intros; exact I);
    auto using parse_error_id_nocrash, parse_python_version_nocrash, validate_format_nocrash, validate_sort_by_nocrash;
    apply map_res_nocrash; apply parse_error_classifier_nocrash.
Qed.

Lemma cli_step_nocrash st arg : nocrash st -> nocrash (cli_step st arg).
Proof.
  intros H. unfold cli_step. apply bind_nocrash; [exact H|]. intros [s m]. destruct m; try exact I.
  - destruct (flag_of arg); [exact I|].
    repeat match goal with |- context [if ?b then _ else _] => destruct b end; exact I.
  - apply bind_nocrash; [apply apply_value_nocrash|]. intros; exact I.
Qed.

Lemma fold_nocrash args : forall st, nocrash st -> nocrash (fold_left cli_step args st).
Proof. induction args as [|a r IH]; simpl; intros st H; [exact H|]. apply IH. now apply cli_step_nocrash. Qed.

(* every argument vector: a Settings value or a ValueError, nothing else *)
Theorem cli_total_all : forall args, nocrash (parse_cli args).
Proof.
  intros args. unfold parse_cli. destruct args as [|first rest]; [exact I|].
  match goal with |- context [if ?b then _ else _] => destruct b end; [exact I|].
  apply bind_nocrash; [apply fold_nocrash; exact I|]. intros [s m]. unfold cli_finish.
  destruct m; try exact I; match goal with |- context [if ?b then _ else _] => destruct b end; exact I.
Qed.

(* ---- the config file ---- *)
Lemma pop_list_nocrash c n : nocrash (pop_list c n).
Proof. unfold pop_list. destruct (tget n c) as [[]|]; exact I. Qed.
Lemma pop_bool_nocrash c n d : nocrash (pop_bool c n d).
Proof. unfold pop_bool. destruct (tget n c) as [[]|]; exact I. Qed.
Lemma pop_str_nocrash c n : nocrash (pop_str c n).
Proof. unfold pop_str. destruct (tget n c) as [[]|]; exact I. Qed.

Lemma parse_amendment_nocrash a : nocrash (parse_amendment a).
Proof.
  unfold parse_amendment. destruct a; try exact I.
  destruct (tget "path" kvs) as [[]|]; try exact I; destruct (tget "ignore" kvs) as [[]|]; try exact I.
  match goal with |- context [if ?b then _ else _] => destruct b end; [exact I|].
  apply bind_nocrash; [apply map_res_nocrash; intros; apply parse_error_classifier_nocrash|intros; exact I].
Qed.

Lemma parse_refurb_table_nocrash c : nocrash (parse_refurb_table c).
Proof.
  unfold parse_refurb_table.
  repeat (apply bind_nocrash;
          [ first [ apply pop_list_nocrash | apply pop_bool_nocrash
                  | apply map_res_nocrash; intros; apply parse_error_classifier_nocrash
                  | idtac ] | intros ]).
  all: try match goal with |- nocrash (match tget ?k ?cc with _ => _ end) => destruct (tget k cc) as [[]|] end.
  all: try exact I.
  all: try (apply bind_nocrash; [apply pop_str_nocrash|intros];
            apply bind_nocrash; [first [apply parse_python_version_nocrash|apply validate_format_nocrash|apply validate_sort_by_nocrash]|intros; exact I]).
  all: try (apply bind_nocrash; [apply map_res_nocrash; apply parse_amendment_nocrash|intros; exact I]).
  all: try (match goal with |- nocrash (match ?l with _ => _ end) => destruct l end; exact I).
Qed.

(* every TOML document, whatever the types of its values *)
Theorem cfg_total_all : forall doc, nocrash (parse_cfg doc).
Proof.
  intros doc. unfold parse_cfg. destruct (tget "tool" doc) as [tool|]; [|exact I].
  destruct (negb (truthy tool)); [exact I|]. destruct tool; try exact I.
  destruct (tget "refurb" kvs) as [cfg|]; [|exact I].
  destruct (negb (truthy cfg)); [exact I|]. destruct cfg; try exact I. apply parse_refurb_table_nocrash.
Qed.
