(* Run.v — a lint run as a fold of checks with private state over the visit sequence;
   the theorem that any selection's output is the filter of the full output. *)
From Lib Require Import Base.
Open Scope list_scope.
Local Notation length := List.length.

Section Run.
  Variable node : Type.
  Variable S : Type.                       (* a check's private state *)
  Variable msg : Type.

  Record check := { c_id : nat; c_init : S; c_step : node -> S -> list msg * S }.
  Definition diag := (nat * msg)%type.     (* tagged with the emitting check's id: its own error class *)

  (* one node: every check, in registration order, sees the node and its own state *)
  Fixpoint visit_node (n : node) (cs : list check) (sts : list S) : list diag * list S :=
    match cs, sts with
    | c :: cs', s :: sts' =>
        let '(ms, s') := c_step c n s in
        let '(ds, sts'') := visit_node n cs' sts' in
        (map (fun m => (c_id c, m)) ms ++ ds, s' :: sts'')
    | _, _ => ([], [])
    end.

  Fixpoint run_from (nodes : list node) (cs : list check) (sts : list S) : list diag :=
    match nodes with
    | [] => []
    | n :: r => let '(ds, sts') := visit_node n cs sts in ds ++ run_from r cs sts'
    end.

  Definition run (nodes : list node) (cs : list check) : list diag := run_from nodes cs (map c_init cs).

  Variable sel : nat -> bool.
  Definition keep (d : diag) : bool := sel (fst d).

  (* the states of the selected checks, in order *)
  Fixpoint sel_states (cs : list check) (sts : list S) : list S :=
    match cs, sts with
    | c :: cs', s :: sts' => if sel (c_id c) then s :: sel_states cs' sts' else sel_states cs' sts'
    | _, _ => []
    end.

  Lemma filter_map_tag (c : check) ms :
    filter keep (map (fun m => (c_id c, m)) ms) = if sel (c_id c) then map (fun m => (c_id c, m)) ms else [].
  Proof.
    unfold keep. induction ms as [|m r IH]; simpl; [now destruct (sel (c_id c))|].
    rewrite IH. now destruct (sel (c_id c)).
  Qed.

  Lemma visit_node_filter n cs : forall sts, length sts = length cs ->
    visit_node n (filter (fun c => sel (c_id c)) cs) (sel_states cs sts)
    = (filter keep (fst (visit_node n cs sts)), sel_states cs (snd (visit_node n cs sts))).
  Proof.
    induction cs as [|c r IH]; intros [|s sts] Hlen; simpl in *; try discriminate; try reflexivity.
    injection Hlen as Hlen. specialize (IH sts Hlen).
    destruct (c_step c n s) as [ms s'] eqn:Es. destruct (visit_node n r sts) as [ds sts''] eqn:Ev. simpl in *.
    rewrite filter_app, filter_map_tag.
    destruct (sel (c_id c)) eqn:Ec; simpl.
    - rewrite Es, IH. reflexivity.
    - rewrite IH. reflexivity.
  Qed.

  Lemma visit_node_length n cs : forall sts, length sts = length cs -> length (snd (visit_node n cs sts)) = length cs.
  Proof.
    induction cs as [|c r IH]; intros [|s sts] H; simpl in *; try discriminate; try reflexivity.
    injection H as H. destruct (c_step c n s). destruct (visit_node n r sts) eqn:E. simpl.
    f_equal. specialize (IH sts H). now rewrite E in IH.
  Qed.

  Lemma run_from_filter nodes cs : forall sts, length sts = length cs ->
    run_from nodes (filter (fun c => sel (c_id c)) cs) (sel_states cs sts) = filter keep (run_from nodes cs sts).
  Proof.
    induction nodes as [|n r IH]; intros sts Hlen; simpl; [reflexivity|].
    rewrite (visit_node_filter n cs sts Hlen).
    destruct (visit_node n cs sts) as [ds sts'] eqn:E. simpl.
    rewrite filter_app. f_equal. apply IH.
    pose proof (visit_node_length n cs sts Hlen) as HL. now rewrite E in HL.
  Qed.

  Lemma sel_states_init cs : sel_states cs (map c_init cs) = map c_init (filter (fun c => sel (c_id c)) cs).
  Proof. induction cs as [|c r IH]; simpl; [reflexivity|]. destruct (sel (c_id c)); simpl; now rewrite IH. Qed.

  (* any program (visit sequence), any set of checks, any selection *)
  Theorem selection_is_filter_all (nodes : list node) (cs : list check) :
    run nodes (filter (fun c => sel (c_id c)) cs) = filter keep (run nodes cs).
  Proof.
    unfold run. rewrite <- sel_states_init. apply run_from_filter. now rewrite map_length.
  Qed.
End Run.
