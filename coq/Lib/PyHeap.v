(* PyHeap.v — mutable lists and sets of ints behind references, for the rewrite rules whose
   original or replacement is a statement: who sees a mutation matters, so a variable holds
   an address and contents live in a heap.  Hand-written; tied to CPython by C01's
   correspondence (the final contents of every operand, through every name bound to it). *)
From Lib Require Import Base.
Open Scope list_scope.
Local Notation length := List.length.

Definition addr := nat.
Definition heap := list (addr * list Z).          (* contents of each list / set object *)
Definition env := list (string * addr).           (* names; several names may hold one address *)
Record store := { names : env; objs : heap }.

Fixpoint hget (a : addr) (h : heap) : option (list Z) :=
  match h with [] => None | (b, l) :: r => if Nat.eqb a b then Some l else hget a r end.
Fixpoint hset (a : addr) (l : list Z) (h : heap) : heap :=
  match h with [] => [(a, l)] | (b, m) :: r => if Nat.eqb a b then (b, l) :: r else (b, m) :: hset a l r end.
Fixpoint vget (x : string) (e : env) : option addr :=
  match e with [] => None | (y, a) :: r => if String.eqb x y then Some a else vget x r end.
Fixpoint vset (x : string) (a : addr) (e : env) : env :=
  match e with [] => [(x, a)] | (y, b) :: r => if String.eqb x y then (y, a) :: r else (y, b) :: vset x a r end.
Definition fresh_addr (h : heap) : addr := S (fold_right (fun p m => Nat.max (fst p) m) 0%nat h).

(* what a name denotes *)
Definition contents (x : string) (s : store) : option (list Z) :=
  match vget x (names s) with Some a => hget a (objs s) | None => None end.

(* in-place update of the object a name refers to *)
Definition mutate (x : string) (f : list Z -> option (list Z)) (s : store) : option store :=
  match vget x (names s) with
  | Some a => match hget a (objs s) with
              | Some l => match f l with Some l' => Some {| names := names s; objs := hset a l' (objs s) |} | None => None end
              | None => None end
  | None => None
  end.
(* x = <new object with these contents> *)
Definition rebind_new (x : string) (l : list Z) (s : store) : store :=
  let a := fresh_addr (objs s) in {| names := vset x a (names s); objs := hset a l (objs s) |}.

Definition bind {A B} (o : option A) (f : A -> option B) : option B := match o with Some a => f a | None => None end.

(* ---- list operations ---- *)
Definition op_append (x : string) (v : Z) := mutate x (fun l => Some (l ++ [v])).
Definition op_extend (x : string) (vs : list Z) := mutate x (fun l => Some (l ++ vs)).
Definition op_clear (x : string) := mutate x (fun _ => Some []).
Definition op_del_all (x : string) := mutate x (fun _ => Some []).              (* del x[:] *)
Definition op_assign_all (x : string) (vs : list Z) := mutate x (fun _ => Some vs).   (* x[:] = vs *)
Definition op_sort (x : string) := mutate x (fun l => Some (isort Z.leb l)).
Definition op_reverse (x : string) := mutate x (fun l => Some (rev l)).
Definition op_rebind_sorted (x : string) (s : store) : option store := bind (contents x s) (fun l => Some (rebind_new x (isort Z.leb l) s)).
Definition op_rebind_reversed (x : string) (s : store) : option store := bind (contents x s) (fun l => Some (rebind_new x (rev l) s)).

(* ---- set operations (a set of ints = duplicate-free list; order is not observable) ---- *)
Definition zmem (v : Z) (l : list Z) : bool := existsb (Z.eqb v) l.
Definition zremove (v : Z) (l : list Z) : list Z := filter (fun w => negb (Z.eqb v w)) l.
Definition set_add (v : Z) (l : list Z) : list Z := if zmem v l then l else l ++ [v].
Definition op_set_add (x : string) (v : Z) := mutate x (fun l => Some (set_add v l)).
Definition op_set_discard (x : string) (v : Z) := mutate x (fun l => Some (zremove v l)).
Definition op_set_remove (x : string) (v : Z) := mutate x (fun l => if zmem v l then Some (zremove v l) else None).   (* KeyError *)
Definition op_set_update (x : string) (vs : list Z) := mutate x (fun l => Some (fold_left (fun acc v => set_add v acc) vs l)).
Definition op_set_difference_update (x : string) (vs : list Z) := mutate x (fun l => Some (fold_left (fun acc v => zremove v acc) vs l)).

Fixpoint for_each (vs : list Z) (body : Z -> store -> option store) (s : store) : option store :=
  match vs with [] => Some s | v :: r => bind (body v s) (for_each r body) end.

(* enumerate *)
Fixpoint enumerate_from (i : Z) (l : list Z) : list (Z * Z) := match l with [] => [] | v :: r => (i, v) :: enumerate_from (i + 1) r end.
Fixpoint zrange (i : Z) (n : nat) : list Z := match n with O => [] | S m => i :: zrange (i + 1) m end.

(* ---- facts ---- *)
Lemma hget_hset_same a l h : hget a (hset a l h) = Some l.
Proof. induction h as [|[b m] r IH]; simpl; [now rewrite Nat.eqb_refl|]. destruct (Nat.eqb a b) eqn:E; simpl; rewrite E; [reflexivity|exact IH]. Qed.

Lemma hset_hset a l1 l2 h : hset a l2 (hset a l1 h) = hset a l2 h.
Proof. induction h as [|[b m] r IH]; simpl; [now rewrite Nat.eqb_refl|]. destruct (Nat.eqb a b) eqn:E; simpl; rewrite E; [reflexivity|now rewrite IH]. Qed.

Lemma mutate_mutate x f g s :
  bind (mutate x f s) (mutate x g) = mutate x (fun l => bind (f l) g) s.
Proof.
  unfold mutate. destruct (vget x (names s)) as [a|] eqn:V; [|reflexivity].
  destruct (hget a (objs s)) as [l|] eqn:H; [|reflexivity].
  destruct (f l) as [l'|]; [|reflexivity]. cbn [bind names objs]. rewrite V, hget_hset_same.
  destruct (g l'); [|reflexivity]. now rewrite hset_hset.
Qed.

Lemma mutate_ext x f g s : (forall l, f l = g l) -> mutate x f s = mutate x g s.
Proof.
  intros E. unfold mutate. destruct (vget x (names s)); [|reflexivity]. destruct (hget _ _); [|reflexivity]. now rewrite E.
Qed.

(* FURB113  x.append(a); x.append(b)  ->  x.extend((a, b)) : the same store, whoever else holds x *)
Theorem r113_append_append x a b s : bind (op_append x a s) (op_append x b) = op_extend x [a; b] s.
Proof.
  unfold op_append, op_extend. rewrite mutate_mutate. apply mutate_ext. intros l. cbn [bind]. now rewrite <- app_assoc.
Qed.

(* FURB131  del x[:]  /  x[:] = []  ->  x.clear() *)
Theorem r131_del x s : op_del_all x s = op_clear x s.
Proof. reflexivity. Qed.
Theorem r131_assign x s : op_assign_all x [] s = op_clear x s.
Proof. reflexivity. Qed.

(* FURB132  if v in s: s.remove(v)  ->  s.discard(v) *)
Definition lhs_132 (x : string) (v : Z) (s : store) : option store :=
  bind (contents x s) (fun l => if zmem v l then op_set_remove x v s else Some s).
Lemma zremove_absent v l : zmem v l = false -> zremove v l = l.
Proof.
  unfold zmem, zremove. induction l as [|w r IH]; simpl; [reflexivity|]. destruct (Z.eqb v w); simpl; [discriminate|]. intros H. now rewrite IH.
Qed.
Lemma hset_same a l h : hget a h = Some l -> hset a l h = h.
Proof.
  induction h as [|[b m] r IH]; simpl; [discriminate|]. destruct (Nat.eqb a b) eqn:E; [intros H; inversion H; apply Nat.eqb_eq in E; now subst|intros H; now rewrite IH].
Qed.
Theorem r132_remove_discard x v s : contents x s <> None -> lhs_132 x v s = op_set_discard x v s.
Proof.
  unfold lhs_132, contents, op_set_remove, op_set_discard, mutate. destruct (vget x (names s)) as [a|]; [|congruence].
  destruct (hget a (objs s)) as [l|] eqn:H; [|congruence]. intros _. cbn [bind]. destruct (zmem v l) eqn:M; [reflexivity|].
  rewrite (zremove_absent _ _ M), (hset_same _ _ _ H). now destruct s.
Qed.

(* FURB142  for v in vs: s.add(v)  ->  s.update(vs);   for v in vs: s.discard(v) -> s.difference_update(vs) *)
Lemma for_each_mutate x (g : Z -> list Z -> list Z) vs : forall s, contents x s <> None ->
  for_each vs (fun v => mutate x (fun l => Some (g v l))) s = mutate x (fun l => Some (fold_left (fun acc v => g v acc) vs l)) s.
Proof.
  induction vs as [|v r IH]; intros s Hc; cbn [for_each fold_left].
  - unfold mutate, contents in *. destruct (vget x (names s)) as [a|]; [|congruence]. destruct (hget a (objs s)) as [l|] eqn:H; [|congruence].
    rewrite (hset_same _ _ _ H). now destruct s.
  - unfold contents in Hc. destruct (mutate x (fun l => Some (g v l)) s) as [s1|] eqn:M1.
    + cbn [bind]. rewrite IH.
      * assert (E : Some s1 = mutate x (fun l => Some (g v l)) s) by (symmetry; exact M1).
        transitivity (bind (mutate x (fun l => Some (g v l)) s) (mutate x (fun l => Some (fold_left (fun acc v0 => g v0 acc) r l)))); [now rewrite M1|].
        rewrite mutate_mutate. apply mutate_ext. reflexivity.
      * unfold mutate in M1. destruct (vget x (names s)) as [a|] eqn:V; [|discriminate]. destruct (hget a (objs s)); [|discriminate].
        inversion M1; subst. unfold contents. cbn [names objs]. rewrite V, hget_hset_same. discriminate.
    + exfalso. unfold mutate in M1. destruct (vget x (names s)); [|congruence]. destruct (hget _ _); [discriminate|congruence].
Qed.
Theorem r142_add_update x vs s : contents x s <> None -> for_each vs (op_set_add x) s = op_set_update x vs s.
Proof. intros H. unfold op_set_add, op_set_update. exact (for_each_mutate x set_add vs s H). Qed.
Theorem r142_discard_difference x vs s : contents x s <> None -> for_each vs (op_set_discard x) s = op_set_difference_update x vs s.
Proof. intros H. unfold op_set_discard, op_set_difference_update. exact (for_each_mutate x zremove vs s H). Qed.

(* FURB148  for i, _ in enumerate(l) -> for i in range(len(l));  for _, v in enumerate(l) -> for v in l *)
Lemma enumerate_fst l : forall i, map fst (enumerate_from i l) = zrange i (length l).
Proof. induction l as [|v r IH]; intros i; simpl; [reflexivity|]. now rewrite IH. Qed.
Lemma enumerate_snd l : forall i, map snd (enumerate_from i l) = l.
Proof. induction l as [|v r IH]; intros i; simpl; [reflexivity|]. now rewrite IH. Qed.
Theorem r148_index_only l : map fst (enumerate_from 0 l) = zrange 0 (length l).
Proof. apply enumerate_fst. Qed.
Theorem r148_value_only l : map snd (enumerate_from 0 l) = l.
Proof. apply enumerate_snd. Qed.

(* FURB186  x = sorted(x)  ->  x.sort();  FURB187  x = x[::-1]  ->  x.reverse() :
   the name x ends up with the same contents, but another name for the same list does not *)
Lemma vget_vset_same x a e : vget x (vset x a e) = Some a.
Proof. induction e as [|[y b] r IH]; simpl; [now rewrite String.eqb_refl|]. destruct (String.eqb x y) eqn:E; simpl; rewrite E; [reflexivity|exact IH]. Qed.

Theorem r186_same_for_the_name x s : option_map (contents x) (op_rebind_sorted x s) = option_map (contents x) (op_sort x s).
Proof.
  unfold op_rebind_sorted, op_sort, mutate, contents. destruct (vget x (names s)) as [a|] eqn:V; [|reflexivity].
  destruct (hget a (objs s)) as [l|]; [|reflexivity]. cbn [bind option_map rebind_new names objs].
  now rewrite vget_vset_same, V, !hget_hset_same.
Qed.
Theorem r187_same_for_the_name x s : option_map (contents x) (op_rebind_reversed x s) = option_map (contents x) (op_reverse x s).
Proof.
  unfold op_rebind_reversed, op_reverse, mutate, contents. destruct (vget x (names s)) as [a|] eqn:V; [|reflexivity].
  destruct (hget a (objs s)) as [l|]; [|reflexivity]. cbn [bind option_map rebind_new names objs].
  now rewrite vget_vset_same, V, !hget_hset_same.
Qed.

Definition aliased : store := {| names := [("l"%string, 1%nat); ("other"%string, 1%nat)]; objs := [(1%nat, [3; 1; 2]%Z)] |}.
Theorem r186_refuted_alias : option_map (contents "other") (op_rebind_sorted "l" aliased) <> option_map (contents "other") (op_sort "l" aliased).
Proof. vm_compute. discriminate. Qed.
Theorem r187_refuted_alias : option_map (contents "other") (op_rebind_reversed "l" aliased) <> option_map (contents "other") (op_reverse "l" aliased).
Proof. vm_compute. discriminate. Qed.

Example store_exists : contents "l" aliased <> None.
Proof. vm_compute. discriminate. Qed.
