(* Select.v — classifiers, the Settings record, the command-line fold over the selection
   options (hand-written model of parse_command_line_args, tied by correspondence), its
   "last mention wins" characterisation, and the README's verdict as a specification.
   should_load_check and Settings.merge themselves are generated (GenSelect.v). *)
From Lib Require Import Base.
Open Scope list_scope.
Local Notation length := List.length.

Inductive cls :=
| Code (prefix : string) (id : N) (path : option string)
| Cat (name : string) (path : option string).

Definition opt_s_eqb (a b : option string) : bool :=
  match a, b with Some x, Some y => String.eqb x y | None, None => true | _, _ => false end.

Definition cls_eqb (a b : cls) : bool :=
  match a, b with
  | Code p n q, Code p' n' q' => String.eqb p p' && N.eqb n n' && opt_s_eqb q q'
  | Cat c q, Cat c' q' => String.eqb c c' && opt_s_eqb q q'
  | _, _ => false
  end.

Lemma opt_s_eqb_spec a b : opt_s_eqb a b = true <-> a = b.
Proof. destruct a, b; simpl; try rewrite String.eqb_eq; split; congruence. Qed.

Lemma cls_eqb_spec a b : cls_eqb a b = true <-> a = b.
Proof.
  destruct a as [p n q|c q], b as [p' n' q'|c' q']; simpl; try (split; congruence).
  - rewrite !andb_true_iff, String.eqb_eq, N.eqb_eq, opt_s_eqb_spec.
    split; [intros [[-> ->] ->]|intros E; inversion E]; auto.
  - rewrite andb_true_iff, String.eqb_eq, opt_s_eqb_spec. split; [intros [-> ->]|intros E; inversion E]; auto.
Qed.

Lemma cls_eqb_refl a : cls_eqb a a = true.
Proof. now apply cls_eqb_spec. Qed.

(* sets as lists *)
Definition inb (c : cls) (l : list cls) : bool := existsb (cls_eqb c) l.
Definition union (a b : list cls) : list cls := a ++ b.
Definition diff (a b : list cls) : list cls := filter (fun c => negb (inb c b)) a.
Definition inter (a b : list cls) : list cls := filter (fun c => inb c b) a.
Definition nonempty (a : list cls) : bool := match a with [] => false | _ => true end.
Arguments inb : simpl never.
Arguments union : simpl never.
Arguments diff : simpl never.

Lemma inb_In c l : inb c l = true <-> In c l.
Proof.
  unfold inb. rewrite existsb_exists. split.
  - intros (x & Hx & E). apply cls_eqb_spec in E. now subst.
  - intros H. exists c. split; [exact H|apply cls_eqb_refl].
Qed.

Lemma inb_union c a b : inb c (union a b) = inb c a || inb c b.
Proof. unfold inb, union. apply existsb_app. Qed.

Lemma inb_diff c a b : inb c (diff a b) = inb c a && negb (inb c b).
Proof.
  unfold diff. destruct (inb c (filter _ a)) eqn:E.
  - apply inb_In in E. apply filter_In in E as [E1 E2]. apply inb_In in E1. now rewrite E1, E2.
  - destruct (inb c a) eqn:E1; [|reflexivity]. destruct (inb c b) eqn:E2; [reflexivity|].
    exfalso. apply inb_In in E1. assert (In c (filter (fun c => negb (inb c b)) a)).
    { apply filter_In. split; [exact E1|now rewrite E2]. }
    apply inb_In in H. congruence.
Qed.

Lemma nonempty_inter a b : nonempty (inter a b) = existsb (fun c => inb c b) a.
Proof.
  unfold inter. induction a as [|x r IH]; simpl; [reflexivity|].
  destruct (inb x b); simpl; [reflexivity|exact IH].
Qed.

(* ---- the Settings record (refurb/settings.py) ---- *)
Record settings := {
  files : list string; explain : option cls; ignore : list cls; load : list string;
  enable : list cls; disable : list cls;
  debug : bool; generate : bool; help : bool; version : bool; quiet : bool;
  enable_all : bool; disable_all : bool;
  config_file : option string; python_version : option (N * N); mypy_args : list string;
  format : option string; sort_by : option string; verbose : bool;
  timing_stats : option string; color : bool
}.

Definition default_settings : settings :=
  {| files := []; explain := None; ignore := []; load := []; enable := []; disable := [];
     debug := false; generate := false; help := false; version := false; quiet := false;
     enable_all := false; disable_all := false; config_file := None; python_version := None;
     mypy_args := []; format := None; sort_by := None; verbose := false; timing_stats := None;
     color := true |}.

(* Python's `a or b` *)
Definition or_list {A} (a b : list A) : list A := match a with [] => b | _ => a end.
Definition or_opt {A} (a b : option A) : option A := match a with Some _ => a | None => b end.

(* a check as the loader sees it *)
Record chk := { k_prefix : string; k_id : N; k_cats : list string; k_enabled : bool }.

(* ---- the selection options of the command line, in order ---- *)
Inductive sopt := OEnable (cs : list cls) | ODisable (cs : list cls) | OEnableAll | ODisableAll | OIgnore (cs : list cls).

Record selstate := { st_enable : list cls; st_disable : list cls; st_ignore : list cls;
                     st_enable_all : bool; st_disable_all : bool }.
Definition sel0 : selstate := {| st_enable := []; st_disable := []; st_ignore := []; st_enable_all := false; st_disable_all := false |}.

Definition step (s : selstate) (o : sopt) : selstate :=
  match o with
  | OEnable cs => {| st_enable := union (st_enable s) cs; st_disable := diff (st_disable s) cs; st_ignore := st_ignore s;
                     st_enable_all := st_enable_all s; st_disable_all := st_disable_all s |}
  | ODisable cs => {| st_enable := diff (st_enable s) cs; st_disable := union (st_disable s) cs; st_ignore := st_ignore s;
                      st_enable_all := st_enable_all s; st_disable_all := st_disable_all s |}
  | ODisableAll => {| st_enable := []; st_disable := st_disable s; st_ignore := st_ignore s;
                      st_enable_all := st_enable_all s; st_disable_all := true |}
  | OEnableAll => {| st_enable := st_enable s; st_disable := []; st_ignore := st_ignore s;
                     st_enable_all := true; st_disable_all := st_disable_all s |}
  | OIgnore cs => {| st_enable := st_enable s; st_disable := st_disable s; st_ignore := union (st_ignore s) cs;
                     st_enable_all := st_enable_all s; st_disable_all := st_disable_all s |}
  end.

Definition cli_fold (opts : list sopt) : selstate := fold_left step opts sel0.

(* Specification: the status of a classifier after a sequence of options, read from the
   LAST option backwards ("whichever one comes last will take precedence"; --disable-all
   forgets earlier enables, --enable-all forgets earlier disables). *)
Fixpoint last_mention (rev_opts : list sopt) (c : cls) : option bool :=
  match rev_opts with
  | [] => None
  | OEnable cs :: r => if inb c cs then Some true else last_mention r c
  | ODisable cs :: r => if inb c cs then Some false else last_mention r c
  | ODisableAll :: r => match last_mention r c with Some true => None | x => x end
  | OEnableAll :: r => match last_mention r c with Some false => None | x => x end
  | OIgnore _ :: r => last_mention r c
  end.

Definition status_of (s : selstate) (c : cls) : option bool :=
  if inb c (st_enable s) then Some true else if inb c (st_disable s) then Some false else None.

Definition disjoint_ed (s : selstate) : Prop := forall c, inb c (st_enable s) = true -> inb c (st_disable s) = false.

Lemma step_status s o c : disjoint_ed s ->
  status_of (step s o) c =
    match o with
    | OEnable cs => if inb c cs then Some true else status_of s c
    | ODisable cs => if inb c cs then Some false else status_of s c
    | ODisableAll => match status_of s c with Some true => None | x => x end
    | OEnableAll => match status_of s c with Some false => None | x => x end
    | OIgnore _ => status_of s c
    end
  /\ disjoint_ed (step s o).
Proof.
  intros Hd. unfold status_of. destruct o as [cs|cs| | |cs]; simpl.
  - split.
    + rewrite inb_union, inb_diff. destruct (inb c cs); simpl; [now rewrite orb_true_r|].
      now rewrite orb_false_r, andb_true_r.
    + intros x. simpl. rewrite inb_union, inb_diff. intros H. apply orb_true_iff in H as [H|H].
      * now rewrite (Hd x H).
      * rewrite H. now rewrite andb_false_r.
  - split.
    + rewrite inb_union, inb_diff. destruct (inb c cs); simpl; [now rewrite andb_false_r, orb_true_r|].
      rewrite andb_true_r, orb_false_r. reflexivity.
    + intros x. simpl. rewrite inb_union, inb_diff. intros H. apply andb_true_iff in H as [H1 H2].
      rewrite (Hd x H1). simpl. now apply negb_true_iff in H2.
  - (* --enable-all *)
    split.
    + simpl. destruct (inb c (st_enable s)); [reflexivity|]. destruct (inb c (st_disable s)); reflexivity.
    + intros x. simpl. reflexivity.
  - (* --disable-all *)
    split.
    + simpl. destruct (inb c (st_enable s)) eqn:E.
      * rewrite (Hd c E). reflexivity.
      * destruct (inb c (st_disable s)); reflexivity.
    + intros x. simpl. discriminate.
  - split; [reflexivity|exact Hd].
Qed.

(* any option sequence, any length: membership in the folded sets = the last mention *)
Theorem cli_fold_last_mention (opts : list sopt) (c : cls) :
  status_of (cli_fold opts) c = last_mention (rev opts) c /\ disjoint_ed (cli_fold opts).
Proof.
  unfold cli_fold. induction opts as [|o r IH] using rev_ind.
  - simpl. split; [reflexivity|]. intros x. simpl. discriminate.
  - rewrite fold_left_app, rev_app_distr. simpl. destruct IH as [IH Hd].
    destruct (step_status (fold_left step r sel0) o c Hd) as [E Hd']. split; [|exact Hd'].
    rewrite E, IH. destruct o; reflexivity.
Qed.

(* ---- from option lists to Settings values (hand model of the selection-related part
   of parse_command_line_args / parse_config_file; tied by correspondence) ---- *)
Definition settings_of_sel (st : selstate) : settings :=
  {| files := []; explain := None; ignore := st_ignore st; load := []; enable := st_enable st; disable := st_disable st;
     debug := false; generate := false; help := false; version := false; quiet := false;
     enable_all := st_enable_all st; disable_all := st_disable_all st; config_file := None; python_version := None;
     mypy_args := []; format := None; sort_by := None; verbose := false; timing_stats := None; color := true |}.

Definition cli_settings (opts : list sopt) : settings := settings_of_sel (cli_fold opts).

Record cfgsel := { c_enable : list cls; c_disable : list cls; c_ignore : list cls; c_enable_all : bool; c_disable_all : bool }.

(* parse_config_file: settings.enable -= settings.disable *)
Definition cfg_settings (c : cfgsel) : settings :=
  settings_of_sel {| st_enable := diff (c_enable c) (c_disable c); st_disable := c_disable c; st_ignore := c_ignore c;
                     st_enable_all := c_enable_all c; st_disable_all := c_disable_all c |}.

(* Settings.__post_init__ on the merged value *)
Definition both_all (s : settings) : bool := enable_all s && disable_all s.

(* ---- the README's verdict for one check, from the final lists ---- *)
Definition code_of (k : chk) : cls := Code (k_prefix k) (k_id k) None.
Definition cats_of (k : chk) : list cls := map (fun c => Cat c None) (k_cats k).

Definition spec_verdict (s : settings) (k : chk) : bool :=
  if inb (code_of k) (ignore s) || existsb (fun c => inb c (ignore s)) (cats_of k) then false   (* ignored: silenced everywhere *)
  else if inb (code_of k) (enable s) then true                       (* explicit code beats category *)
  else if inb (code_of k) (disable s) then false
  else if existsb (fun c => inb c (enable s)) (cats_of k) then true  (* category selectors *)
  else if existsb (fun c => inb c (disable s)) (cats_of k) then false
  else if disable_all s then false                                   (* all-switches *)
  else k_enabled k || enable_all s.                                  (* default *)
