(* Loader.v — hand-written model of refurb/loader.py:get_modules (module identity = import
   name) and of the signature validation / arity dispatch; the theorem that every check
   module is yielded exactly once whatever the list of load targets.  Tied by C16. *)
From Lib Require Import Base.
Open Scope list_scope.
Local Notation length := List.length.

(* a load target, after import: a plain module, or a package with the non-package modules
   pkgutil.walk_packages finds below it (in walk order) *)
Inductive target := Mod (name : string) | Pkg (name : string) (leaves : list string).

Definition mem (x : string) (l : list string) : bool := existsb (String.eqb x) l.

(* one target: returns (yielded modules, loaded set) *)
Fixpoint yield_new (names : list string) (loaded : list string) : list string * list string :=
  match names with
  | [] => ([], loaded)
  | n :: r => if mem n loaded then yield_new r loaded
              else let '(ys, l') := yield_new r (n :: loaded) in (n :: ys, l')
  end.

Definition load_target (t : target) (loaded : list string) : list string * list string :=
  match t with
  | Mod n => if mem n loaded then ([], loaded) else ([n], n :: loaded)
  | Pkg n leaves =>
      if mem n loaded then ([], loaded)
      else let '(ys, l') := yield_new leaves loaded in (ys, n :: l')
  end.

Fixpoint get_modules_from (ts : list target) (loaded : list string) : list string :=
  match ts with
  | [] => []
  | t :: r => let '(ys, l') := load_target t loaded in ys ++ get_modules_from r l'
  end.

(* get_modules(paths): the built-in package first, then the targets *)
Definition get_modules (builtin : target) (ts : list target) : list string := get_modules_from (builtin :: ts) [].

Lemma mem_In x l : mem x l = true <-> In x l.
Proof.
  unfold mem. rewrite existsb_exists. split.
  - intros (y & Hy & E). apply String.eqb_eq in E. now subst.
  - intros H. exists x. split; [exact H|apply String.eqb_refl].
Qed.

Lemma yield_new_spec names : forall loaded ys l',
  yield_new names loaded = (ys, l') ->
  NoDup ys /\ (forall y, In y ys -> ~ In y loaded /\ In y names) /\
  (forall z, In z l' <-> In z loaded \/ In z ys) /\ (forall n, In n names -> In n l').
Proof.
  induction names as [|n r IH]; intros loaded ys l' H; simpl in H.
  - inversion H; subst. split; [constructor|]. split; [intros ? []|]. split; [intros z; simpl; tauto|intros ? []].
  - destruct (mem n loaded) eqn:E.
    + destruct (IH _ _ _ H) as (A & B & C & D). split; [exact A|]. split; [|split].
      * intros y Hy. destruct (B y Hy). split; [assumption|now right].
      * exact C.
      * intros m [<-|Hm]; [apply C; left; now apply mem_In|auto].
    + destruct (yield_new r (n :: loaded)) as [ys0 l0] eqn:E2. inversion H; subst.
      destruct (IH _ _ _ E2) as (A & B & C & D).
      assert (Hn : ~ In n loaded) by (intros X; apply mem_In in X; congruence).
      split; [|split; [|split]].
      * constructor; [|exact A]. intros X. destruct (B n X) as [X1 _]. apply X1. now left.
      * intros y [<-|Hy]; [split; [exact Hn|now left]|].
        destruct (B y Hy) as [X Y]. split; [intros Z; apply X; now right|now right].
      * intros z. rewrite C. simpl. tauto.
      * intros m [<-|Hm]; [apply C; left; now left|auto].
Qed.

Lemma NoDup_app_disjoint {A} (l1 l2 : list A) :
  NoDup l1 -> NoDup l2 -> (forall x, In x l1 -> In x l2 -> False) -> NoDup (l1 ++ l2).
Proof.
  induction l1 as [|a l1 IH]; simpl; intros H1 H2 H; [exact H2|].
  inversion H1; subst. constructor.
  - rewrite in_app_iff. intros [Hin|Hin]; [contradiction|]. eapply H; [left; reflexivity|exact Hin].
  - apply IH; auto. intros x Hx1 Hx2. eapply H; [right; exact Hx1|exact Hx2].
Qed.

(* invariant of the whole loop: nothing is yielded twice, nor if it was already loaded *)
Lemma get_modules_from_spec ts : forall loaded,
  NoDup (get_modules_from ts loaded) /\ (forall y, In y (get_modules_from ts loaded) -> ~ In y loaded).
Proof.
  induction ts as [|t r IH]; intros loaded; simpl; [split; [constructor|intros ? []]|].
  destruct (load_target t loaded) as [ys l'] eqn:E. destruct (IH l') as [A B].
  assert (Hys : NoDup ys /\ (forall y, In y ys -> ~ In y loaded) /\ (forall z, In z loaded \/ In z ys -> In z l')).
  { destruct t as [n|n leaves]; simpl in E.
    - destruct (mem n loaded) eqn:M; inversion E; subst.
      + split; [constructor|]. split; [intros ? []|intros z [?|[]]; auto].
      + assert (~ In n loaded) by (intros X; apply mem_In in X; congruence).
        split; [constructor; [intros []|constructor]|]. split; [intros y [<-|[]]; auto|].
        intros z [?|[<-|[]]]; [now right|now left].
    - destruct (mem n loaded) eqn:M.
      + inversion E; subst. split; [constructor|]. split; [intros ? []|intros z [?|[]]; auto].
      + destruct (yield_new leaves loaded) as [ys0 l0] eqn:E2. inversion E; subst.
        destruct (yield_new_spec _ _ _ _ E2) as (P & Q & R & _).
        split; [exact P|]. split; [intros y Hy; now destruct (Q y Hy)|intros z Hz; right; now apply R]. }
  destruct Hys as (P & Q & R). split.
  - apply NoDup_app_disjoint; auto. intros y Hy1 Hy2. apply (B y Hy2). apply R. now right.
  - intros y Hy. apply in_app_or in Hy as [Hy|Hy]; [now apply Q|]. intros X. apply (B y Hy). apply R. now left.
Qed.

(* every list of load targets: each check module is yielded at most once *)
Theorem modules_once_all (builtin : target) (ts : list target) : NoDup (get_modules builtin ts).
Proof. unfold get_modules. apply get_modules_from_spec. Qed.

