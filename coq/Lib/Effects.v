(* Effects.v — which side effects a check may have without being able to influence
   another check: the hypotheses of Run.selection_is_filter_all, as a decidable test over
   the effect summary regenerated from the source of every check (GenEffects.v). *)
From Lib Require Import Base.
Open Scope list_scope.

Definition row := (N * list string * list string * list string * list string)%type.

(* Hand-reviewed exceptions (each with its justification):
   - FURB120 assigns `Argument.initializer` of *typeshed* function definitions (never part of
     a checked file, and no other check reads an initializer of a builtin function);
   - FURB120 calls len(errors) only to take the length before/after its own appends. *)
Definition allowed_ast_write (code : N) (attr : string) : bool := N.eqb code 120 && String.eqb attr "initializer".
Definition allowed_errors_read (code : N) (what : string) : bool := N.eqb code 120 && String.eqb what "len(errors)".

Definition row_ok (r : row) : bool :=
  let '(code, globals, writes, reads, foreign) := r in
  forallb (allowed_ast_write code) writes && forallb (allowed_errors_read code) reads
  && match foreign with [] => true | _ => false end.
  (* module-level objects mutated at run time are private to their module as long as no
     other check module imports them: that is the `foreign` column *)

Definition effects_ok (t : list row) : bool := forallb row_ok t.
