(* Fs.v — run_refurb as a small effect program over "does the temporary file exist":
   every call either returns or raises one of the exceptions it is known to raise; the
   interpreter enumerates every outcome path.  The program itself is generated. *)
From Lib Require Import Base.
Open Scope list_scope.
Local Notation length := List.length.

Inductive stmt :=
| CreateTemp                                   (* mkstemp(), when --timing-stats is given *)
| UnlinkTemp                                   (* the temp file's unlink(), if one was made *)
| Call (name : string)
| Return
| Try (body : list stmt) (handlers : list (string * list stmt)) (final : list stmt)
| Suppress (exn : string) (body : list stmt)
| Loop (body : list stmt).                     (* for file in files *)

(* what each call may raise (hand-written summary; trusted, listed in the evidence) *)
Definition may_raise (name : string) : list string :=
  if String.eqb name "process_options" then ["SystemExit"]
  else if String.eqb name "build" then ["CompileError"]
  else if String.eqb name "load_checks" then ["TypeError"; "ImportError"]
  else if String.eqb name "accept" then ["RecursionError"; "Exception"]
  else if String.eqb name "output_timing_stats" then ["OSError"; "ValueError"]
  else if String.eqb name "should_ignore_error" then ["OSError"; "IndexError"]
  else ["Exception"].

Inductive outcome := Normal (temp : bool) | Returned (temp : bool) | Raised (exn : string) (temp : bool).

Definition temp_of (o : outcome) : bool := match o with Normal t | Returned t | Raised _ t => t end.

Section Exec.
  Variable timing : bool.

  (* all outcomes of a statement list from a state; loops run 0, 1 or 2 times *)
  Fixpoint exec (fuel : nat) (l : list stmt) (temp : bool) : list outcome :=
    match fuel with
    | O => [Raised "out-of-fuel" temp]
    | S f =>
        match l with
        | [] => [Normal temp]
        | s :: rest =>
            let continue := fun (o : outcome) =>
              match o with Normal t => exec f rest t | other => [other] end in
            flat_map continue
              (match s with
               | CreateTemp => [Normal (timing || temp)]
               | UnlinkTemp => [Normal false]
               | Call name => Normal temp :: map (fun e => Raised e temp) (may_raise name)
               | Return => [Returned temp]
               | Suppress exn body =>
                   map (fun o => match o with Raised e t => if String.eqb e exn then Normal t else o | _ => o end) (exec f body temp)
               | Loop body =>
                   Normal temp :: flat_map (fun o => match o with Normal t => exec f body t | other => [other] end) (exec f body temp)
                   ++ exec f body temp
               | Try body handlers final =>
                   let after_handlers :=
                     flat_map (fun o => match o with
                                        | Raised e t =>
                                            match lookup String.eqb fst e handlers with
                                            | Some (_, h) => exec f h t
                                            | None => [o]
                                            end
                                        | _ => [o] end) (exec f body temp) in
                   (* the finally block runs on every way out and keeps the way out *)
                   flat_map (fun o => map (fun o2 => match o2 with
                                                     | Normal t2 => match o with Normal _ => Normal t2 | Returned _ => Returned t2 | Raised e _ => Raised e t2 end
                                                     | other => other end) (exec f final (temp_of o))) after_handlers
               end)
        end
    end.
End Exec.

Definition all_paths_clean (prog : list stmt) : bool :=
  forallb (fun timing => forallb (fun o => negb (temp_of o)) (exec timing 60 prog false)) [true; false].
