(* Routing.v — which exceptions can escape a function, given per function the exceptions its own
   code lets out and the functions it calls with the handlers around each call.  `reach` is the
   executable closure; `escapes` the inductive meaning; `reach_complete` says that once `reach` has
   stopped growing it contains everything that can escape. *)
From Lib Require Import Base.
Open Scope list_scope.

Definition exn := (string * list string)%type.           (* where it is raised, its class and base classes *)
Definition caught (handlers : list string) (e : exn) : bool := existsb (fun h => memb String.eqb h (snd e)) handlers.
Definition exn_eqb (a b : exn) : bool := String.eqb (fst a) (fst b) && list_eqb String.eqb (snd a) (snd b).

Lemma exn_eqb_spec a b : exn_eqb a b = true <-> a = b.
Proof.
  destruct a as [o1 m1], b as [o2 m2]. unfold exn_eqb. cbn [fst snd].
  rewrite andb_true_iff, String.eqb_eq, (list_eqb_spec _ String.eqb_eq). split; [intros [-> ->]; reflexivity|intros H; inversion H; auto].
Qed.

Section Closure.
  Variable direct : list (string * list exn).
  Variable calls : list (string * list (string * list string)).

  Fixpoint assoc {B} (k : string) (l : list (string * list B)) : list B :=
    match l with [] => [] | (k', v) :: r => if String.eqb k k' then v else assoc k r end.

  Fixpoint reach (fuel : nat) (f : string) : list exn :=
    assoc f direct ++
    match fuel with
    | O => []
    | S n => flat_map (fun gh => filter (fun e => negb (caught (snd gh) e)) (reach n (fst gh))) (assoc f calls)
    end.

  Inductive escapes : string -> exn -> Prop :=
  | esc_direct f e : In e (assoc f direct) -> escapes f e
  | esc_call f g hs e : In (g, hs) (assoc f calls) -> escapes g e -> caught hs e = false -> escapes f e.

  Definition stable (n : nat) : Prop := forall g, incl (reach (S n) g) (reach n g).

  Theorem reach_complete n : stable n -> forall f e, escapes f e -> In e (reach n f).
  Proof.
    intros St f e H. induction H as [f e Hd|f g hs e Hc _ IH Hn].
    - destruct n; cbn [reach]; apply in_or_app; now left.
    - apply (St f). cbn [reach]. apply in_or_app. right. apply in_flat_map. exists (g, hs). split; [exact Hc|].
      cbn [fst snd]. apply filter_In. split; [exact IH|now rewrite Hn].
  Qed.

  (* stability is decidable on the finite universe of functions that occur in the tables *)
  Variable universe : list string.
  Definition keys_in_universe : bool :=
    forallb (fun kv => memb String.eqb (fst kv) universe) direct && forallb (fun kv => memb String.eqb (fst kv) universe) calls.
  Definition inclb (a b : list exn) : bool := forallb (fun x => existsb (exn_eqb x) b) a.
  Definition stableb (n : nat) : bool := forallb (fun g => inclb (reach (S n) g) (reach n g)) universe.

  Lemma assoc_absent {B} k (l : list (string * list B)) : (forall kv, In kv l -> fst kv <> k) -> assoc k l = [].
  Proof.
    induction l as [|[k' v] r IH]; intros H; [reflexivity|]. cbn [assoc]. destruct (String.eqb_spec k k') as [->|N].
    - exfalso. exact (H (k', v) (or_introl eq_refl) eq_refl).
    - apply IH. intros kv Hin. apply H. now right.
  Qed.

  Lemma inclb_incl a b : inclb a b = true -> incl a b.
  Proof.
    unfold inclb. intros H x Hx. apply (forallb_In _ _ H) in Hx. apply existsb_exists in Hx as (y & Hy & E). apply exn_eqb_spec in E. now subst.
  Qed.

  Theorem stableb_stable n : keys_in_universe = true -> stableb n = true -> stable n.
  Proof.
    unfold keys_in_universe, stableb. intros Hk Hs g. apply andb_true_iff in Hk as [Kd Kc].
    destruct (memb String.eqb g universe) eqn:M.
    - apply (proj1 (memb_In _ String.eqb String.eqb_eq _ _)) in M. apply inclb_incl. exact (forallb_In _ _ Hs g M).
    - assert (Ad : assoc g direct = []).
      { apply assoc_absent. intros kv Hin E. apply (forallb_In _ _ Kd) in Hin. rewrite E in Hin. congruence. }
      assert (Ac : assoc g calls = []).
      { apply assoc_absent. intros kv Hin E. apply (forallb_In _ _ Kc) in Hin. rewrite E in Hin. congruence. }
      cbn [reach]. rewrite Ad, Ac. cbn. intros x [].
  Qed.

  (* the statement a driver wants: whatever escapes f is one of the allowed exceptions *)
  Theorem only_allowed_escape n f (allowed : exn -> bool) :
    keys_in_universe = true -> stableb n = true -> forallb allowed (reach n f) = true ->
    forall e, escapes f e -> allowed e = true.
  Proof.
    intros Hk Hs Ha e He. apply (forallb_In _ _ Ha). apply reach_complete; [now apply stableb_stable|exact He].
  Qed.
End Closure.
