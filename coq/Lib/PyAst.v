(* PyAst.v — the mypy expression/statement classes that refurb's helpers
   (is_equivalent, stringify, get_mypy_type, the check matchers) inspect.
   No model of refurb here; only the data type, its induction principle, boolean
   equality and text utilities. *)
From Coq Require Import DecimalString DecimalZ DecimalPos.
From Lib Require Import Base.
Open Scope list_scope.
Local Notation length := List.length.

Inductive argkind := ARG_POS | ARG_OPT | ARG_STAR | ARG_NAMED | ARG_STAR2 | ARG_NAMED_OPT.

Definition argkind_eqb (a b : argkind) : bool :=
  match a, b with
  | ARG_POS, ARG_POS | ARG_OPT, ARG_OPT | ARG_STAR, ARG_STAR | ARG_NAMED, ARG_NAMED
  | ARG_STAR2, ARG_STAR2 | ARG_NAMED_OPT, ARG_NAMED_OPT => true
  | _, _ => false
  end.
Lemma argkind_eqb_spec a b : argkind_eqb a b = true <-> a = b.
Proof. destruct a, b; simpl; split; congruence. Qed.

(* Strings: identifiers/operators are Coq strings (ASCII); string literal values are
   lists of code points; fullname "" stands for None (unresolved). *)
Inductive expr :=
| EName (name fullname : string)
| EMember (e : expr) (name fullname : string)
| EInt (v : Z)
| EFloat (repr : string)                 (* Python's str(float value) *)
| EComplex (repr : string)               (* Python's str(complex value) *)
| EStr (cps : list N)
| EBytes (raw : string)                  (* mypy keeps bytes literals as escaped text *)
| EList (items : list expr)
| ETuple (items : list expr)
| ESet (items : list expr)
| EDict (items : list (option expr * expr))
| ECall (callee : expr) (args : list (argkind * option string * expr))
| EIndex (base index : expr)
| ESlice (lo hi step : option expr)
| EOp (op : string) (l r : expr)
| ECmp (ops : list string) (operands : list expr)
| EUnary (op : string) (e : expr)
| ECond (cond if_true if_false : expr)
| ELambda (params : list (argkind * option string)) (body : option expr)
      (* body = Some e when the lambda's block is a single `return e` *)
| EAwait (e : expr)
| EWalrus (target value : expr)
| EStar (e : expr)
| EOpaque (cls : string) (line : N) (text : string).
      (* any other node class, with mypy's own str() rendering *)

(* ---- induction principle carrying the hypotheses through the nested lists ---- *)
Definition Popt (P : expr -> Prop) (o : option expr) : Prop :=
  match o with Some x => P x | None => True end.

Section ExprInd.
  Variable P : expr -> Prop.
  Hypothesis HName : forall n f, P (EName n f).
  Hypothesis HMember : forall e n f, P e -> P (EMember e n f).
  Hypothesis HInt : forall v, P (EInt v).
  Hypothesis HFloat : forall r, P (EFloat r).
  Hypothesis HComplex : forall r, P (EComplex r).
  Hypothesis HStr : forall s, P (EStr s).
  Hypothesis HBytes : forall s, P (EBytes s).
  Hypothesis HList : forall l, Forall P l -> P (EList l).
  Hypothesis HTuple : forall l, Forall P l -> P (ETuple l).
  Hypothesis HSet : forall l, Forall P l -> P (ESet l).
  Hypothesis HDict : forall l,
      Forall (fun kv => Popt P (fst kv) /\ P (snd kv)) l -> P (EDict l).
  Hypothesis HCall : forall c args, P c -> Forall (fun a => P (snd a)) args -> P (ECall c args).
  Hypothesis HIndex : forall b i, P b -> P i -> P (EIndex b i).
  Hypothesis HSlice : forall a b c, Popt P a -> Popt P b -> Popt P c -> P (ESlice a b c).
  Hypothesis HOp : forall op l r, P l -> P r -> P (EOp op l r).
  Hypothesis HCmp : forall ops l, Forall P l -> P (ECmp ops l).
  Hypothesis HUnary : forall op e, P e -> P (EUnary op e).
  Hypothesis HCond : forall c a b, P c -> P a -> P b -> P (ECond c a b).
  Hypothesis HLambda : forall ps b, Popt P b -> P (ELambda ps b).
  Hypothesis HAwait : forall e, P e -> P (EAwait e).
  Hypothesis HWalrus : forall t v, P t -> P v -> P (EWalrus t v).
  Hypothesis HStar : forall e, P e -> P (EStar e).
  Hypothesis HOpaque : forall c l t, P (EOpaque c l t).

  Fixpoint expr_ind' (e : expr) : P e :=
    let fl := fix fl (l : list expr) : Forall P l :=
      match l with [] => Forall_nil _ | x :: r => Forall_cons _ (expr_ind' x) (fl r) end in
    let fo := fun (o : option expr) =>
      match o return Popt P o with
      | Some x => expr_ind' x | None => I end in
    match e with
    | EName n f => HName n f
    | EMember e n f => HMember e n f (expr_ind' e)
    | EInt v => HInt v
    | EFloat r => HFloat r
    | EComplex r => HComplex r
    | EStr s => HStr s
    | EBytes s => HBytes s
    | EList l => HList l (fl l)
    | ETuple l => HTuple l (fl l)
    | ESet l => HSet l (fl l)
    | EDict l => HDict l
        ((fix fd (l : list (option expr * expr)) :
            Forall (fun kv => Popt P (fst kv) /\ P (snd kv)) l :=
            match l with
            | [] => Forall_nil _
            | kv :: r => Forall_cons kv
                (match kv as kv0 return (Popt P (fst kv0) /\ P (snd kv0)) with
                 | (k, v) => conj (fo k) (expr_ind' v) end) (fd r)
            end) l)
    | ECall c args => HCall c args (expr_ind' c)
        ((fix fa (l : list (argkind * option string * expr)) : Forall (fun a => P (snd a)) l :=
            match l with
            | [] => Forall_nil _
            | a :: r => Forall_cons a
                (match a as a0 return P (snd a0) with (_, x) => expr_ind' x end) (fa r)
            end) args)
    | EIndex b i => HIndex b i (expr_ind' b) (expr_ind' i)
    | ESlice a b c => HSlice a b c (fo a) (fo b) (fo c)
    | EOp op l r => HOp op l r (expr_ind' l) (expr_ind' r)
    | ECmp ops l => HCmp ops l (fl l)
    | EUnary op e => HUnary op e (expr_ind' e)
    | ECond c a b => HCond c a b (expr_ind' c) (expr_ind' a) (expr_ind' b)
    | ELambda ps b => HLambda ps b (fo b)
    | EAwait e => HAwait e (expr_ind' e)
    | EWalrus t v => HWalrus t v (expr_ind' t) (expr_ind' v)
    | EStar e => HStar e (expr_ind' e)
    | EOpaque c l t => HOpaque c l t
    end.
End ExprInd.

(* ---- text utilities ---- *)
Definition hex_digit (d : N) : ascii :=
  if N.ltb d 10 then ascii_of_N (48 + d)%N else ascii_of_N (87 + d)%N.   (* lower-case a-f *)

Fixpoint N_to_hex_fuel (fuel : nat) (n : N) (acc : string) : string :=
  match fuel with
  | O => acc
  | S f => let acc' := String (hex_digit (N.modulo n 16)) acc in
           if N.ltb n 16 then acc' else N_to_hex_fuel f (N.div n 16) acc'
  end.
Definition N_to_hex (n : N) : string := N_to_hex_fuel (S (N.to_nat (N.log2 n))) n "".

Fixpoint rep_char (c : ascii) (k : nat) : string :=
  match k with O => EmptyString | S k' => String c (rep_char c k') end.
Definition pad_left (c : ascii) (width : nat) (s : string) : string :=
  (rep_char c (width - String.length s) ++ s)%string.

(* UTF-8 encoding of a code point (surrogates encoded as-is, like "surrogatepass") *)
Local Open Scope N_scope.
Definition utf8_cp (c : N) : list N :=
  if N.ltb c 128 then [c]
  else if N.ltb c 2048 then [192 + N.div c 64; 128 + N.modulo c 64]
  else if N.ltb c 65536 then [224 + N.div c 4096; 128 + N.modulo (N.div c 64) 64; 128 + N.modulo c 64]
  else [240 + N.div c 262144; 128 + N.modulo (N.div c 4096) 64; 128 + N.modulo (N.div c 64) 64; 128 + N.modulo c 64].
Local Close Scope N_scope.
Definition utf8 (cps : list N) : string := bs (flat_map utf8_cp cps).

(* Python's str(int): the standard library's decimal printer *)
Definition Z_to_dec (z : Z) : string := NilZero.string_of_int (Z.to_int z).

Lemma Z_to_dec_inj a b : Z_to_dec a = Z_to_dec b -> a = b.
Proof.
  unfold Z_to_dec. intros H.
  assert (Hn : forall z, Z.to_int z <> Decimal.Pos Decimal.Nil /\ Z.to_int z <> Decimal.Neg Decimal.Nil).
  { intros [|p|p]; simpl; split; try discriminate; intros E; inversion E as [E'];
      now apply DecimalPos.Unsigned.to_uint_nonnil in E'. }
  apply DecimalZ.to_int_inj.
  assert (E : Some (Z.to_int a) = Some (Z.to_int b)).
  { rewrite <- (NilZero.isi (Z.to_int a)), <- (NilZero.isi (Z.to_int b)) by apply Hn. now rewrite H. }
  now inversion E.
Qed.

Fixpoint str_rstrip_chars (chars : string) (s : string) : string :=
  match s with
  | EmptyString => EmptyString
  | String c r =>
      match str_rstrip_chars chars r with
      | EmptyString => if str_in c chars then EmptyString else String c EmptyString
      | r' => String c r'
      end
  end.

Fixpoint str_replace_char (c : ascii) (by_ : string) (s : string) : string :=
  match s with
  | EmptyString => EmptyString
  | String d r => if Ascii.eqb c d then (by_ ++ str_replace_char c by_ r)%string
                  else String d (str_replace_char c by_ r)
  end.

Definition opt_eqb {A} (eqb : A -> A -> bool) (a b : option A) : bool :=
  match a, b with Some x, Some y => eqb x y | None, None => true | _, _ => false end.
