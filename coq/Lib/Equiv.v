(* Equiv.v — what refurb's is_equivalent relies on besides its own code:
   unmangle_name, mypy's StrConv rendering used by the `str(lhs) == str(rhs)` fallback,
   the syntactic projection that is the specification of "same expression", and the
   well-formedness facts of mypy trees.  The function itself is generated (GenEquiv). *)
From Lib Require Import Base PyAst.
Open Scope list_scope.
Local Notation length := List.length.

(* unmangle_name: (name or "").rstrip("'*") *)
Definition unmangle (s : string) : string := str_rstrip_chars "'*" s.

(* Python's `a or b` on strings *)
Definition str_or (a b : string) : string := if String.eqb a "" then b else a.

(* mypy.strconv.StrConv.str_repr: backslash+char gets its backslash doubled, every code
   point outside 0x20..0x7e is printed as \u%.4x *)
Definition bslash : N := 92%N.
Fixpoint str_repr_cps (l : list N) : string :=
  match l with
  | [] => ""
  | c :: r =>
      let esc (c : N) : string :=
        if (N.leb 32 c && N.leb c 126)%bool then String (ascii_of_N c) ""
        else ("\u" ++ pad_left "0" 4 (N_to_hex c))%string in
      if N.eqb c bslash then
        match r with
        | d :: r' => ("\\" ++ esc d ++ str_repr_cps r')%string   (* re.sub(r"\\(.)", r"\\\\\1") *)
        | [] => "\"%string
        end
      else (esc c ++ str_repr_cps r)%string
  end.

(* Rendering used by the fallback comparison.  Classes with an explicit case are never
   compared through it against the same class; their rendering starts with the class
   name (assumption on mypy: renderings of different classes differ), encoded here by a
   \001-tag that no real rendering starts with. *)
Definition tag (cls : string) : string := String (ascii_of_N 1) cls.

Definition strconv (e : expr) : string :=
  match e with
  | EName _ _ => tag "NameExpr" | EMember _ _ _ => tag "MemberExpr"
  | EList _ => tag "ListExpr" | ETuple _ => tag "TupleExpr" | ESet _ => tag "SetExpr"
  | EDict _ => tag "DictExpr" | ECall _ _ => tag "CallExpr" | EIndex _ _ => tag "IndexExpr"
  | ESlice _ _ _ => tag "SliceExpr" | EOp _ _ _ => tag "OpExpr" | ECmp _ _ => tag "ComparisonExpr"
  | EUnary _ _ => tag "UnaryExpr" | EStar _ => tag "StarExpr"
  | EInt v => ("IntExpr(" ++ Z_to_dec v ++ ")")%string
  | EFloat r => ("FloatExpr(" ++ r ++ ")")%string
  | EComplex r => ("ComplexExpr(" ++ r ++ ")")%string
  | EStr s => ("StrExpr(" ++ str_repr_cps s ++ ")")%string
  | EBytes s => ("BytesExpr(" ++ s ++ ")")%string     (* raw text; escaped by the serializer *)
  | ECond _ _ _ | ELambda _ _ | EAwait _ | EWalrus _ _ => tag "structured-opaque"
  | EOpaque _ _ t => t
  end.

(* The remaining classes (ConditionalExpr, LambdaExpr, AwaitExpr, AssignmentExpr and
   everything else) have no explicit case: they reach the fallback with their full mypy
   rendering.  The serializer therefore hands them to this model as EOpaque. *)
Fixpoint fallback_free (e : expr) : bool :=
  let all := fix all (l : list expr) : bool :=
    match l with [] => true | x :: r => fallback_free x && all r end in
  let opt := fun (o : option expr) => match o with Some x => fallback_free x | None => true end in
  match e with
  | ECond _ _ _ | ELambda _ _ | EAwait _ | EWalrus _ _ => false
  | EName _ _ | EInt _ | EFloat _ | EComplex _ | EStr _ | EBytes _ | EOpaque _ _ _ => true
  | EMember x _ _ | EUnary _ x | EStar x => fallback_free x
  | EList l | ETuple l | ESet l | ECmp _ l => all l
  | EDict l => (fix alld (l : list (option expr * expr)) : bool :=
      match l with [] => true | (k, v) :: r => opt k && fallback_free v && alld r end) l
  | ECall c args => fallback_free c &&
      (fix alla (l : list (argkind * option string * expr)) : bool :=
         match l with [] => true | (_, x) :: r => fallback_free x && alla r end) args
  | EIndex a b | EOp _ a b => fallback_free a && fallback_free b
  | ESlice a b c => opt a && opt b && opt c
  end.

(* ---- the list/option combinators is_equivalent is written with (the generated
   function's per-constructor equations are stated with these) ---- *)
Section Combinators.
  Variable f : expr -> expr -> bool.

  Fixpoint all_zip_of (l1 l2 : list expr) : bool :=
    match l1, l2 with x :: r1, y :: r2 => f x y && all_zip_of r1 r2 | _, _ => true end.

  Fixpoint all_zip_args_of (l1 l2 : list (argkind * option string * expr)) : bool :=
    match l1, l2 with (_, x) :: r1, (_, y) :: r2 => f x y && all_zip_args_of r1 r2 | _, _ => true end.

  Definition opt_equiv_of (o1 o2 : option expr) : bool :=
    match o1, o2 with
    | None, None => true
    | Some x, Some y => f x y
    | Some x, None => String.eqb (strconv x) "None"
    | None, Some y => String.eqb "None" (strconv y)
    end.

  Fixpoint all_zip_dict_of (l1 l2 : list (option expr * expr)) : bool :=
    match l1, l2 with
    | (k1, v1) :: r1, (k2, v2) :: r2 => opt_equiv_of k1 k2 && f v1 v2 && all_zip_dict_of r1 r2
    | _, _ => true
    end.
End Combinators.

(* ---- specification: the syntactic projection.  Names keep their spelling and lose
   the resolved fullname; literals and opaque nodes are identified with their mypy
   rendering (see int/float/bytes injectivity and the StrExpr refutation below). *)
Fixpoint syn (e : expr) : expr :=
  let opt := fun (o : option expr) => match o with Some x => Some (syn x) | None => None end in
  match e with
  | EName n _ => EName n ""
  | EMember x n _ => EMember (syn x) n ""
  | EInt _ | EFloat _ | EComplex _ | EStr _ | EBytes _ | EOpaque _ _ _ => EOpaque "" 0 (strconv e)
  | EList l => EList (map syn l)
  | ETuple l => ETuple (map syn l)
  | ESet l => ESet (map syn l)
  | EDict l => EDict (map (fun kv => (opt (fst kv), syn (snd kv))) l)
  | ECall c args => ECall (syn c) (map (fun a => (fst a, syn (snd a))) args)
  | EIndex a b => EIndex (syn a) (syn b)
  | ESlice a b c => ESlice (opt a) (opt b) (opt c)
  | EOp op a b => EOp op (syn a) (syn b)
  | ECmp ops l => ECmp ops (map syn l)
  | EUnary op x => EUnary op (syn x)
  | ECond a b c => ECond (syn a) (syn b) (syn c)
  | ELambda ps b => ELambda ps (opt b)
  | EAwait x => EAwait (syn x)
  | EWalrus a b => EWalrus (syn a) (syn b)
  | EStar x => EStar (syn x)
  end.

(* ---- guard: what mypy guarantees in analysed, reachable code ---- *)
Fixpoint last_component (s : string) : string :=
  match s with
  | EmptyString => EmptyString
  | String c r => if str_in "."%char r then last_component r
                  else if Ascii.eqb c "."%char then r else s
  end.

Definition starts_tagged (t : string) : bool :=
  match t with String c _ => Ascii.eqb c (ascii_of_N 1) | EmptyString => false end.

(* an identifier: non-empty, none of the characters ' * . *)
Fixpoint no_special (s : string) : bool :=
  match s with
  | EmptyString => true
  | String c r => negb (str_in c "'*.") && no_special r
  end.
Definition ident (s : string) : bool := negb (String.eqb s "") && no_special s.

(* a name mypy resolved carries a fullname whose last component is the spelled name;
   a name it did not resolve carries none *)
Definition name_resolved (n f : string) : bool :=
  ident n && (String.eqb f "" || String.eqb n (last_component (unmangle f))).

Fixpoint guard (e : expr) : bool :=
  let all := fix all (l : list expr) : bool :=
    match l with [] => true | x :: r => guard x && all r end in
  let opt := fun (o : option expr) => match o with Some x => guard x | None => true end in
  match e with
  | EName n f => name_resolved n f
  | EOpaque _ _ t => negb (starts_tagged t) && negb (String.eqb t "None")
  | EInt _ | EFloat _ | EComplex _ | EStr _ | EBytes _ => true
  | ECond _ _ _ | ELambda _ _ | EAwait _ | EWalrus _ _ => false   (* handed over as EOpaque *)
  | EMember x _ _ | EUnary _ x | EStar x => guard x
  | EList l | ETuple l | ESet l => all l
  | ECmp ops l => Nat.eqb (List.length l) (S (List.length ops)) && all l
  | EDict l => (fix alld (l : list (option expr * expr)) : bool :=
      match l with [] => true | (k, v) :: r => opt k && guard v && alld r end) l
  | ECall c args => guard c &&
      (fix alla (l : list (argkind * option string * expr)) : bool :=
         match l with [] => true | (_, x) :: r => guard x && alla r end) args
  | EIndex a b | EOp _ a b => guard a && guard b
  | ESlice a b c => opt a && opt b && opt c
  end.

(* literal renderings: injective for int, float, complex, bytes ... *)
Lemma append_inj_l (p a b : string) : (p ++ a = p ++ b)%string -> a = b.
Proof. induction p as [|c p IH]; simpl; intros H; [exact H|]. inversion H. auto. Qed.

Lemma append_inj_r1 (a b : string) (c : ascii) :
  (a ++ String c "" = b ++ String c "")%string -> a = b.
Proof.
  revert b. induction a as [|x a IH]; intros [|y b]; simpl; intros H; try reflexivity.
  - inversion H as [[H1 H2]]. destruct b; discriminate.
  - inversion H as [[H1 H2]]. destruct a; discriminate.
  - inversion H. f_equal. auto.
Qed.

Lemma int_render_inj a b : strconv (EInt a) = strconv (EInt b) -> a = b.
Proof. simpl. intros H. inversion H as [H']. apply append_inj_r1 in H'. now apply Z_to_dec_inj. Qed.
Lemma float_render_inj a b : strconv (EFloat a) = strconv (EFloat b) -> a = b.
Proof. simpl. intros H. inversion H as [H']. now apply append_inj_r1 in H'. Qed.
Lemma complex_render_inj a b : strconv (EComplex a) = strconv (EComplex b) -> a = b.
Proof. simpl. intros H. inversion H as [H']. now apply append_inj_r1 in H'. Qed.
Lemma bytes_render_inj a b : strconv (EBytes a) = strconv (EBytes b) -> a = b.
Proof. simpl. intros H. inversion H as [H']. now apply append_inj_r1 in H'. Qed.

(* ... but not for str: \u%.4x prints five hex digits above U+FFFF *)
Lemma str_render_not_injective :
  exists a b, a <> b /\ strconv (EStr a) = strconv (EStr b).
Proof. exists [128512%N], [8032%N; 48%N]. split; [discriminate|]. vm_compute. reflexivity. Qed.
