(* PyMatch.v — what the translated check functions (GenMatch.v) are written with: message templates over
   the matched sub-expressions, rendered with the Stringify model. *)
From Lib Require Import Base PyAst Equiv Stringify.
Open Scope list_scope.
Open Scope string_scope.

Inductive part :=
| PLit (s : string)                            (* literal text, or a string computed by the check *)
| PExpr (e : expr)                             (* stringify(e) *)
| POperand (e : expr) (operator : string).     (* stringify_operand(e, operator) *)

Definition template := list part.

Definition render_part (p : part) : string :=
  match p with
  | PLit s => s
  | PExpr e => stringify e
  | POperand e o => stringify_operand e o
  end.

Fixpoint render (t : template) : string :=
  match t with [] => "" | p :: r => render_part p ++ render r end.

(* stands for `xs[i]` with i out of range (the checks guard such accesses by a length test) *)
Definition no_expr : expr := EOpaque "" 0 "".

Fixpoint lookup_str (t : list (string * string)) (k : string) : option string :=
  match t with
  | [] => None
  | (k', v) :: r => if String.eqb k k' then Some v else lookup_str r k
  end.

(* ---- helpers of refurb/checks/common.py that the translated checks call (transliterated) ---- *)
Definition is_true_literal (e : expr) : bool := match e with EName _ f => String.eqb f "builtins.True" | _ => false end.
Definition is_false_literal (e : expr) : bool := match e with EName _ f => String.eqb f "builtins.False" | _ => false end.
Definition is_bool_literal (e : expr) : bool := is_true_literal e || is_false_literal e.
(* NameExpr.name, read after the caller has narrowed the node to a NameExpr *)
Definition name_of (e : expr) : string := match e with EName n _ => n | _ => "" end.
