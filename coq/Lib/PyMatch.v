(* PyMatch.v — what the translated check functions (GenMatch.v) are written with: message templates over
   the matched sub-expressions, rendered with the Stringify model. *)
From Lib Require Import Base PyAst Equiv Stringify.
Open Scope list_scope.
Open Scope string_scope.

Inductive part :=
| PLit (s : string)                            (* literal text, or a string computed by the check *)
| PExpr (e : expr)                             (* stringify(e) *)
| POperand (e : expr) (operator : string).     (* stringify_operand(e, operator) *)

Definition template := list part.

Definition render_part (p : part) : string :=
  match p with
  | PLit s => s
  | PExpr e => stringify e
  | POperand e o => stringify_operand e o
  end.

Fixpoint render (t : template) : string :=
  match t with [] => "" | p :: r => render_part p ++ render r end.

(* stands for `xs[i]` with i out of range (the checks guard such accesses by a length test) *)
Definition no_expr : expr := EOpaque "" 0 "".

Fixpoint lookup_str (t : list (string * string)) (k : string) : option string :=
  match t with
  | [] => None
  | (k', v) :: r => if String.eqb k k' then Some v else lookup_str r k
  end.

(* ---- helpers of refurb/checks/common.py that the translated checks call (transliterated) ---- *)
Definition is_true_literal (e : expr) : bool := match e with EName _ f => String.eqb f "builtins.True" | _ => false end.
Definition is_false_literal (e : expr) : bool := match e with EName _ f => String.eqb f "builtins.False" | _ => false end.
Definition is_bool_literal (e : expr) : bool := is_true_literal e || is_false_literal e.
(* RefExpr.name / RefExpr.fullname (NameExpr and MemberExpr are the RefExpr classes), read after the caller has
   narrowed the node to one of them; fullname "" stands for None *)
Definition name_of (e : expr) : string := match e with EName n _ => n | EMember _ n _ => n | _ => "" end.
Definition ref_fullname (e : expr) : string := match e with EName _ f => f | EMember _ _ f => f | _ => "" end.

(* refurb/checks/common.py normalize_os_path (transliterated; the translator pins the source it was read from):
   the first dotted segment, when it begins with genericpath / ntpath / posixpath, is replaced by os.path *)
Fixpoint split_dot (s : string) : string * option string :=
  match s with
  | EmptyString => (EmptyString, None)
  | String c r =>
      if Ascii.eqb c "."%char then (EmptyString, Some r)
      else let (h, t) := split_dot r in (String c h, t)
  end.

Definition normalize_os_path (m : string) : string :=
  if String.eqb m "" then "" else
  let (first, rest) := split_dot m in
  if String.prefix "genericpath" first || String.prefix "ntpath" first || String.prefix "posixpath" first then
    match rest with None => "os.path" | Some r => "os.path." ++ r end
  else m.

(* xs[i] on a call's argument list (the checks guard such accesses by a pattern or a truth test), and `if xs:` *)
Definition nth_arg (i : nat) (args : list (argkind * option string * expr)) : expr :=
  match nth_error args i with Some (_, _, e) => e | None => no_expr end.
Definition is_nil {A} (l : list A) : bool := match l with [] => true | _ => false end.
