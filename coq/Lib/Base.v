(* Base.v — shared definitions and generic lemmas (no model of refurb here). *)
From Coq Require Export List Bool Arith NArith ZArith String Ascii Lia Permutation.
Export ListNotations.
Open Scope string_scope.

(* ---- strings from bytes (used by the harness for non-ASCII text) ---- *)
Fixpoint bs (l : list N) : string :=
  match l with
  | [] => EmptyString
  | b :: r => String (ascii_of_N b) (bs r)
  end.

Fixpoint concat_str (sep : string) (l : list string) : string :=
  match l with
  | [] => ""
  | [x] => x
  | x :: r => x ++ sep ++ concat_str sep r
  end.

Definition nl : string := String (ascii_of_N 10) EmptyString.

Fixpoint str_in (c : ascii) (s : string) : bool :=
  match s with
  | EmptyString => false
  | String d r => Ascii.eqb c d || str_in c r
  end.

(* ---- boolean NoDup over a decidable key ---- *)
Section Dec.
  Variable A : Type.
  Variable eqb : A -> A -> bool.
  Hypothesis eqb_spec : forall x y, eqb x y = true <-> x = y.

  Fixpoint memb (x : A) (l : list A) : bool :=
    match l with [] => false | y :: r => eqb x y || memb x r end.

  Fixpoint nodupb (l : list A) : bool :=
    match l with [] => true | x :: r => negb (memb x r) && nodupb r end.

  Lemma memb_In x l : memb x l = true <-> In x l.
  Proof.
    induction l as [|y r IH]; simpl; [split; [discriminate|tauto]|].
    rewrite orb_true_iff, IH, eqb_spec. split; intros [H|H]; auto.
  Qed.

  Lemma nodupb_NoDup l : nodupb l = true -> NoDup l.
  Proof.
    induction l as [|x r IH]; simpl; intros H; [constructor|].
    apply andb_true_iff in H as [H1 H2]. constructor; [|auto].
    intros Hin. apply memb_In in Hin. rewrite Hin in H1. discriminate.
  Qed.

  (* first-match lookup in a list with unique keys finds exactly the element *)
  Variable B : Type.
  Variable key : B -> A.

  Fixpoint lookup (k : A) (l : list B) : option B :=
    match l with
    | [] => None
    | b :: r => if eqb k (key b) then Some b else lookup k r
    end.

  Lemma lookup_unique l :
    NoDup (map key l) -> forall b, In b l -> lookup (key b) l = Some b.
  Proof.
    induction l as [|c r IH]; simpl; intros Hnd b Hin; [tauto|].
    inversion Hnd as [|? ? Hnotin Hnd']; subst.
    destruct (eqb (key b) (key c)) eqn:E.
    - apply eqb_spec in E. destruct Hin as [->|Hin]; [reflexivity|].
      exfalso. apply Hnotin. rewrite <- E. now apply in_map.
    - destruct Hin as [->|Hin].
      + assert (eqb (key b) (key b) = true) by now apply eqb_spec. congruence.
      + now apply IH.
  Qed.

  Lemma lookup_none k l : lookup k l = None <-> ~ In k (map key l).
  Proof.
    induction l as [|c r IH]; simpl; [tauto|].
    destruct (eqb k (key c)) eqn:E.
    - apply eqb_spec in E. split; [discriminate|]. intros H. exfalso. apply H. auto.
    - rewrite IH. split; intros H; [intros [H1|H1]|]; auto.
      + subst. assert (eqb (key c) (key c) = true) by now apply eqb_spec. congruence.
  Qed.
End Dec.

Arguments memb {A}.
Arguments nodupb {A}.
Arguments lookup {A} eqb {B}.

Lemma forallb_In {A} (f : A -> bool) l : forallb f l = true -> forall x, In x l -> f x = true.
Proof. intros H x Hx. rewrite forallb_forall in H. auto. Qed.

(* list equality test for strings *)
Fixpoint list_eqb {A} (eqb : A -> A -> bool) (a b : list A) : bool :=
  match a, b with
  | [], [] => true
  | x :: a', y :: b' => eqb x y && list_eqb eqb a' b'
  | _, _ => false
  end.

Lemma list_eqb_spec {A} (eqb : A -> A -> bool) :
  (forall x y, eqb x y = true <-> x = y) -> forall a b, list_eqb eqb a b = true <-> a = b.
Proof.
  intros H a. induction a as [|x a IH]; destruct b as [|y b]; simpl; try (split; congruence).
  rewrite andb_true_iff, H, IH. split; [intros [-> ->]; auto| intros E; inversion E; auto].
Qed.

Lemma string_eqb_spec x y : String.eqb x y = true <-> x = y.
Proof. apply String.eqb_eq. Qed.

(* ---- decimal rendering of N (Python's str(int) for naturals) ---- *)
Definition digit_ascii (d : N) : ascii := ascii_of_N (48 + d).

Fixpoint N_to_dec_fuel (fuel : nat) (n : N) (acc : string) : string :=
  match fuel with
  | O => acc
  | S f =>
      let acc' := String (digit_ascii (N.modulo n 10)) acc in
      if N.ltb n 10 then acc' else N_to_dec_fuel f (N.div n 10) acc'
  end.

Definition N_to_dec (n : N) : string := N_to_dec_fuel (S (N.to_nat (N.log2 n))) n "".

(* insertion sort, stable, on a boolean order *)
Section Sort.
  Variable A : Type.
  Variable leb : A -> A -> bool.
  Fixpoint insert_sorted (x : A) (l : list A) : list A :=
    match l with
    | [] => [x]
    | y :: r => if leb x y then x :: l else y :: insert_sorted x r
    end.
  Definition isort (l : list A) : list A := fold_right insert_sorted [] l.

  Lemma insert_sorted_perm x l : Permutation (x :: l) (insert_sorted x l).
  Proof.
    induction l as [|y r IH]; simpl; [reflexivity|].
    destruct (leb x y); [reflexivity|].
    rewrite perm_swap. now constructor.
  Qed.
  Lemma isort_perm l : Permutation l (isort l).
  Proof.
    induction l as [|x r IH]; simpl; [constructor|].
    etransitivity; [|apply insert_sorted_perm]. now constructor.
  Qed.
End Sort.
Arguments insert_sorted {A}.
Arguments isort {A}.

Fixpoint str_leb (a b : string) : bool :=
  match a, b with
  | EmptyString, _ => true
  | String _ _, EmptyString => false
  | String x a', String y b' =>
      let nx := N_of_ascii x in let ny := N_of_ascii y in
      if N.ltb nx ny then true else if N.ltb ny nx then false else str_leb a' b'
  end.
