(* Cli.v — hand-written executable model of refurb/settings.py: the classifier/version/
   format parsers, parse_command_line_args (as a fold over the argument vector) and
   parse_config_file (over a model of TOML values).  Tied to the code by C14's
   correspondence check. *)
From Lib Require Import Base Select.
Open Scope list_scope.
Open Scope string_scope.
Local Notation length := List.length.

Inductive res (A : Type) :=
| Ok (a : A)
| ValueErr (msg : string)          (* ValueError: printed by main() as one `refurb:` line *)
| Crash (exn : string).            (* any other exception: a traceback *)
Arguments Ok {A}. Arguments ValueErr {A}. Arguments Crash {A}.

Definition bind {A B} (r : res A) (f : A -> res B) : res B :=
  match r with Ok a => f a | ValueErr m => ValueErr m | Crash e => Crash e end.

(* ---- strings ---- *)
Fixpoint split_on (c : ascii) (s : string) : list string :=
  match s with
  | EmptyString => [EmptyString]
  | String d r =>
      if Ascii.eqb c d then EmptyString :: split_on c r
      else match split_on c r with
           | h :: t => String d h :: t
           | [] => [String d EmptyString]
           end
  end.

Definition is_digit (c : ascii) : bool := let n := N_of_ascii c in N.leb 48 n && N.leb n 57.
Definition is_upper (c : ascii) : bool := let n := N_of_ascii c in N.leb 65 n && N.leb n 90.

Fixpoint all_str (f : ascii -> bool) (s : string) : bool :=
  match s with EmptyString => true | String c r => f c && all_str f r end.

Fixpoint digits_val (s : string) (acc : N) : N :=
  match s with EmptyString => acc | String c r => digits_val r (10 * acc + (N_of_ascii c - 48))%N end.

Definition starts_with (p s : string) : bool := String.prefix p s.

Fixpoint str_take (n : nat) (s : string) : string :=
  match n, s with S k, String c r => String c (str_take k r) | _, _ => EmptyString end.
Fixpoint str_drop (n : nat) (s : string) : string :=
  match n, s with S k, String _ r => str_drop k r | _, _ => s end.

(* ERROR_ID_REGEX = ^([A-Z]{3,4})?(\d{3})$ with re.match: `$` also matches before a final newline *)
Definition strip_final_nl (s : string) : string :=
  let n := String.length s in
  if (Nat.ltb 0 n && String.eqb (str_drop (n - 1) s) nl)%bool then str_take (n - 1) s else s.

Definition parse_error_id (err : string) : res cls :=
  let s := strip_final_nl err in
  let n := String.length s in
  let ok3 (d : string) := (Nat.eqb (String.length d) 3 && all_str is_digit d)%bool in
  let bad := ValueErr ("refurb: """ ++ err ++ """ must be in form FURB123 or 123") in
  if ok3 s then Ok (Code "FURB" (digits_val s 0) None)
  else if (Nat.eqb n 6 && all_str is_upper (str_take 3 s) && ok3 (str_drop 3 s))%bool
       then Ok (Code (str_take 3 s) (digits_val (str_drop 3 s) 0) None)
  else if (Nat.eqb n 7 && all_str is_upper (str_take 4 s) && ok3 (str_drop 4 s))%bool
       then Ok (Code (str_take 4 s) (digits_val (str_drop 4 s) 0) None)
  else bad.

Definition parse_error_classifier (err : string) : res cls :=
  match err with
  | String "#" r => Ok (Cat r None)
  | _ => parse_error_id err
  end.

Fixpoint map_res {A B} (f : A -> res B) (l : list A) : res (list B) :=
  match l with
  | [] => Ok []
  | x :: r => bind (f x) (fun y => bind (map_res f r) (fun ys => Ok (y :: ys)))
  end.

(* parse_python_version: two "."-separated numeric parts (ASCII digits modelled) *)
Definition parse_python_version (v : string) : res (N * N) :=
  match split_on "." v with
  | [a; b] =>
      if (negb (String.eqb a "") && negb (String.eqb b "") && all_str is_digit a && all_str is_digit b)%bool
      then Ok (digits_val a 0, digits_val b 0)
      else ValueErr "refurb: version must be in form `x.y`"
  | _ => ValueErr "refurb: version must be in form `x.y`"
  end.

Definition validate_format (f : string) : res string :=
  if (String.eqb f "github" || String.eqb f "text")%bool then Ok f
  else ValueErr ("refurb: """ ++ f ++ """ is not a valid format").

Definition validate_sort_by (f : string) : res string :=
  if (String.eqb f "filename" || String.eqb f "error")%bool then Ok f
  else ValueErr ("refurb: cannot sort by """ ++ f ++ """").

(* ---- record updates ---- *)
Definition upd (s : settings)
  (files' : list string) (explain' : option cls) (ignore' : list cls) (load' : list string)
  (enable' disable' : list cls) : settings :=
  {| files := files'; explain := explain'; ignore := ignore'; load := load'; enable := enable'; disable := disable';
     debug := debug s; generate := generate s; help := help s; version := version s; quiet := quiet s;
     enable_all := enable_all s; disable_all := disable_all s; config_file := config_file s;
     python_version := python_version s; mypy_args := mypy_args s; format := format s; sort_by := sort_by s;
     verbose := verbose s; timing_stats := timing_stats s; color := color s |}.

Definition set_lists (s : settings) (ig en di : list cls) : settings := upd s (files s) (explain s) ig (load s) en di.

Inductive flag := FDebug | FHelp | FVersion | FQuiet | FVerbose | FNoColor | FEnableAll | FDisableAll.

Definition set_flag (s : settings) (f : flag) : settings :=
  {| files := files s; explain := explain s; ignore := ignore s; load := load s;
     enable := match f with FDisableAll => [] | _ => enable s end;
     disable := match f with FEnableAll => [] | _ => disable s end;
     debug := match f with FDebug => true | _ => debug s end; generate := generate s;
     help := match f with FHelp => true | _ => help s end;
     version := match f with FVersion => true | _ => version s end;
     quiet := match f with FQuiet => true | _ => quiet s end;
     enable_all := match f with FEnableAll => true | _ => enable_all s end;
     disable_all := match f with FDisableAll => true | _ => disable_all s end;
     config_file := config_file s; python_version := python_version s; mypy_args := mypy_args s; format := format s;
     sort_by := sort_by s; verbose := match f with FVerbose => true | _ => verbose s end;
     timing_stats := timing_stats s; color := match f with FNoColor => false | _ => color s end |}.

Inductive scalar := SConfig | SVersion | SFormat | SSort | STiming.

Definition set_scalars (s : settings) (cf : option string) (pv : option (N * N)) (fm sb ts : option string) (ma : list string) : settings :=
  {| files := files s; explain := explain s; ignore := ignore s; load := load s; enable := enable s; disable := disable s;
     debug := debug s; generate := generate s; help := help s; version := version s; quiet := quiet s;
     enable_all := enable_all s; disable_all := disable_all s; config_file := cf; python_version := pv;
     mypy_args := ma; format := fm; sort_by := sb; verbose := verbose s; timing_stats := ts; color := color s |}.

(* ---- parse_command_line_args as a state machine over the arguments ---- *)
Inductive mode := Normal | Expect (opt : string) | Rest.     (* Rest: after "--" *)

Definition valued_options : list string :=
  ["--explain"; "--ignore"; "--enable"; "--disable"; "--load"; "--config-file"; "--python-version"; "--format"; "--sort"; "--timing-stats"].

Definition apply_value (s : settings) (opt value : string) : res settings :=
  if String.eqb opt "--explain" then bind (parse_error_id value) (fun c => Ok (upd s (files s) (Some c) (ignore s) (load s) (enable s) (disable s)))
  else if String.eqb opt "--ignore" then
    bind (map_res parse_error_classifier (split_on "," value)) (fun cs => Ok (set_lists s (union (ignore s) cs) (enable s) (disable s)))
  else if String.eqb opt "--enable" then
    bind (map_res parse_error_classifier (split_on "," value)) (fun cs => Ok (set_lists s (ignore s) (union (enable s) cs) (diff (disable s) cs)))
  else if String.eqb opt "--disable" then
    bind (map_res parse_error_classifier (split_on "," value)) (fun cs => Ok (set_lists s (ignore s) (diff (enable s) cs) (union (disable s) cs)))
  else if String.eqb opt "--load" then Ok (upd s (files s) (explain s) (ignore s) (load s ++ [value]) (enable s) (disable s))
  else if String.eqb opt "--config-file" then Ok (set_scalars s (Some value) (python_version s) (format s) (sort_by s) (timing_stats s) (mypy_args s))
  else if String.eqb opt "--python-version" then
    bind (parse_python_version value) (fun v => Ok (set_scalars s (config_file s) (Some v) (format s) (sort_by s) (timing_stats s) (mypy_args s)))
  else if String.eqb opt "--format" then
    bind (validate_format value) (fun v => Ok (set_scalars s (config_file s) (python_version s) (Some v) (sort_by s) (timing_stats s) (mypy_args s)))
  else if String.eqb opt "--sort" then
    bind (validate_sort_by value) (fun v => Ok (set_scalars s (config_file s) (python_version s) (format s) (Some v) (timing_stats s) (mypy_args s)))
  else Ok (set_scalars s (config_file s) (python_version s) (format s) (sort_by s) (Some value) (mypy_args s)).  (* --timing-stats *)

Definition flag_of (arg : string) : option flag :=
  if String.eqb arg "--debug" then Some FDebug
  else if (String.eqb arg "--help" || String.eqb arg "-h")%bool then Some FHelp
  else if String.eqb arg "--version" then Some FVersion
  else if String.eqb arg "--quiet" then Some FQuiet
  else if String.eqb arg "--disable-all" then Some FDisableAll
  else if String.eqb arg "--enable-all" then Some FEnableAll
  else if (String.eqb arg "--verbose" || String.eqb arg "-v")%bool then Some FVerbose
  else if String.eqb arg "--no-color" then Some FNoColor
  else None.

Definition cli_step (st : res (settings * mode)) (arg : string) : res (settings * mode) :=
  bind st (fun sm =>
    let '(s, m) := sm in
    match m with
    | Rest => Ok (set_scalars s (config_file s) (python_version s) (format s) (sort_by s) (timing_stats s) (mypy_args s ++ [arg]), Rest)
    | Expect opt => bind (apply_value s opt arg) (fun s' => Ok (s', Normal))
    | Normal =>
        match flag_of arg with
        | Some f => Ok (set_flag s f, Normal)
        | None =>
            if existsb (String.eqb arg) valued_options then Ok (s, Expect arg)
            else if String.eqb arg "--" then
              (* settings.mypy_args = list(iargs): replaces whatever was there *)
              Ok (set_scalars s (config_file s) (python_version s) (format s) (sort_by s) (timing_stats s) [], Rest)
            else if starts_with "-" arg then ValueErr ("refurb: unsupported option """ ++ arg ++ """")
            else if String.eqb arg "" then ValueErr "refurb: argument cannot be empty"
            else Ok (upd s (files s ++ [arg]) (explain s) (ignore s) (load s) (enable s) (disable s), Normal)
        end
    end).

Definition with_help (s : settings) : settings := set_flag s FHelp.
Definition with_generate (s : settings) : settings :=
  {| files := files s; explain := explain s; ignore := ignore s; load := load s; enable := enable s; disable := disable s;
     debug := debug s; generate := true; help := help s; version := version s; quiet := quiet s;
     enable_all := enable_all s; disable_all := disable_all s; config_file := config_file s;
     python_version := python_version s; mypy_args := mypy_args s; format := format s; sort_by := sort_by s;
     verbose := verbose s; timing_stats := timing_stats s; color := color s |}.

Definition cli_finish (first : string) (n : nat) (sm : settings * mode) : res settings :=
  let '(s, m) := sm in
  match m with
  | Expect opt => ValueErr ("refurb: missing argument after """ ++ opt ++ """")
  | _ =>
      if (Nat.ltb 1 n && (help s || version s))%bool
      then ValueErr ("refurb: unexpected value before/after `" ++ first ++ "`")
      else Ok s
  end.

Definition parse_cli (args : list string) : res settings :=
  match args with
  | [] => Ok (with_help default_settings)
  | first :: rest =>
      if (match rest with [] => String.eqb first "gen" | _ => false end)
      then Ok (with_generate default_settings)
      else bind (fold_left cli_step args (Ok (default_settings, Normal))) (cli_finish first (length args))
  end.

(* ---- TOML values and parse_config_file ---- *)
Inductive toml :=
| TStr (s : string) | TInt (z : Z) | TFloat (repr : string) | TBool (b : bool) | TDate (repr : string)
| TList (l : list toml) | TTable (kvs : list (string * toml)).

(* Python truthiness of a parsed TOML value *)
Definition truthy (v : toml) : bool :=
  match v with
  | TStr s => negb (String.eqb s "") | TInt z => negb (Z.eqb z 0) | TFloat r => negb (String.eqb r "0.0" || String.eqb r "-0.0")
  | TBool b => b | TDate _ => true | TList l => negb (Nat.eqb (length l) 0) | TTable kvs => negb (Nat.eqb (length kvs) 0)
  end.

Fixpoint tget (k : string) (kvs : list (string * toml)) : option toml :=
  match kvs with [] => None | (k', v) :: r => if String.eqb k k' then Some v else tget k r end.
Definition tdel (k : string) (kvs : list (string * toml)) : list (string * toml) :=
  filter (fun kv => negb (String.eqb k (fst kv))) kvs.

(* str(x) of a TOML value as far as classifier / argument parsing can tell it apart:
   strings are themselves, integers their decimal form; anything else renders to a text
   that no parser accepts (rendered with a leading "<") *)
Definition py_str (v : toml) : string :=
  match v with
  | TStr s => s
  | TInt z => match z with Zneg _ => "-" ++ N_to_dec (Z.to_N (Z.opp z)) | _ => N_to_dec (Z.to_N z) end
  | TBool true => "True" | TBool false => "False"
  | TFloat r => r | TDate r => r
  | TList _ => "<list>" | TTable _ => "<dict>"
  end.

Definition pop_list (cfg : list (string * toml)) (name : string) : res (list toml) :=
  match tget name cfg with
  | None => Ok []
  | Some (TList l) => Ok l
  | Some _ => ValueErr ("refurb: """ ++ name ++ """ must be a list")
  end.
Definition pop_bool (cfg : list (string * toml)) (name : string) (default : bool) : res bool :=
  match tget name cfg with
  | None => Ok default
  | Some (TBool b) => Ok b
  | Some _ => ValueErr ("refurb: """ ++ name ++ """ must be a bool")
  end.
Definition pop_str (cfg : list (string * toml)) (name : string) : res string :=
  match tget name cfg with
  | Some (TStr s) => Ok s
  | None => Ok ""
  | Some _ => ValueErr ("refurb: """ ++ name ++ """ must be a string")
  end.

Definition with_path (c : cls) (p : string) : cls :=
  match c with Code a b _ => Code a b (Some p) | Cat a _ => Cat a (Some p) end.

Definition parse_amendment (a : toml) : res (list cls) :=
  let bad := ValueErr "refurb: ""path"" or ""ignore"" fields are missing or malformed" in
  match a with
  | TTable kvs =>
      match tget "path" kvs, tget "ignore" kvs with
      | Some (TStr path), Some (TList ignored) =>
          if Nat.ltb 0 (length (tdel "ignore" (tdel "path" kvs)))
          then ValueErr "refurb: only ""path"" and ""ignore"" fields are supported"
          else bind (map_res (fun x => parse_error_classifier (py_str x)) ignored)
                    (fun cs => Ok (map (fun c => with_path c path) cs))
      | _, _ => bad
      end
  | _ => bad
  end.

Definition known_keys : list string :=
  ["load"; "quiet"; "disable_all"; "enable_all"; "color"; "enable"; "disable"; "ignore"; "mypy_args";
   "python_version"; "format"; "sort_by"; "amend"].

Definition parse_refurb_table (config : list (string * toml)) : res settings :=
  bind (pop_list config "load") (fun load_ =>
  bind (pop_bool config "quiet" false) (fun quiet_ =>
  bind (pop_bool config "disable_all" false) (fun da =>
  bind (pop_bool config "enable_all" false) (fun ea =>
  bind (pop_bool config "color" true) (fun color_ =>
  bind (pop_list config "enable") (fun en =>
  bind (pop_list config "disable") (fun di =>
  bind (map_res (fun x => parse_error_classifier (py_str x)) en) (fun en' =>
  bind (map_res (fun x => parse_error_classifier (py_str x)) di) (fun di' =>
  bind (pop_list config "ignore") (fun ig =>
  bind (map_res (fun x => parse_error_classifier (py_str x)) ig) (fun ig' =>
  bind (pop_list config "mypy_args") (fun ma =>
  bind (match tget "python_version" config with
        | None => Ok None
        | Some _ => bind (pop_str config "python_version") (fun v => bind (parse_python_version v) (fun pv => Ok (Some pv)))
        end) (fun pv =>
  bind (match tget "format" config with
        | None => Ok None
        | Some _ => bind (pop_str config "format") (fun v => bind (validate_format v) (fun f => Ok (Some f)))
        end) (fun fm =>
  bind (match tget "sort_by" config with
        | None => Ok None
        | Some _ => bind (pop_str config "sort_by") (fun v => bind (validate_sort_by v) (fun f => Ok (Some f)))
        end) (fun sb =>
  bind (match tget "amend" config with
        | None => Ok []
        | Some (TList l) => bind (map_res parse_amendment l) (fun ls => Ok (List.concat ls))
        | Some _ => ValueErr "refurb: ""amend"" field(s) must be a TOML table"
        end) (fun am =>
  let unknown := filter (fun kv => negb (existsb (String.eqb (fst kv)) known_keys)) config in
  match unknown with
  | _ :: _ => ValueErr ("refurb: unknown field(s): " ++ concat_str ", " (map fst unknown))
  | [] =>
      Ok {| files := []; explain := None; ignore := union ig' am; load := map py_str load_;
            enable := diff en' di'; disable := di';
            debug := false; generate := false; help := false; version := false; quiet := quiet_;
            enable_all := ea; disable_all := da; config_file := None; python_version := pv;
            mypy_args := map py_str ma; format := fm; sort_by := sb; verbose := false; timing_stats := None;
            color := color_ |}
  end)))))))))))))))).

(* parse_config_file on the parsed document *)
Definition parse_cfg (doc : list (string * toml)) : res settings :=
  match tget "tool" doc with
  | None => Ok default_settings
  | Some tool =>
      if negb (truthy tool) then Ok default_settings
      else match tool with
           | TTable kvs =>
               match tget "refurb" kvs with
               | None => Ok default_settings
               | Some cfg =>
                   if negb (truthy cfg) then Ok default_settings
                   else match cfg with
                        | TTable c => parse_refurb_table c
                        | _ => ValueErr "refurb: ""tool.refurb"" must be a table"
                        end
               end
           | _ => ValueErr "refurb: ""tool"" must be a table"
           end
  end.
