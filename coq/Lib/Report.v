(* Report.v — the tail of run_refurb: the collected diagnostics are filtered one by one
   (should_ignore_error: noqa comments and per-path ignores look at the diagnostic alone) and then sorted
   by a total key order.  Keeping only the diagnostics of a selection of checks commutes with both
   steps, so "the report of a selection is the selection of the full report" lifts from the visitor
   runs (Lib/Run.v) to what refurb prints. *)
From Lib Require Import Base Sort.
Open Scope list_scope.

Section Report.
  Variable A : Type.
  Variable leb : A -> A -> bool.
  Hypothesis leb_total : forall a b, leb a b = true \/ leb b a = true.
  Hypothesis leb_trans : forall a b c, leb a b = true -> leb b c = true -> leb a c = true.

  Variable ignored : A -> bool.        (* should_ignore_error *)
  Variable keep : A -> bool.           (* the diagnostic belongs to a selected check *)

  Definition report (l : list A) : list A := isort leb (filter (fun e => negb (ignored e)) l).

  Lemma filter_insert x l : sorted A leb l ->
    filter keep (insert_sorted leb x l) = if keep x then insert_sorted leb x (filter keep l) else filter keep l.
  Proof.
    induction 1 as [|y l Hy Hs IH]; cbn [insert_sorted filter].
    - destruct (keep x); reflexivity.
    - destruct (leb x y) eqn:E; cbn [filter].
      + destruct (keep x) eqn:Kx; [|reflexivity].
        destruct (keep y) eqn:Ky; cbn [insert_sorted]; [now rewrite E|].
        (* y is dropped: x is still below everything that remains *)
        clear IH. induction l as [|z r IHr]; [reflexivity|]. cbn [filter].
        assert (Hxz : leb x z = true) by (eapply leb_trans; [exact E|apply Hy; now left]).
        destruct (keep z); cbn [insert_sorted]; [now rewrite Hxz|].
        apply IHr; [intros w Hw; apply Hy; now right|now inversion Hs].
      + rewrite IH. destruct (keep y) eqn:Ky, (keep x) eqn:Kx; cbn [insert_sorted]; try reflexivity. now rewrite E.
  Qed.

  Lemma filter_isort l : filter keep (isort leb l) = isort leb (filter keep l).
  Proof.
    induction l as [|x r IH]; [reflexivity|]. cbn [isort fold_right].
    change (fold_right (insert_sorted leb) [] r) with (isort leb r).
    rewrite filter_insert by (apply isort_sorted; assumption). rewrite IH. cbn [filter].
    destruct (keep x); reflexivity.
  Qed.

  Lemma filter_filter_comm (p q : A -> bool) l : filter p (filter q l) = filter q (filter p l).
  Proof. induction l as [|x r IH]; [reflexivity|]. cbn [filter]. destruct (q x) eqn:Q, (p x) eqn:P; cbn [filter]; rewrite ?Q, ?P, IH; reflexivity. Qed.

  (* what is printed for a selection is the selection of what is printed for everything *)
  Theorem selection_commutes_with_report l : report (filter keep l) = filter keep (report l).
  Proof. unfold report. rewrite filter_isort. f_equal. apply filter_filter_comm. Qed.
End Report.
