(* Signature.v — the plugin contract of refurb/loader.py extract_function_types and of
   RefurbVisitor.run_check: which check functions are accepted, for which node classes they are
   registered, and with how many arguments they are then called.  Hand-written; tied by C16's
   correspondence (synthesised functions through the real extract_function_types). *)
From Lib Require Import Base.
Open Scope list_scope.
Open Scope string_scope.
Local Notation length := List.length.

(* what an annotation can be, as far as the loader distinguishes *)
Inductive ann :=
| ACls (name : string)                 (* a class object, by name *)
| AUnion (items : list ann)            (* X | Y | ... (types.UnionType) *)
| AListError                           (* list[Error] *)
| ASettings                            (* the Settings class *)
| AOther (descr : string).             (* anything else: a string, None, list[str], typing.Union, missing *)

Record signature := { is_callable : bool; params : list (string * ann) }.

Inductive outcome :=
| Accept (classes : list string)
| Reject (reason : string).

Section Contract.
  Variable valid_nodes : list string.          (* the classes the visitor has a visit method for *)

  Definition valid_node (a : ann) : option string :=
    match a with ACls c => if memb String.eqb c valid_nodes then Some c else None | _ => None end.

  Fixpoint all_nodes (items : list ann) : option (list string) :=
    match items with
    | [] => Some []
    | a :: r => match valid_node a, all_nodes r with Some c, Some cs => Some (c :: cs) | _, _ => None end
    end.

  Definition valid_service (p : string * ann) : bool :=
    match snd p with ASettings => String.eqb (fst p) "settings" | _ => false end.

  Definition validate (s : signature) : outcome :=
    if negb (is_callable s) then Reject "not callable"
    else match params s with
         | (_, node) :: (_, errs) :: opt =>
             if negb (Nat.leb (length opt) 1) then Reject "2-3 parameters"
             else match errs with
                  | AListError =>
                      if negb (forallb valid_service opt) then Reject "service"
                      else match node with
                           | AUnion items => match all_nodes items with Some cs => Accept cs | None => Reject "node type" end
                           | _ => match valid_node node with Some c => Accept [c] | None => Reject "node type" end
                           end
                  | _ => Reject "error param"
                  end
         | _ => Reject "2-3 parameters"
         end.

  (* run_check: three arguments exactly when the function has three parameters *)
  Definition args_passed (s : signature) : nat := if Nat.eqb (length (params s)) 3 then 3%nat else 2%nat.

  Lemma all_nodes_valid items : forall cs, all_nodes items = Some cs -> forall c, In c cs -> In c valid_nodes.
  Proof.
    induction items as [|a r IH]; intros cs H c Hc; cbn [all_nodes] in H.
    - inversion H; subst. destruct Hc.
    - destruct (valid_node a) as [c0|] eqn:V; [|discriminate]. destruct (all_nodes r) as [cs0|]; [|discriminate].
      inversion H; subst. destruct Hc as [<-|Hc]; [|now apply (IH cs0)].
      unfold valid_node in V. destruct a; try discriminate. destruct (memb String.eqb name valid_nodes) eqn:M; [|discriminate].
      inversion V; subst. exact (proj1 (memb_In _ String.eqb String.eqb_eq _ _) M).
  Qed.

  (* an accepted check is registered only for classes the visitor can dispatch on, is a callable of two
     parameters or three with the third being `settings: Settings`, takes list[Error], and is then
     called with exactly as many arguments as it has parameters *)
  Theorem accepted_is_callable_as_registered s cs : validate s = Accept cs ->
    (forall c, In c cs -> In c valid_nodes) /\
    is_callable s = true /\
    (exists n e opt, params s = n :: e :: opt /\ snd e = AListError /\
                     (opt = [] \/ exists p, opt = [p] /\ fst p = "settings" /\ snd p = ASettings)) /\
    args_passed s = length (params s).
  Proof.
    destruct s as [c ps]. unfold validate, args_passed. cbn [is_callable params].
    destruct c; cbn [negb]; [|discriminate].
    destruct ps as [|[n0 node] [|[n1 errs] opt]]; try discriminate.
    destruct (Nat.leb (length opt) 1) eqn:L; cbn [negb]; [|discriminate].
    destruct errs; try discriminate. destruct (forallb valid_service opt) eqn:S; cbn [negb]; [|discriminate].
    intros H.
    assert (Hopt : opt = [] \/ exists p, opt = [p] /\ fst p = "settings" /\ snd p = ASettings).
    { destruct opt as [|p [|q r]]; [now left| |cbn in L; discriminate]. right. exists p. split; [reflexivity|].
      cbn [forallb] in S. rewrite andb_true_r in S. unfold valid_service in S. destruct (snd p); try discriminate.
      split; [now apply String.eqb_eq|reflexivity]. }
    assert (Hargs : (if Nat.eqb (length ((n0, node) :: (n1, AListError) :: opt)) 3 then 3%nat else 2%nat) = length ((n0, node) :: (n1, AListError) :: opt)).
    { destruct Hopt as [->|(p & -> & _)]; reflexivity. }
    assert (Hcs : forall c, In c cs -> In c valid_nodes).
    { destruct node as [c|items| | |d]; try discriminate.
      - cbn [valid_node] in H. destruct (memb String.eqb c valid_nodes) eqn:M; [|discriminate]. inversion H; subst.
        intros c' [<-|[]]. exact (proj1 (memb_In _ String.eqb String.eqb_eq _ _) M).
      - destruct (all_nodes items) as [cs0|] eqn:A; [|discriminate]. inversion H; subst. now apply (all_nodes_valid items). }
    repeat split; [exact Hcs| |exact Hargs].
    exists (n0, node), (n1, AListError), opt. auto.
  Qed.

  (* and nothing else is accepted: the characterisation in the other direction *)
  Theorem well_formed_is_accepted n0 n1 c opt :
    In c valid_nodes -> (opt = [] \/ opt = [("settings", ASettings)]) ->
    validate {| is_callable := true; params := (n0, ACls c) :: (n1, AListError) :: opt |} = Accept [c].
  Proof.
    intros Hc Hopt. unfold validate. cbn [is_callable params negb].
    assert (M : memb String.eqb c valid_nodes = true) by (apply (proj2 (memb_In _ String.eqb String.eqb_eq _ _)); exact Hc).
    destruct Hopt as [->| ->]; cbn; now rewrite M.
  Qed.
End Contract.
