(* Render.v — hand-written model of the three renderers (Error.__str__,
   format_as_github_annotation, format_with_color), format_errors and main()'s exit
   status; proofs of the report contract that hold for every message. Tied to the code by
   C13's correspondence check. *)
From Lib Require Import Base.
Open Scope list_scope.
Open Scope string_scope.
Local Notation length := List.length.

Record err := { e_file : string; e_line : N; e_col : N; e_prefix : string; e_code : N; e_msg : string }.
Inductive item := IErr (e : err) | IStr (s : string).     (* run_refurb yields Error objects and plain strings *)

Definition code_txt (e : err) : string := e_prefix e ++ N_to_dec (e_code e).

(* Error.__str__ *)
Definition plain (e : err) : string :=
  e_file e ++ ":" ++ N_to_dec (e_line e) ++ ":" ++ N_to_dec (e_col e + 1) ++ " [" ++ code_txt e ++ "]: " ++ e_msg e.

(* format_as_github_annotation, with the file name already made relative to the cwd *)
Definition github (rel_file : string) (e : err) : string :=
  "::error " ++ concat_str "," ["line=" ++ N_to_dec (e_line e); "col=" ++ N_to_dec (e_col e + 1);
                                "title=Refurb " ++ code_txt e; "file=" ++ rel_file ++ "::" ++ e_msg e].

Definition esc : ascii := ascii_of_N 27.
Definition sgr (n : string) : string := String esc ("[" ++ n ++ "m").
Definition blue := sgr "94". Definition yellow := sgr "33". Definition gray := sgr "90".
Definition green := sgr "92". Definition red := sgr "91". Definition reset := sgr "0".

Definition backtick : ascii := "`"%char.

Fixpoint split_char (c : ascii) (s : string) : list string :=
  match s with
  | EmptyString => [EmptyString]
  | String d r =>
      if Ascii.eqb c d then EmptyString :: split_char c r
      else match split_char c r with h :: t => String d h :: t | [] => [String d EmptyString] end
  end.

(* if error.msg.count("`") == 4: ERROR_DIFF_PATTERN.sub(...) *)
Definition color_msg (msg : string) : string :=
  match split_char backtick msg with
  | [p0; a; b; c; p4] =>
      p0 ++ gray ++ "`" ++ red ++ a ++ gray ++ "`" ++ reset ++ b ++ gray ++ "`" ++ green ++ c ++ gray ++ "`" ++ reset ++ p4
  | _ => msg
  end.

Definition color (e : err) : string :=
  blue ++ e_file e ++ reset ++ gray ++ ":" ++ N_to_dec (e_line e) ++ ":" ++ N_to_dec (e_col e + 1) ++ reset ++ " "
  ++ yellow ++ "[" ++ code_txt e ++ "]" ++ reset ++ gray ++ ":" ++ reset ++ " " ++ color_msg (e_msg e).

Inductive fmt := FPlain | FColor | FGithub.

Definition render (f : fmt) (rel : string -> string) (it : item) : string :=
  match it, f with
  | IStr s, FGithub => "::error title=Refurb Error::" ++ s
  | IStr s, _ => s
  | IErr e, FPlain => plain e
  | IErr e, FColor => color e
  | IErr e, FGithub => github (rel (e_file e)) e
  end.

Definition hint : string :=
  nl ++ nl ++ "Run `refurb --explain ERR` to further explain an error. Use `--quiet` to silence this message".

Definition is_err (it : item) : bool := match it with IErr _ => true | IStr _ => false end.

Definition format_errors (f : fmt) (rel : string -> string) (quiet : bool) (items : list item) : string :=
  concat_str nl (map (render f rel) items) ++ (if (negb quiet && existsb is_err items)%bool then hint else "").

Definition exit_status (items : list item) : nat := match items with [] => 0 | _ => 1 end.

(* ---- removing SGR escape sequences: ESC [ digits m ---- *)
Definition is_digit_a (c : ascii) : bool := let n := N_of_ascii c in N.leb 48 n && N.leb n 57.

Fixpoint drop_sgr_params (s : string) : option string :=     (* after "ESC[": digits then m *)
  match s with
  | EmptyString => None
  | String c r => if Ascii.eqb c "m"%char then Some r else if is_digit_a c then drop_sgr_params r else None
  end.

Fixpoint strip_ansi_fuel (fuel : nat) (s : string) : string :=
  match fuel with
  | O => s
  | S f =>
      match s with
      | EmptyString => EmptyString
      | String c r =>
          if Ascii.eqb c esc then
            match r with
            | String "["%char r' =>
                match drop_sgr_params r' with
                | Some rest => strip_ansi_fuel f rest
                | None => String c (strip_ansi_fuel f r)
                end
            | _ => String c (strip_ansi_fuel f r)
            end
          else String c (strip_ansi_fuel f r)
      end
  end.
Definition strip_ansi (s : string) : string := strip_ansi_fuel (String.length s) s.

Fixpoint no_esc (s : string) : bool :=
  match s with EmptyString => true | String c r => negb (Ascii.eqb c esc) && no_esc r end.

(* ---- lemmas ---- *)
Lemma str_length_app a b : String.length (a ++ b) = String.length a + String.length b.
Proof. induction a as [|c r IH]; simpl; [reflexivity|now rewrite IH]. Qed.

Lemma strip_fuel_enough : forall f g s, String.length s <= f -> String.length s <= g ->
  strip_ansi_fuel f s = strip_ansi_fuel g s.
Proof.
  assert (Hdrop : forall s r, drop_sgr_params s = Some r -> String.length r < String.length s).
  { induction s as [|c s IH]; simpl; intros r H; [discriminate|].
    destruct (Ascii.eqb c "m"); [inversion H; lia|]. destruct (is_digit_a c); [|discriminate].
    specialize (IH r H). lia. }
  induction f as [|f IH]; intros g s Hf Hg.
  - destruct s; simpl in Hf; [|lia]. destruct g; reflexivity.
  - destruct g as [|g]; [destruct s; simpl in Hg; [reflexivity|lia]|].
    destruct s as [|c r]; [reflexivity|]. simpl in Hf, Hg. cbn [strip_ansi_fuel].
    destruct (Ascii.eqb c esc).
    + destruct r as [|d r']; [f_equal; apply IH; simpl in *; lia|].
      destruct (Ascii.eqb_spec d "["%char) as [->|Hd].
      * destruct (drop_sgr_params r') as [rest|] eqn:E.
        -- apply Hdrop in E. apply IH; simpl in *; lia.
        -- f_equal. apply IH; simpl in *; lia.
      * assert (X : forall T (a b : T), match d with "["%char => a | _ => b end = b).
        { intros. destruct d as [[] [] [] [] [] [] [] []]; try reflexivity. exfalso. apply Hd. reflexivity. }
        rewrite !X. f_equal. apply IH; simpl in *; lia.
    + f_equal. apply IH; lia.
Qed.

Lemma strip_plain_prefix : forall s t, no_esc s = true -> strip_ansi (s ++ t) = s ++ strip_ansi t.
Proof.
  induction s as [|c r IH]; intros t H; [reflexivity|].
  simpl in H. apply andb_true_iff in H as [H1 H2]. apply negb_true_iff in H1.
  unfold strip_ansi at 1. simpl. rewrite H1. f_equal.
  transitivity (strip_ansi (r ++ t)); [|apply IH; exact H2].
  unfold strip_ansi. apply strip_fuel_enough; simpl; lia.
Qed.

Lemma drop_params n t : forallb is_digit_a (list_ascii_of_string n) = true -> drop_sgr_params ((n ++ "m") ++ t) = Some t.
Proof.
  induction n as [|c r IH]; simpl; intros H; [reflexivity|].
  apply andb_true_iff in H as [H1 H2]. rewrite H1.
  destruct (Ascii.eqb_spec c "m"%char) as [->|_]; [discriminate H1|]. now apply IH.
Qed.

Lemma strip_step_esc f r' :
  strip_ansi_fuel (S f) (String esc (String "["%char r')) =
  match drop_sgr_params r' with Some rest => strip_ansi_fuel f rest | None => String esc (strip_ansi_fuel f (String "["%char r')) end.
Proof. reflexivity. Qed.

Lemma strip_sgr n t : forallb is_digit_a (list_ascii_of_string n) = true -> strip_ansi (sgr n ++ t) = strip_ansi t.
Proof.
  intros H. unfold strip_ansi at 1. unfold sgr.
  change ((String esc ("[" ++ n ++ "m")) ++ t) with (String esc (String "["%char ((n ++ "m") ++ t))).
  change (String.length (String esc (String "["%char ((n ++ "m") ++ t)))) with (S (S (String.length ((n ++ "m") ++ t)))).
  rewrite strip_step_esc, (drop_params n t H).
  unfold strip_ansi. apply strip_fuel_enough; [|lia].
  rewrite !str_length_app. simpl. lia.
Qed.

Ltac strip_code := rewrite strip_sgr by reflexivity.
