(* Paths.v — hand-written model of refurb/main.py:is_ignored_via_amend on a file system
   without symbolic links: POSIX paths as component lists, pathlib's normalisation,
   Path.resolve() as lexical normalisation against the working directory,
   is_relative_to as a component prefix.  Tied by C12's correspondence check. *)
From Lib Require Import Base Select.
Open Scope list_scope.
Local Notation length := List.length.

Definition comp := string.
Definition slash : ascii := "/"%char.

Fixpoint split_slash (s : string) : list string :=
  match s with
  | EmptyString => [EmptyString]
  | String c r => if Ascii.eqb c slash then EmptyString :: split_slash r
                  else match split_slash r with h :: t => String c h :: t | [] => [String c EmptyString] end
  end.

Definition is_abs (s : string) : bool := match s with String c _ => Ascii.eqb c slash | EmptyString => false end.

(* PurePosixPath(s).parts without the root: empty and "." components are dropped *)
Definition parts (s : string) : list comp :=
  filter (fun c => negb (String.eqb c "" || String.eqb c ".")) (split_slash s).

(* lexical resolution of ".." (no symlinks): ".." at the root stays at the root *)
Fixpoint norm_rev (acc : list comp) (l : list comp) : list comp :=
  match l with
  | [] => acc
  | c :: r => if String.eqb c ".." then norm_rev (tl acc) r
              else if String.eqb c "." then norm_rev acc r else norm_rev (c :: acc) r
  end.
Definition norm (l : list comp) : list comp := rev (norm_rev [] l).

(* Path(s).resolve() with working directory cwd (absolute, normalised components) *)
Definition resolve (cwd : list comp) (s : string) : list comp :=
  norm (if is_abs s then parts s else cwd ++ parts s).

(* (a / b): an absolute b replaces a *)
Definition join_path (a b : string) : string := if is_abs b then b else (a ++ "/" ++ b)%string.

(* Path(s).parent as a string the model can resolve: drop the last component *)
Definition parent_of (s : string) : string :=
  let ps := parts s in
  let body := concat_str "/" (removelast ps) in
  if is_abs s then ("/" ++ body)%string else (if String.eqb body "" then "." else body).

Fixpoint is_prefix (p l : list comp) : bool :=
  match p, l with
  | [], _ => true
  | a :: p', b :: l' => String.eqb a b && is_prefix p' l'
  | _ :: _, [] => false
  end.

(* an ignore entry of the settings: classifier, with the path it is scoped to *)
Definition entry_path (c : cls) : option string := match c with Code _ _ p => p | Cat _ p => p end.

Definition entry_matches (c : cls) (prefix : string) (id : N) (cats : list string) : bool :=
  match c with
  | Code p n _ => String.eqb p prefix && N.eqb n id
  | Cat name _ => existsb (String.eqb name) cats
  end.

Definition ignored_via_amend (cwd : list comp) (config_file : option string) (ignores : list cls)
    (filename : string) (prefix : string) (id : N) (cats : list string) : bool :=
  let root := match config_file with Some f => parent_of f | None => "." end in
  let path := resolve cwd filename in
  existsb (fun c => match entry_path c with
                    | Some p => is_prefix (resolve cwd (join_path root p)) path && entry_matches c prefix id cats
                    | None => false
                    end) ignores.

(* ---- theorems ---- *)
Lemma is_prefix_app p l : is_prefix p (p ++ l) = true.
Proof. induction p as [|a r IH]; simpl; [reflexivity|]. now rewrite String.eqb_refl, IH. Qed.

Lemma is_prefix_spec p l : is_prefix p l = true <-> exists s, l = p ++ s.
Proof.
  revert l. induction p as [|a r IH]; intros l; simpl.
  - split; [intros _; now exists l|reflexivity].
  - destruct l as [|b l']; [split; [discriminate|intros (s & H); discriminate]|].
    rewrite andb_true_iff, String.eqb_eq, IH. split.
    + intros [-> (s & ->)]. now exists s.
    + intros (s & H). inversion H; subst. split; [reflexivity|now exists s].
Qed.

(* by path components, not by string prefix: "src" does not cover "src2/..." *)
Theorem sibling_with_common_prefix_not_covered : forall (base : list comp) (d s f : string) (rest : list comp),
  s <> ""%string -> is_prefix (base ++ [d]) (base ++ (d ++ s)%string :: f :: rest) = false.
Proof.
  intros base d s f rest Hs. induction base as [|a r IH]; simpl.
  - assert (E : String.eqb d (d ++ s) = false).
    { apply String.eqb_neq. intros H. apply Hs. clear Hs. induction d as [|c d IHd]; simpl in H.
      - now subst.
      - inversion H. auto. }
    now rewrite E.
  - now rewrite String.eqb_refl, IH.
Qed.

(* every file at or below the entry is covered, nothing else *)
Theorem covered_iff_below : forall (entry file : list comp),
  is_prefix entry file = true <-> exists rest, file = entry ++ rest.
Proof. exact is_prefix_spec. Qed.

(* "." segments and "x/.." detours in a path do not change where it points *)
Lemma norm_rev_app acc a b : norm_rev acc (a ++ b) = norm_rev (norm_rev acc a) b.
Proof. revert acc. induction a as [|c r IH]; intros acc; simpl; [reflexivity|]. destruct (String.eqb c ".."); [apply IH|]. destruct (String.eqb c "."); apply IH. Qed.

Theorem dot_segment_invariance : forall a b, norm (a ++ ["."%string] ++ b) = norm (a ++ b).
Proof. intros a b. unfold norm. now rewrite !norm_rev_app. Qed.

Theorem dotdot_detour_invariance : forall a x b, String.eqb x ".." = false -> String.eqb x "." = false ->
  norm (a ++ [x; ".."%string] ++ b) = norm (a ++ b).
Proof.
  intros a x b H1 H2. unfold norm. rewrite !norm_rev_app. simpl. now rewrite H1, H2.
Qed.

(* entries for other codes, and entries without a path, never silence a diagnostic here *)
Theorem other_codes_untouched : forall cwd cf ignores filename prefix id cats,
  forallb (fun c => negb (entry_matches c prefix id cats)) ignores = true ->
  ignored_via_amend cwd cf ignores filename prefix id cats = false.
Proof.
  intros cwd cf ignores filename prefix id cats H. unfold ignored_via_amend.
  induction ignores as [|c r IH]; [reflexivity|]. simpl in *. apply andb_true_iff in H as [H1 H2].
  rewrite (IH H2), orb_false_r. destruct (entry_path c); [|reflexivity].
  apply negb_true_iff in H1. now rewrite H1, andb_false_r.
Qed.

(* with absolute config-file and file names the working directory is irrelevant *)
Theorem cwd_irrelevant_for_absolute_paths : forall cwd1 cwd2 cf ignores filename prefix id cats,
  is_abs cf = true -> is_abs filename = true ->
  ignored_via_amend cwd1 (Some cf) ignores filename prefix id cats
  = ignored_via_amend cwd2 (Some cf) ignores filename prefix id cats.
Proof.
  intros cwd1 cwd2 cf ignores filename prefix id cats H1 H2. unfold ignored_via_amend.
  assert (Hroot : is_abs (parent_of cf) = true) by (unfold parent_of; rewrite H1; reflexivity).
  assert (Hf : resolve cwd1 filename = resolve cwd2 filename) by (unfold resolve; now rewrite H2).
  rewrite Hf. clear Hf.
  assert (Hj : forall p, is_abs (join_path (parent_of cf) p) = true).
  { intros p. unfold join_path. destruct (is_abs p) eqn:E; [exact E|].
    destruct (parent_of cf) as [|c r]; [discriminate|]. exact Hroot. }
  induction ignores as [|c r IH]; [reflexivity|]. simpl. rewrite IH. f_equal.
  destruct (entry_path c) as [p|]; [|reflexivity]. unfold resolve. now rewrite (Hj p).
Qed.
