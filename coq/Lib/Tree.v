(* Tree.v — generic syntax trees, schedule-driven traversal, and the theorem that a
   traversal whose per-kind schedule is a permutation of the kind's child fields
   visits every node of every tree exactly once (any depth, any width). *)
From Lib Require Import Base.
Open Scope list_scope.
Local Notation length := List.length.
Local Notation nth := List.nth.

(* A node has a kind and, per child field, the list of children in that field
   (a mandatory child = singleton, an absent optional child = empty list). *)
Inductive node := Node (k : nat) (fs : list (list node)).

Definition kind (n : node) : nat := match n with Node k _ => k end.
Definition fields (n : node) : list (list node) := match n with Node _ fs => fs end.

Definition step := (nat * nat)%type.       (* (field index, position inside the field) *)
Definition path := list step.

Lemma flat_map_ext_in {A B} (f g : A -> list B) l :
  (forall a, In a l -> f a = g a) -> flat_map f l = flat_map g l.
Proof.
  induction l as [|x r IH]; intros H; simpl; [reflexivity|].
  rewrite H by now left. f_equal. apply IH. intros a Ha. apply H. now right.
Qed.

Lemma Permutation_flat_map_ext_in {A B} (f g : A -> list B) l :
  (forall a, In a l -> Permutation (f a) (g a)) -> Permutation (flat_map f l) (flat_map g l).
Proof.
  induction l as [|x r IH]; intros H; simpl; [constructor|].
  apply Permutation_app; [apply H; now left|]. apply IH. intros a Ha. apply H. now right.
Qed.

Lemma Permutation_flat_map_l {A B} (g : A -> list B) l1 l2 :
  Permutation l1 l2 -> Permutation (flat_map g l1) (flat_map g l2).
Proof. intros H. now apply Permutation_flat_map. Qed.

Section FlatMapI.
  Context {A B : Type}.
  Definition flat_mapi (f : nat -> A -> list B) (l : list A) : list B :=
    (fix go (i : nat) (l : list A) : list B :=
       match l with [] => [] | x :: r => f i x ++ go (S i) r end) 0 l.

  Fixpoint flat_mapi_from (f : nat -> A -> list B) (i : nat) (l : list A) : list B :=
    match l with [] => [] | x :: r => f i x ++ flat_mapi_from f (S i) r end.

  Lemma flat_mapi_eq f l : flat_mapi f l = flat_mapi_from f 0 l.
  Proof.
    unfold flat_mapi. generalize 0. induction l as [|x r IH]; intros i; simpl; [reflexivity|].
    now rewrite IH.
  Qed.

  Lemma flat_mapi_from_seq f d l i :
    flat_mapi_from f i l = flat_map (fun j => f j (nth (j - i) l d)) (seq i (length l)).
  Proof.
    revert i. induction l as [|x r IH]; intros i; simpl; [reflexivity|].
    rewrite Nat.sub_diag. f_equal. rewrite IH.
    apply flat_map_ext_in. intros j Hj. apply in_seq in Hj.
    replace (j - i) with (S (j - S i)) by lia. reflexivity.
  Qed.

  Lemma flat_mapi_from_perm f g i l :
    (forall j x, In x l -> Permutation (f j x) (g j x)) ->
    Permutation (flat_mapi_from f i l) (flat_mapi_from g i l).
  Proof.
    revert i. induction l as [|x r IH]; intros i H; simpl; [constructor|].
    apply Permutation_app; [apply H; now left|]. apply IH. intros j y Hy. apply H. now right.
  Qed.

  Lemma in_flat_mapi_from f i l y :
    In y (flat_mapi_from f i l) <-> exists j x, nth_error l j = Some x /\ In y (f (i + j) x).
  Proof.
    revert i. induction l as [|x r IH]; intros i; simpl.
    - split; [tauto|]. intros (j & x & H & _). destruct j; discriminate.
    - rewrite in_app_iff, IH. split.
      + intros [H|(j & z & H1 & H2)].
        * exists 0, x. rewrite Nat.add_0_r. auto.
        * exists (S j), z. split; [exact H1|]. now replace (i + S j) with (S i + j) by lia.
      + intros (j & z & H1 & H2). destruct j as [|j]; simpl in H1.
        * inversion H1; subst. rewrite Nat.add_0_r in H2. auto.
        * right. exists j, z. split; [exact H1|]. now replace (S i + j) with (i + S j) by lia.
  Qed.
End FlatMapI.

(* ---- the tree's own enumeration of its nodes: structural, schedule-free ---- *)
Fixpoint nodes (p : path) (n : node) : list (nat * path) :=
  match n with
  | Node k fs =>
      (k, p) :: flat_mapi (fun sel f => flat_mapi (fun i c => nodes (p ++ [(sel, i)]) c) f) fs
  end.

Fixpoint depth (n : node) : nat :=
  match n with
  | Node _ fs => S (list_max (map (fun f => list_max (map depth f)) fs))
  end.

Lemma depth_child k fs f c : In f fs -> In c f -> depth c < depth (Node k fs).
Proof.
  intros Hf Hc. simpl. apply Nat.lt_succ_r.
  assert (H1 : depth c <= list_max (map depth f)).
  { pose proof (proj1 (list_max_le (map depth f) _) (Nat.le_refl _)) as H.
    rewrite Forall_forall in H. apply H. now apply in_map. }
  assert (H2 : list_max (map depth f) <= list_max (map (fun f => list_max (map depth f)) fs)).
  { pose proof (proj1 (list_max_le (map (fun f => list_max (map depth f)) fs) _) (Nat.le_refl _)) as H.
    rewrite Forall_forall in H. apply H. now apply (in_map (fun f => list_max (map depth f))). }
  lia.
Qed.

(* ---- schedule-driven traversal (what the visitor does), on explicit fuel ---- *)
Definition schedule := nat -> list nat.

Inductive err := OutOfFuel | NoOverload (k : nat).   (* NoOverload = accept() raises NotImplementedError *)
Definition res := (err + list (nat * path))%type.

Fixpoint first_err (l : list res) : option err :=
  match l with [] => None | inl e :: _ => Some e | inr _ :: r => first_err r end.
Definition oks (l : list res) : list (nat * path) :=
  flat_map (fun o => match o with inr l => l | inl _ => [] end) l.

Fixpoint visit (fuel : nat) (reg : nat -> bool) (s : schedule) (p : path) (n : node) : res :=
  match fuel with
  | O => inl OutOfFuel
  | S fu =>
      match n with
      | Node k fs =>
          if reg k then
            let sub :=
              flat_map (fun sel => map (fun ic => visit fu reg s (p ++ [(sel, fst ic)]) (snd ic))
                                 (combine (seq 0 (length (nth sel fs []))) (nth sel fs [])))
                  (s k) in
            match first_err sub with
            | Some e => inl e
            | None => inr ((k, p) :: oks sub)
            end
          else inl (NoOverload k)
      end
  end.

(* the same traversal, total, used for the proofs; related to [visit] below *)
Fixpoint visitT (fuel : nat) (s : schedule) (p : path) (n : node) : list (nat * path) :=
  match fuel with
  | O => []
  | S fu =>
      match n with
      | Node k fs =>
          (k, p) :: flat_map (fun sel => flat_mapi_from (fun i c => visitT fu s (p ++ [(sel, i)]) c) 0
                                                       (nth sel fs [])) (s k)
      end
  end.

Lemma combine_seq_flat {B} (g : nat -> node -> list B) i l :
  flat_map (fun ic => g (fst ic) (snd ic)) (combine (seq i (length l)) l) = flat_mapi_from g i l.
Proof.
  revert i. induction l as [|x r IH]; intros i; simpl; [reflexivity|]. now rewrite IH.
Qed.

(* a predicate holding at every node of a tree (structural) *)
Definition Forall_nodes (P : nat -> list (list node) -> Prop) : node -> Prop :=
  fix ok (n : node) : Prop :=
    match n with
    | Node k fs => P k fs /\
        (fix all (l : list (list node)) : Prop :=
           match l with [] => True | f :: r =>
             (fix allf (l : list node) : Prop := match l with [] => True | c :: r => ok c /\ allf r end) f
             /\ all r end) fs
    end.

Lemma Forall_nodes_here P k fs : Forall_nodes P (Node k fs) -> P k fs.
Proof. intros [H _]. exact H. Qed.

Lemma Forall_nodes_child P k fs f c : Forall_nodes P (Node k fs) -> In f fs -> In c f -> Forall_nodes P c.
Proof.
  intros [_ H] Hf Hc. induction fs as [|g r IH]; [destruct Hf|].
  destruct H as [Hg Hr]. destruct Hf as [->|Hf]; [|now apply IH].
  clear IH Hr. induction f as [|d q IH]; [destruct Hc|].
  destruct Hg as [Hd Hq]. destruct Hc as [->|Hc]; [exact Hd|now apply IH].
Qed.

Definition all_registered (reg : nat -> bool) := Forall_nodes (fun k _ => reg k = true).

Lemma first_err_none l : (forall o, In o l -> exists v, o = inr v) -> first_err l = None.
Proof.
  induction l as [|o r IH]; intros H; simpl; [reflexivity|].
  destruct (H o (or_introl eq_refl)) as (v & ->). apply IH. intros o' Ho'. apply H. now right.
Qed.

Lemma oks_app a b : oks (a ++ b) = oks a ++ oks b.
Proof. unfold oks. induction a as [|x a IH]; simpl; [reflexivity|]. now rewrite IH, app_assoc. Qed.

Lemma oks_flat_map {A} (F : A -> list res) l : oks (flat_map F l) = flat_map (fun x => oks (F x)) l.
Proof. induction l as [|x r IH]; simpl; [reflexivity|]. now rewrite oks_app, IH. Qed.

Lemma oks_map_inr {A} (g : A -> list (nat * path)) l : oks (map (fun x => inr (g x)) l) = flat_map g l.
Proof. unfold oks. induction l as [|x r IH]; simpl; [reflexivity|]. now rewrite IH. Qed.

Lemma visit_visitT reg s : forall fuel p n, all_registered reg n -> depth n <= fuel ->
  visit fuel reg s p n = inr (visitT fuel s p n).
Proof.
  induction fuel as [|fu IH]; intros p [k fs] Hreg Hd; [simpl in Hd; lia|].
  cbn [visit visitT]. rewrite (Forall_nodes_here _ _ _ Hreg).
  assert (Hsub :
     flat_map (fun sel => map (fun ic => visit fu reg s (p ++ [(sel, fst ic)]) (snd ic))
                              (combine (seq 0 (length (nth sel fs []))) (nth sel fs []))) (s k)
     = flat_map (fun sel => map (fun ic => inr (visitT fu s (p ++ [(sel, fst ic)]) (snd ic)))
                              (combine (seq 0 (length (nth sel fs []))) (nth sel fs []))) (s k)).
  { apply flat_map_ext. intros sel. apply map_ext_in. intros [i c] Hic. simpl.
    apply in_combine_r in Hic.
    destruct (Nat.lt_ge_cases sel (length fs)) as [Hlt|Hge].
    - apply IH.
      + eapply Forall_nodes_child; [exact Hreg|apply nth_In; exact Hlt|exact Hic].
      + pose proof (depth_child k fs (nth sel fs []) c (nth_In _ _ Hlt) Hic). lia.
    - rewrite nth_overflow in Hic by exact Hge. destruct Hic. }
  rewrite Hsub. rewrite first_err_none.
  - f_equal. f_equal. rewrite oks_flat_map. apply flat_map_ext. intros sel.
    rewrite oks_map_inr.
    apply (combine_seq_flat (fun i c => visitT fu s (p ++ [(sel, i)]) c)).
  - intros o Ho. apply in_flat_map in Ho as (sel & _ & Ho). apply in_map_iff in Ho as (ic & <- & _).
    eexists. reflexivity.
Qed.

Lemma visit_unregistered reg s p k : reg k = false -> forall fuel, visit (S fuel) reg s p (Node k []) = inl (NoOverload k).
Proof. intros H fuel. simpl. now rewrite H. Qed.

(* ---- main theorem: permutation schedules enumerate exactly the tree's nodes ---- *)
Definition arity_ok (arity : nat -> nat) := Forall_nodes (fun k fs => length fs = arity k).

Lemma arity_ok_child arity k fs f c : arity_ok arity (Node k fs) -> In f fs -> In c f -> arity_ok arity c.
Proof. apply Forall_nodes_child. Qed.

Theorem visit_perm_nodes (arity : nat -> nat) (s : schedule) :
  (forall k, Permutation (s k) (seq 0 (arity k))) ->
  forall fuel p n, arity_ok arity n -> depth n <= fuel ->
    Permutation (visitT fuel s p n) (nodes p n).
Proof.
  intros Hs. induction fuel as [|fu IH]; intros p [k fs] Hok Hd; [simpl in Hd; lia|].
  cbn [visitT nodes]. constructor.
  rewrite flat_mapi_eq.
  rewrite (flat_mapi_from_seq _ [] fs 0).
  pose proof (Forall_nodes_here _ _ _ Hok) as Hlen. simpl in Hlen. rewrite Hlen.
  etransitivity.
  { apply Permutation_flat_map_l. apply Hs. }
  apply Permutation_flat_map_ext_in. intros sel Hsel. apply in_seq in Hsel.
  rewrite Nat.sub_0_r, flat_mapi_eq.
  apply flat_mapi_from_perm. intros i c Hc.
  assert (Hf : In (nth sel fs []) fs) by (apply nth_In; lia).
  apply IH.
  - eapply arity_ok_child; [exact Hok| exact Hf | exact Hc].
  - pose proof (depth_child k fs _ c Hf Hc). lia.
Qed.

(* ---- positions are distinct: every path of [nodes p n] extends p, children differ ---- *)
Lemma nodes_prefix : forall d n p kq, depth n <= d -> In kq (nodes p n) -> exists q, snd kq = p ++ q.
Proof.
  induction d as [|d IH]; intros [k fs] p kq Hd Hin; [simpl in Hd; lia|].
  cbn [nodes] in Hin. destruct Hin as [<-|Hin]; [exists []; now rewrite app_nil_r|].
  rewrite flat_mapi_eq in Hin. apply in_flat_mapi_from in Hin as (sel & f & Hf & Hin).
  rewrite flat_mapi_eq in Hin. apply in_flat_mapi_from in Hin as (i & c & Hc & Hin).
  apply nth_error_In in Hf, Hc.
  pose proof (depth_child k fs f c Hf Hc) as Hlt.
  apply IH in Hin as (q & Hq); [|lia].
  exists ((0 + sel, 0 + i) :: q). rewrite Hq, <- app_assoc. reflexivity.
Qed.


Lemma NoDup_app {A} (l1 l2 : list A) :
  NoDup l1 -> NoDup l2 -> (forall x, In x l1 -> In x l2 -> False) -> NoDup (l1 ++ l2).
Proof.
  induction l1 as [|a l1 IH]; simpl; intros H1 H2 H; [exact H2|].
  inversion H1; subst. constructor.
  - rewrite in_app_iff. intros [Hin|Hin]; [contradiction|]. eapply H; [left; reflexivity|exact Hin].
  - apply IH; auto. intros x Hx1 Hx2. eapply H; [right; exact Hx1|exact Hx2].
Qed.

Lemma NoDup_flat_mapi_from {A B} (f : nat -> A -> list B) i l :
  (forall j x, nth_error l j = Some x -> NoDup (f (i + j) x)) ->
  (forall j1 j2 x1 x2 y, j1 <> j2 -> nth_error l j1 = Some x1 -> nth_error l j2 = Some x2 ->
      In y (f (i + j1) x1) -> In y (f (i + j2) x2) -> False) ->
  NoDup (flat_mapi_from f i l).
Proof.
  revert i. induction l as [|x r IH]; intros i H1 H2; simpl; [constructor|].
  apply NoDup_app.
  - specialize (H1 0 x eq_refl). now rewrite Nat.add_0_r in H1.
  - apply IH.
    + intros j y Hy. specialize (H1 (S j) y Hy). now replace (S i + j) with (i + S j) by lia.
    + intros j1 j2 x1 x2 y Hne Hx1 Hx2 Hy1 Hy2.
      apply (H2 (S j1) (S j2) x1 x2 y); auto;
        [now replace (i + S j1) with (S i + j1) by lia|now replace (i + S j2) with (S i + j2) by lia].
  - intros y Hy1 Hy2. apply in_flat_mapi_from in Hy2 as (j & z & Hz & Hy2).
    apply (H2 0 (S j) x z y); auto; [now rewrite Nat.add_0_r|now replace (i + S j) with (S i + j) by lia].
Qed.

Lemma app_inj_head {A} (p a b : list A) : p ++ a = p ++ b -> a = b.
Proof. apply app_inv_head. Qed.

Theorem nodes_paths_NoDup : forall d n p, depth n <= d -> NoDup (map snd (nodes p n)).
Proof.
  induction d as [|d IH]; intros [k fs] p Hd; [simpl in Hd; lia|].
  cbn [nodes map]. constructor.
  - (* p itself is not the position of a descendant *)
    intros Hin. apply in_map_iff in Hin as (kq & Heq & Hin).
    rewrite flat_mapi_eq in Hin. apply in_flat_mapi_from in Hin as (sel & f & Hf & Hin).
    rewrite flat_mapi_eq in Hin. apply in_flat_mapi_from in Hin as (i & c & Hc & Hin).
    apply nth_error_In in Hf, Hc. pose proof (depth_child k fs f c Hf Hc) as Hlt.
    apply (nodes_prefix d) in Hin as (q & Hq); [|lia].
    rewrite Heq in Hq. rewrite <- app_assoc in Hq.
    rewrite <- (app_nil_r p) in Hq at 1. apply app_inv_head in Hq. discriminate.
  - rewrite flat_mapi_eq.
    assert (Hmap : forall (g : nat -> list node -> list (nat * path)) i l,
               map snd (flat_mapi_from g i l) = flat_mapi_from (fun j x => map snd (g j x)) i l).
    { intros g i l. revert i. induction l as [|x r IHl]; intros i; simpl; [reflexivity|].
      now rewrite map_app, IHl. }
    rewrite Hmap. apply NoDup_flat_mapi_from.
    + intros sel f Hf. rewrite flat_mapi_eq.
      assert (Hmap2 : forall (g : nat -> node -> list (nat * path)) i l,
               map snd (flat_mapi_from g i l) = flat_mapi_from (fun j x => map snd (g j x)) i l).
      { intros g i l. revert i. induction l as [|x r IHl]; intros i; simpl; [reflexivity|].
        now rewrite map_app, IHl. }
      rewrite Hmap2. apply NoDup_flat_mapi_from.
      * intros i c Hc. apply IH. apply nth_error_In in Hf, Hc.
        pose proof (depth_child k fs f c Hf Hc). lia.
      * intros i1 i2 c1 c2 y Hne Hc1 Hc2 Hy1 Hy2.
        apply in_map_iff in Hy1 as (kq1 & E1 & Hy1). apply in_map_iff in Hy2 as (kq2 & E2 & Hy2).
        apply nth_error_In in Hf. apply nth_error_In in Hc1, Hc2.
        pose proof (depth_child k fs f c1 Hf Hc1). pose proof (depth_child k fs f c2 Hf Hc2).
        apply (nodes_prefix d) in Hy1 as (q1 & Hq1); [|lia].
        apply (nodes_prefix d) in Hy2 as (q2 & Hq2); [|lia].
        rewrite E1 in Hq1. rewrite E2 in Hq2. rewrite Hq1 in Hq2.
        rewrite <- !app_assoc in Hq2. apply app_inv_head in Hq2. simpl in Hq2.
        inversion Hq2. lia.
    + intros s1 s2 f1 f2 y Hne Hf1 Hf2 Hy1 Hy2.
      apply in_map_iff in Hy1 as (kq1 & E1 & Hy1). apply in_map_iff in Hy2 as (kq2 & E2 & Hy2).
      rewrite flat_mapi_eq in Hy1, Hy2.
      apply in_flat_mapi_from in Hy1 as (i1 & c1 & Hc1 & Hy1).
      apply in_flat_mapi_from in Hy2 as (i2 & c2 & Hc2 & Hy2).
      apply nth_error_In in Hf1, Hf2, Hc1, Hc2.
      pose proof (depth_child k fs f1 c1 Hf1 Hc1). pose proof (depth_child k fs f2 c2 Hf2 Hc2).
      apply (nodes_prefix d) in Hy1 as (q1 & Hq1); [|lia].
      apply (nodes_prefix d) in Hy2 as (q2 & Hq2); [|lia].
      rewrite E1 in Hq1. rewrite E2 in Hq2. rewrite Hq1 in Hq2.
      rewrite <- !app_assoc in Hq2. apply app_inv_head in Hq2. simpl in Hq2.
      inversion Hq2. lia.
Qed.

(* ---- checks: each subscribed check is called exactly once per node of its kind ---- *)
Section Checks.
  Variable check : Type.
  Variable check_eqb : check -> check -> bool.
  Hypothesis check_eqb_spec : forall a b, check_eqb a b = true <-> a = b.
  Variable subs : nat -> list check.          (* kind -> checks run on nodes of that kind *)

  Definition calls (visited : list (nat * path)) : list (check * path) :=
    flat_map (fun kq => map (fun c => (c, snd kq)) (subs (fst kq))) visited.

  Lemma calls_perm v1 v2 : Permutation v1 v2 -> Permutation (calls v1) (calls v2).
  Proof. apply Permutation_flat_map_l. Qed.
End Checks.

(* ---- the statement used by the properties: one traversal = every node, once ---- *)
Theorem traversal_exactly_once (arity : nat -> nat) (reg : nat -> bool) (s : schedule) :
  (forall k, Permutation (s k) (seq 0 (arity k))) ->
  forall n, arity_ok arity n -> all_registered reg n ->
    exists l, visit (depth n) reg s [] n = inr l
              /\ Permutation l (nodes [] n) /\ NoDup (map snd l).
Proof.
  intros Hs n Hok Hreg. exists (visitT (depth n) s [] n).
  split; [apply visit_visitT; auto|].
  pose proof (visit_perm_nodes arity s Hs (depth n) [] n Hok (Nat.le_refl _)) as HP.
  split; [exact HP|].
  eapply Permutation_NoDup; [apply Permutation_map; symmetry; exact HP|].
  apply (nodes_paths_NoDup (depth n)). lia.
Qed.

(* ---- boolean permutation test on nat lists (sort both, compare) ---- *)
Definition perm_natb (a b : list nat) : bool :=
  list_eqb Nat.eqb (isort Nat.leb a) (isort Nat.leb b).

Lemma perm_natb_sound a b : perm_natb a b = true -> Permutation a b.
Proof.
  unfold perm_natb. intros H. apply (list_eqb_spec Nat.eqb Nat.eqb_eq) in H.
  etransitivity; [apply (isort_perm _ Nat.leb)|]. rewrite H. symmetry. apply isort_perm.
Qed.

(* table-driven schedules: kind k -> nth k table *)
Definition tbl_sched (t : list (list nat)) : schedule := fun k => nth k t [].
Definition tbl_arity (t : list nat) : nat -> nat := fun k => nth k t 0.
Definition tbl_reg (t : list bool) : nat -> bool := fun k => nth k t false.

Lemma tbl_perm (st : list (list nat)) (at_ : list nat) :
  length st = length at_ ->
  forallb (fun k => perm_natb (tbl_sched st k) (seq 0 (tbl_arity at_ k))) (seq 0 (length st)) = true ->
  forall k, Permutation (tbl_sched st k) (seq 0 (tbl_arity at_ k)).
Proof.
  intros Hlen H k. destruct (Nat.lt_ge_cases k (length st)) as [Hlt|Hge].
  - apply perm_natb_sound. rewrite forallb_forall in H. apply H. apply in_seq. lia.
  - unfold tbl_sched, tbl_arity. rewrite !nth_overflow by lia. constructor.
Qed.

Lemma Forall_nodes_impl (P Q : nat -> list (list node) -> Prop) :
  (forall k fs, P k fs -> Q k fs) -> forall d n, depth n <= d -> Forall_nodes P n -> Forall_nodes Q n.
Proof.
  intros HPQ. induction d as [|d IH]; intros [k fs] Hd H; [simpl in Hd; lia|].
  split; [apply HPQ; exact (Forall_nodes_here _ _ _ H)|].
  assert (Hch : forall f c, In f fs -> In c f -> Forall_nodes Q c).
  { intros f c Hf Hc. apply IH.
    - pose proof (depth_child k fs f c Hf Hc). lia.
    - eapply Forall_nodes_child; eauto. }
  clear H Hd. induction fs as [|f r IHr]; [exact I|]. split.
  - assert (Hf : forall c, In c f -> Forall_nodes Q c) by (intros c Hc; apply (Hch f c); [now left|exact Hc]).
    clear Hch IHr. induction f as [|c q IHq]; [exact I|]. split; [apply Hf; now left|].
    apply IHq. intros c' Hc'. apply Hf. now right.
  - apply IHr. intros f' c Hf' Hc. apply (Hch f' c); [now right|exact Hc].
Qed.

(* kinds of a tree all lie below a bound (the size of the kind table) *)
Definition kinds_below (b : nat) := Forall_nodes (fun k _ => k < b).

Theorem traverse_total (arity : nat -> nat) (reg : nat -> bool) (s : schedule) (b : nat) :
  (forall k, k < b -> reg k = true) ->
  forall n, kinds_below b n -> exists l, visit (depth n) reg s [] n = inr l.
Proof.
  intros Hreg n Hk. exists (visitT (depth n) s [] n). apply visit_visitT; [|lia].
  apply (Forall_nodes_impl (fun k _ => k < b) (fun k _ => reg k = true)) with (d := depth n); auto.
Qed.
