(* Stringify.v — hand-written executable model of refurb/checks/common.py:
   stringify, _stringify, get_fstring_parts (expression part).  Tied to the code by
   the correspondence check of C02 (real stringify on real mypy nodes). *)
From Lib Require Import Base PyAst Equiv.
Open Scope string_scope.

(* ---- Python's repr() of a str, for code points; non-ASCII is assumed printable
   (the harness only feeds printable non-ASCII to the correspondence) ---- *)
Definition cp_quote1 : N := 39%N.   (* single quote *)
Definition cp_quote2 : N := 34%N.   (* double quote *)

Definition hex2 (c : N) : string := pad_left "0" 2 (N_to_hex c).

Definition repr_char (quote : N) (c : N) : list N :=
  let lit (s : string) := map N_of_ascii (list_ascii_of_string s) in
  if N.eqb c 92 then [92; 92]%N
  else if N.eqb c quote then [92%N; c]
  else if N.eqb c 10 then lit "\n"
  else if N.eqb c 13 then lit "\r"
  else if N.eqb c 9 then lit "\t"
  else if (N.ltb c 32 || N.eqb c 127)%bool then lit ("\x" ++ hex2 c)
  else [c].

Definition has_cp (c : N) (l : list N) : bool := existsb (N.eqb c) l.

(* repr uses single quotes unless the string contains a single and no double quote *)
Definition repr_quote (s : list N) : N :=
  if (has_cp cp_quote1 s && negb (has_cp cp_quote2 s))%bool then cp_quote2 else cp_quote1.

Definition repr_body (s : list N) : list N := flat_map (repr_char (repr_quote s)) s.

(* value = repr(value)[1:-1] with every double quote backslash-escaped *)
Definition str_body (s : list N) : list N :=
  flat_map (fun c => if N.eqb c cp_quote2 then [92; 34]%N else [c]) (repr_body s).

Definition render_str (s : list N) : string := """" ++ utf8 (str_body s) ++ """".

(* BytesExpr: the raw text with double quotes escaped, inside b-quotes *)
Definition render_bytes (raw : string) : string :=
  "b""" ++ str_replace_char """"%char "\""" raw ++ """".

(* ---- get_fstring_parts ---- *)
Inductive fpart := FLit (s : list N) | FFmt (arg : expr) (suffix : list N).

(* FSTRING_FIELD_TEMPLATES: the .format() template of a field -> its conversion flag *)
Definition field_template (t : list N) : option (list N) :=
  if list_eqb N.eqb t [123; 58; 123; 125; 125]%N then Some []                      (* {:{}}   *)
  else if list_eqb N.eqb t [123; 33; 114; 58; 123; 125; 125]%N then Some [33; 114]%N   (* {!r:{}} *)
  else if list_eqb N.eqb t [123; 33; 115; 58; 123; 125; 125]%N then Some [33; 115]%N   (* {!s:{}} *)
  else if list_eqb N.eqb t [123; 33; 97; 58; 123; 125; 125]%N then Some [33; 97]%N     (* {!a:{}} *)
  else None.

Definition is_format_call (e : expr) : option (expr * list N) :=
  match e with
  | ECall (EMember (EStr t) "format" _) [(ARG_POS, _, arg); (ARG_POS, _, EStr fmt)] =>
      match field_template t with
      | Some conv => Some (arg, (conv ++ match fmt with [] => [] | _ => 58%N :: fmt end)%list)
      | None => None
      end
  | _ => None
  end.

Fixpoint fstring_parts (fuel : nat) (e : expr) : list fpart :=
  match fuel with
  | O => []
  | S fu =>
      match is_format_call e with
      | Some (arg, fmt) => [FFmt arg fmt]
      | None =>
          match e with
          | ECall (EMember (EStr []) "join" _) [(ARG_POS, _, EList items)] =>
              let step := fix step (items : list expr) (acc : list fpart) (had : bool) : option (list fpart * bool) :=
                match items with
                | [] => Some (acc, had)
                | EStr s :: r => step r (acc ++ [FLit s])%list had
                | it :: r =>
                    match fstring_parts fu it with
                    | [] => None
                    | ps => step r (acc ++ ps)%list true
                    end
                end in
              match step items [] false with
              | Some (ps, true) => ps
              | _ => []
              end
          | _ => []
          end
      end
  end.

Fixpoint expr_depth (e : expr) : nat :=
  let mx := fix mx (l : list expr) : nat := match l with [] => 0 | x :: r => Nat.max (expr_depth x) (mx r) end in
  let od := fun (o : option expr) => match o with Some x => expr_depth x | None => 0 end in
  S (match e with
     | EName _ _ | EInt _ | EFloat _ | EComplex _ | EStr _ | EBytes _ | EOpaque _ _ _ => 0
     | EMember x _ _ | EUnary _ x | EAwait x | EStar x => expr_depth x
     | EList l | ETuple l | ESet l | ECmp _ l => mx l
     | EDict l => (fix md (l : list (option expr * expr)) : nat :=
         match l with [] => 0 | (k, v) :: r => Nat.max (Nat.max (od k) (expr_depth v)) (md r) end) l
     | ECall c args => Nat.max (expr_depth c)
         ((fix ma (l : list (argkind * option string * expr)) : nat :=
             match l with [] => 0 | (_, x) :: r => Nat.max (expr_depth x) (ma r) end) args)
     | EIndex a b | EOp _ a b | EWalrus a b => Nat.max (expr_depth a) (expr_depth b)
     | ESlice a b c => Nat.max (od a) (Nat.max (od b) (od c))
     | ECond a b c => Nat.max (expr_depth a) (Nat.max (expr_depth b) (expr_depth c))
     | ELambda _ b => od b
     end).

(* ---- _stringify: None = ValueError ---- *)
Definition join_opt (l : list (option string)) : option (list string) :=
  fold_right (fun o acc => match o, acc with Some s, Some r => Some (s :: r) | _, _ => None end) (Some []) l.

Definition unary_text (op : string) : string :=
  if (String.eqb op "+" || String.eqb op "-" || String.eqb op "~" || String.eqb op "")%bool then op
  else op ++ " ".                                   (* `op not in +-~`: a substring test *)

Definition lambda_simple (ps : list (argkind * option string)) : option (list string) :=
  join_opt (map (fun p => match p with
                          | (ARG_POS, Some n) => if String.eqb n "" then None else Some n
                          | _ => None end) ps).

Fixpoint strip1 (s : string) : string :=       (* s[1:-1] *)
  match s with
  | EmptyString => EmptyString
  | String _ r => (fix drop_last (s : string) : string :=
                     match s with
                     | EmptyString => EmptyString
                     | String c EmptyString => EmptyString
                     | String c r => String c (drop_last r)
                     end) r
  end.

(* ---- precedence (common.py: _BINARY_PRECEDENCE, _precedence) ---- *)
Definition binary_precedence (op : string) : option nat :=
  if String.eqb op "or" then Some 3 else if String.eqb op "and" then Some 4
  else if String.eqb op "|" then Some 7 else if String.eqb op "^" then Some 8
  else if String.eqb op "&" then Some 9
  else if (String.eqb op "<<" || String.eqb op ">>")%bool then Some 10
  else if (String.eqb op "+" || String.eqb op "-")%bool then Some 11
  else if (String.eqb op "*" || String.eqb op "/" || String.eqb op "//" || String.eqb op "%" || String.eqb op "@")%bool then Some 12
  else if String.eqb op "**" then Some 14 else None.

Definition atom_precedence : nat := 16.

Definition precedence (e : expr) : nat :=
  match e with
  | EWalrus _ _ => 0
  | ELambda _ _ => 1
  | ECond _ _ _ => 2
  | EOp op _ _ => match binary_precedence op with Some p => p | None => atom_precedence end
  | EUnary op _ => if String.eqb op "not" then 5 else 13
  | ECmp _ _ => 6
  | EAwait _ => 15
  | _ => atom_precedence
  end.

Definition wrap (e : expr) (p : nat) (text : string) : string :=
  if Nat.ltb (precedence e) p then "(" ++ text ++ ")" else text.

Definition is_slice (e : expr) : bool := match e with ESlice _ _ _ => true | _ => false end.
Definition starts_with_brace (s : string) : bool :=
  match s with String c _ => Ascii.eqb c "{"%char | EmptyString => false end.

Fixpoint double_braces (s : string) : string :=
  match s with
  | EmptyString => EmptyString
  | String c r => if (Ascii.eqb c "{" || Ascii.eqb c "}")%char%bool then String c (String c (double_braces r))
                  else String c (double_braces r)
  end.

Fixpoint stringify_ (fuel : nat) (e : expr) : option string :=
  match fuel with
  | O => None
  | S fu =>
      let s_ := stringify_ fu in
      (* _stringify_operand(node, p) *)
      let so := fun (x : expr) (p : nat) => match stringify_ fu x with Some s => Some (wrap x p s) | None => None end in
      (* _stringify_item(node, p): the placeholder stands in for what cannot be rendered *)
      let si := fun (x : expr) (p : nat) => match stringify_ fu x with Some s => wrap x p s | None => "x" end in
      match e with
      | EMember x name _ =>
          match so x atom_precedence with
          | Some b => Some ((match x with EInt _ => "(" ++ b ++ ")" | _ => b end) ++ "." ++ name)
          | None => None
          end
      | EName name _ => Some (unmangle name)
      | EBytes raw => Some (render_bytes raw)
      | EInt v => Some (Z_to_dec v)
      | EComplex r => Some r
      | EFloat r => Some r
      | EStr s => Some (render_str s)
      | EDict items =>
          Some ("{" ++ concat_str ", " (map (fun kv => match fst kv with
                                                      | Some k => si k 1 ++ ": " ++ si (snd kv) 1
                                                      | None => "**" ++ si (snd kv) 7 end) items) ++ "}")
      | ETuple items =>
          let inner := concat_str ", " (map (fun x => si x 1) items) in
          Some ("(" ++ inner ++ (match items with [_] => "," | _ => "" end) ++ ")")
      | ECall callee args =>
          match fstring_parts (S (expr_depth e)) e with
          | (_ :: _) as parts =>
              match join_opt (map (fun p => match p with
                    | FLit s => Some (double_braces (strip1 (render_str s)))
                    | FFmt arg suffix =>
                        match so arg 2 with
                        | Some a0 =>
                            let a := if starts_with_brace a0 then " " ++ a0 else a0 in
                            Some ("{" ++ a ++ utf8 suffix ++ "}")
                        | None => None end end) parts) with
              | Some ps => Some ("f""" ++ concat_str "" ps ++ """")
              | None => None
              end
          | [] =>
              match join_opt (map (fun a => match a with
                    | (ARG_NAMED, nm, x) =>
                        match so x 1 with Some s => Some ((match nm with Some n => n | None => "None" end) ++ "=" ++ s) | None => None end
                    | (ARG_STAR, _, x) => match so x 1 with Some s => Some ("*" ++ s) | None => None end
                    | (ARG_STAR2, _, x) => match so x 1 with Some s => Some ("**" ++ s) | None => None end
                    | (_, _, x) => s_ x end) args), s_ callee with
              | Some cs, Some c => Some (c ++ "(" ++ concat_str ", " cs ++ ")")
              | _, _ => None
              end
          end
      | EIndex b i =>
          let subscript :=
            match i with
            | ETuple items =>
                if existsb is_slice items
                then concat_str ", " (map (fun x => si x 1) items) ++ (match items with [_] => "," | _ => "" end)
                else si i 1
            | _ => si i 1
            end in
          Some (si b atom_precedence ++ "[" ++ subscript ++ "]")
      | ESlice lo hi st =>
          let o := fun (x : option expr) => match x with Some y => si y 2 | None => "" end in
          Some (o lo ++ ":" ++ o hi ++ (match st with Some y => ":" ++ si y 2 | None => "" end))
      | EOp op l r =>
          let p := precedence e in
          let lr := if String.eqb op "**" then (so l (S p), so r 13)
                    else if (String.eqb op "and" || String.eqb op "or")%bool then (so l (S p), so r p)
                    else (so l p, so r (S p)) in
          match lr with (Some a, Some b) => Some (a ++ " " ++ op ++ " " ++ b) | _ => None end
      | ECmp ops operands =>
          match join_opt (map (fun x => so x 7) operands) with
          | Some os =>
              let fix zipj (ops : list string) (xs : list string) : list string :=
                match ops, xs with o :: ro, x :: rx => x :: o :: zipj ro rx | _, _ => [] end in
              match List.rev os with
              | last :: _ => Some (concat_str " " (zipj ops os ++ [last])%list)
              | [] => None
              end
          | None => None
          end
      | EUnary op x => match so x (precedence e) with Some s => Some (unary_text op ++ s) | None => None end
      | ELambda ps (Some body) =>
          match lambda_simple ps, so body 1 with
          | Some names, Some b =>
              Some ("lambda" ++ (match names with [] => "" | _ => " " ++ concat_str ", " names end) ++ ": " ++ b)
          | _, _ => None
          end
      | ELambda _ None => None
      | EList items => Some ("[" ++ concat_str ", " (map (fun x => si x 1) items) ++ "]")
      | ESet items => Some ("{" ++ concat_str ", " (map (fun x => si x 1) items) ++ "}")
      | ECond c a b =>
          match so a 3, so c 3, so b 1 with
          | Some sa, Some sc', Some sb => Some (sa ++ " if " ++ sc' ++ " else " ++ sb)
          | _, _, _ => None
          end
      | EAwait x => match so x atom_precedence with Some s => Some ("await " ++ s) | None => None end
      | EWalrus t v => match s_ t, so v 1 with Some a, Some b => Some (a ++ " := " ++ b) | _, _ => None end
      | EStar _ | EOpaque _ _ _ => None
      end
  end.

Definition stringify (e : expr) : string :=
  match stringify_ (S (expr_depth e)) e with Some s => s | None => "x" end.

(* ---- stringify_operand(node, operator): an operand pasted next to `operator` in a suggestion ---- *)
Definition operand_precedence (operator : string) : nat :=
  if String.eqb operator "." then atom_precedence
  else if String.eqb operator "{}" then 3
  else if String.eqb operator "not" then 5
  else match binary_precedence operator with Some p => p | None => 7 end.

Definition is_int_literal (e : expr) : bool := match e with EInt _ => true | _ => false end.

Definition stringify_operand (e : expr) (operator : string) : string :=
  if (String.eqb operator "." && is_int_literal e)%bool then "(" ++ stringify e ++ ")"     (* `1.real` is a syntax error *)
  else match stringify_ (S (expr_depth e)) e with
       | Some s =>
           let t := wrap e (operand_precedence operator) s in
           (* in an f-string field a leading brace would read as an escaped brace *)
           if (String.eqb operator "{}" && starts_with_brace t)%bool then " " ++ t else t
       | None => "x"
       end.

(* it is the expression's own text, in parentheses exactly when the expression binds less tightly than the
   place it is pasted into *)
Lemma stringify_operand_wraps (e : expr) (operator s : string) :
  stringify_ (S (expr_depth e)) e = Some s -> (String.eqb operator "." && is_int_literal e)%bool = false ->
  String.eqb operator "{}" = false ->
  stringify e = s /\
  stringify_operand e operator = (if Nat.ltb (precedence e) (operand_precedence operator) then "(" ++ s ++ ")" else s)%string.
Proof. intros H Hi Hb. unfold stringify_operand. rewrite Hi, Hb. unfold stringify, wrap. rewrite H. split; reflexivity. Qed.

(* in an f-string field: the same, with a space in front when the text would otherwise start with a brace *)
Lemma stringify_operand_field (e : expr) (s : string) :
  stringify_ (S (expr_depth e)) e = Some s ->
  let t := (if Nat.ltb (precedence e) 3 then "(" ++ s ++ ")" else s)%string in
  stringify_operand e "{}" = (if starts_with_brace t then " " ++ t else t)%string.
Proof. intros H. unfold stringify_operand. cbn [String.eqb Ascii.eqb Bool.eqb andb]. rewrite H. reflexivity. Qed.

Lemma int_literal_is_atom e : is_int_literal e = true -> precedence e = atom_precedence.
Proof. destruct e; try discriminate. reflexivity. Qed.

(* the object of an attribute access / method call is parenthesised unless it is an atom; a conditional,
   lambda or walrus is parenthesised next to every operator *)
Lemma operand_of_dot_is_atom_or_wrapped (e : expr) (s : string) :
  stringify_ (S (expr_depth e)) e = Some s -> precedence e < atom_precedence ->
  stringify_operand e "." = ("(" ++ s ++ ")")%string.
Proof.
  intros H Hp.
  assert (Hi : (String.eqb "." "." && is_int_literal e)%bool = false).
  { destruct (is_int_literal e) eqn:E; [|reflexivity]. apply int_literal_is_atom in E. lia. }
  destruct (stringify_operand_wraps e "." s H Hi eq_refl) as [_ ->].
  change (operand_precedence ".") with atom_precedence. apply Nat.ltb_lt in Hp. now rewrite Hp.
Qed.

Lemma loose_operand_always_wrapped (e : expr) (operator s : string) :
  stringify_ (S (expr_depth e)) e = Some s -> precedence e <= 2 -> String.eqb operator "{}" = false ->
  stringify_operand e operator = ("(" ++ s ++ ")")%string.
Proof.
  intros H Hp Hb.
  assert (Hi : (String.eqb operator "." && is_int_literal e)%bool = false).
  { destruct (is_int_literal e) eqn:E; [|apply andb_false_r]. apply int_literal_is_atom in E. unfold atom_precedence in E. lia. }
  destruct (stringify_operand_wraps e operator s H Hi Hb) as [_ ->].
  assert (3 <= operand_precedence operator).
  { unfold operand_precedence, atom_precedence.
    destruct (String.eqb operator ".") eqn:E1; [lia|].
    destruct (String.eqb operator "{}") eqn:E2; [lia|].
    destruct (String.eqb operator "not") eqn:E3; [lia|].
    unfold binary_precedence.
    repeat match goal with |- context [if ?c then _ else _] => destruct c end; lia. }
  assert (Hl : Nat.ltb (precedence e) (operand_precedence operator) = true) by (apply Nat.ltb_lt; lia).
  now rewrite Hl.
Qed.
