(* PyRules.v — the rewrite rules of the pure fragment as pairs of model expressions, and
   their soundness: for every operand the theorem quantifies over, original and replacement
   produce the same outcome.  Where the unguarded statement is false the guard is explicit
   and a refutation with a concrete witness is proved beside it (the witness is replayed on
   CPython by the C01 check). *)
From Coq Require Import QArith.
From Lib Require Import Base PyEval.
Open Scope list_scope.
Local Notation length := List.length.

(* ---------------------------------------------------------------- equality facts *)
Lemma Qeq_bool_sym p q : Qeq_bool p q = Qeq_bool q p.
Proof. apply eq_true_iff_eq. rewrite !Qeq_bool_iff. split; intros H; now symmetry. Qed.

Lemma Qeq_bool_trans_l p q r : Qeq_bool p q = true -> Qeq_bool p r = Qeq_bool q r.
Proof.
  intros H. apply Qeq_bool_iff in H. apply eq_true_iff_eq. rewrite !Qeq_bool_iff.
  split; intros H2; [rewrite <- H|rewrite H]; exact H2.
Qed.

Lemma ext_eqb_sym a b : ext_eqb a b = ext_eqb b a.
Proof. destruct a, b; simpl; try reflexivity. apply Qeq_bool_sym. Qed.

Lemma ext_eqb_trans_l a b c : ext_eqb a b = true -> ext_eqb a c = ext_eqb b c.
Proof. destruct a, b; simpl; try discriminate; intros H; destruct c; simpl; try reflexivity. now apply Qeq_bool_trans_l. Qed.

Definition scalar (v : value) : Prop := match v with VList _ | VTuple _ => False | _ => True end.

Inductive kind := KNone | KStr (s : list N) | KExt (e : ext) | KOther.
Definition kind_of (v : value) : kind :=
  match v with
  | VNone => KNone
  | VStr s => KStr s
  | _ => match ext_of v with Some e => KExt e | None => KOther end
  end.
Definition kind_eqb (a b : kind) : bool :=
  match a, b with
  | KNone, KNone => true
  | KStr s, KStr t => list_eqb N.eqb s t
  | KExt x, KExt y => ext_eqb x y
  | _, _ => false
  end.

Lemma py_eq_kind a b : scalar a -> scalar b -> py_eq a b = kind_eqb (kind_of a) (kind_of b).
Proof.
  intros Ha Hb.
  destruct a as [|ba|za|[|[|]| |qa]|sa|la|la]; try contradiction;
  destruct b as [|bb|zb|[|[|]| |qb]|sb|lb|lb]; try contradiction; reflexivity.
Qed.

Lemma Neqb_spec x y : N.eqb x y = true <-> x = y.
Proof. apply N.eqb_eq. Qed.

Lemma kind_eqb_sym a b : kind_eqb a b = kind_eqb b a.
Proof.
  destruct a, b; simpl; try reflexivity; [|apply ext_eqb_sym].
  apply eq_true_iff_eq. rewrite !(list_eqb_spec _ Neqb_spec). split; congruence.
Qed.

Lemma kind_eqb_trans_l a b c : kind_eqb a b = true -> kind_eqb a c = kind_eqb b c.
Proof.
  destruct a, b; simpl; try discriminate; intros H; destruct c; simpl; try reflexivity.
  - apply (list_eqb_spec _ Neqb_spec) in H. now subst.
  - now apply ext_eqb_trans_l.
Qed.

Lemma py_eq_sym a b : scalar a -> scalar b -> py_eq a b = py_eq b a.
Proof. intros Ha Hb. rewrite !py_eq_kind by assumption. apply kind_eqb_sym. Qed.

Lemma py_eq_trans_l a b c : scalar a -> scalar b -> scalar c -> py_eq a b = true -> py_eq a c = py_eq b c.
Proof. intros Ha Hb Hc. rewrite !py_eq_kind by assumption. apply kind_eqb_trans_l. Qed.

Lemma reflexive_int z : reflexive (VInt z).
Proof. unfold reflexive. simpl. apply Qeq_bool_iff. reflexivity. Qed.
Lemma reflexive_bool b : reflexive (VBool b).
Proof. unfold reflexive. simpl. apply Qeq_bool_iff. reflexivity. Qed.
Lemma reflexive_str s : reflexive (VStr s).
Proof. unfold reflexive. simpl. now apply (list_eqb_spec _ Neqb_spec). Qed.
Lemma reflexive_none : reflexive VNone.
Proof. reflexivity. Qed.
Lemma reflexive_float f : f <> FNaN -> reflexive (VFloat f).
Proof.
  intros H. unfold reflexive. destruct f as [|[|]| |q]; simpl; try reflexivity; try congruence.
  apply Qeq_bool_iff. reflexivity.
Qed.

(* the same object is equal to itself unless its value is not reflexive (NaN) *)
Lemma is_implies_eq x y : same_object_same_value x y -> reflexive (val x) -> py_is x y = true -> py_eq (val x) (val y) = true.
Proof.
  intros W R H. unfold py_is in H.
  assert (L : (match lbl x, lbl y with Some i, Some j => Nat.eqb i j | _, _ => false end) = true -> py_eq (val x) (val y) = true).
  { destruct (lbl x) as [i|] eqn:Lx; [|discriminate]. destruct (lbl y) as [j|] eqn:Ly; [|discriminate].
    intros E. apply Nat.eqb_eq in E. subst j. rewrite <- (W i Lx Ly). exact R. }
  destruct (val x) as [|bx|zx|fx|sx|lx|lx] eqn:Vx; destruct (val y) as [|by_|zy|fy|sy|ly|ly] eqn:Vy;
    try (rewrite <- Vx, <- Vy in L; rewrite <- Vx, <- Vy; exact (L H)); try reflexivity.
  apply Bool.eqb_prop in H. subst. apply reflexive_bool.
Qed.

Lemma in_elem_guarded x y : same_object_same_value x y -> reflexive (val x) ->
  (py_is x y || py_eq (val x) (val y)) = py_eq (val x) (val y).
Proof.
  intros W R. destruct (py_is x y) eqn:E; [|reflexivity]. simpl. symmetry. now apply is_implies_eq.
Qed.

(* ---------------------------------------------------------------- the rules *)
Definition ret (o : obj) : option obj := Some o.

(* FURB108  x == y or x == z  ->  x in (y, z) *)
Definition lhs_108 (x y z : obj) := ret (py_or (vbool (py_eq (val x) (val y))) (vbool (py_eq (val x) (val z)))).
Definition rhs_108 (x y z : obj) := ret (vbool (py_in x [y; z])).

Theorem r108_guarded x y z : same_object_same_value x y -> same_object_same_value x z -> reflexive (val x) ->
  lhs_108 x y z = rhs_108 x y z.
Proof.
  intros Wy Wz R. unfold lhs_108, rhs_108, py_in, py_or, vbool, fresh, ret. cbn [existsb val].
  rewrite (in_elem_guarded x y Wy R), (in_elem_guarded x z Wz R), orb_false_r.
  destruct (py_eq (val x) (val y)); reflexivity.
Qed.

Definition nan1 : obj := {| lbl := Some 1%nat; val := VFloat FNaN |}.
Definition int0 : obj := fresh (VInt 0).
Theorem r108_refuted : exists x y z, same_object_same_value x y /\ same_object_same_value x z /\ lhs_108 x y z <> rhs_108 x y z.
Proof. exists nan1, int0, nan1. repeat split; try (intros i H1 H2; try reflexivity; discriminate). vm_compute. discriminate. Qed.

(* FURB171  x in (y,)  ->  x == y *)
Definition lhs_171 (x y : obj) := ret (vbool (py_in x [y])).
Definition rhs_171 (x y : obj) := ret (vbool (py_eq (val x) (val y))).
Theorem r171_guarded x y : same_object_same_value x y -> reflexive (val x) -> lhs_171 x y = rhs_171 x y.
Proof.
  intros W R. unfold lhs_171, rhs_171, py_in. cbn [existsb]. now rewrite (in_elem_guarded x y W R), orb_false_r.
Qed.
Theorem r171_refuted : exists x y, same_object_same_value x y /\ lhs_171 x y <> rhs_171 x y.
Proof. exists nan1, nan1. split; [intros i _ _; reflexivity|]. vm_compute. discriminate. Qed.

(* FURB110  x if x else y  ->  x or y     (same object, not only same value) *)
Definition lhs_110 (x y : obj) := ret (py_cond x x y).
Definition rhs_110 (x y : obj) := ret (py_or x y).
Theorem r110_all x y : lhs_110 x y = rhs_110 x y.
Proof. reflexivity. Qed.

(* FURB114  not not x  ->  bool(x) *)
Definition lhs_114 (x : obj) := ret (py_not (py_not x)).
Definition rhs_114 (x : obj) := ret (py_bool x).
Theorem r114_all x : lhs_114 x = rhs_114 x.
Proof. unfold lhs_114, rhs_114, py_not, py_bool, fresh. cbn [val py_truthy]. now rewrite negb_involutive. Qed.

(* FURB124  x == y and x == z  ->  x == y == z   (which is  x == y and y == z) *)
Definition lhs_124 (x y z : obj) := ret (py_and (vbool (py_eq (val x) (val y))) (vbool (py_eq (val x) (val z)))).
Definition rhs_124 (x y z : obj) := ret (py_and (vbool (py_eq (val x) (val y))) (vbool (py_eq (val y) (val z)))).
Theorem r124_scalars x y z : scalar (val x) -> scalar (val y) -> scalar (val z) -> lhs_124 x y z = rhs_124 x y z.
Proof.
  intros Hx Hy Hz. unfold lhs_124, rhs_124, py_and, vbool, fresh. cbn [val py_truthy].
  destruct (py_eq (val x) (val y)) eqn:E; [|reflexivity]. now rewrite (py_eq_trans_l _ _ (val z) Hx Hy Hz E).
Qed.

(* FURB136  x if x < y else y -> min(x, y);   x if x > y else y -> max(x, y) *)
Definition lift_cond (c : option bool) (a b : obj) : option obj := match c with Some true => Some a | Some false => Some b | None => None end.
Definition lhs_136_min (x y : obj) := lift_cond (py_lt (val x) (val y)) x y.
Definition rhs_136_min (x y : obj) := py_min2 x y.
Definition lhs_136_max (x y : obj) := lift_cond (py_lt (val y) (val x)) x y.
Definition rhs_136_max (x y : obj) := py_max2 x y.

Definition oval (o : option obj) : option value := option_map val o.

Lemma Qle_bool_Z a b : Qle_bool (inject_Z a) (inject_Z b) = Z.leb a b.
Proof. unfold Qle_bool, inject_Z. cbn [Qnum Qden]. now rewrite !Z.mul_1_r. Qed.

Lemma int_lt a b : py_lt (VInt a) (VInt b) = Some (Z.ltb a b).
Proof. cbn [py_lt ext_of num_of ext_ltb]. rewrite Qle_bool_Z. f_equal. rewrite Z.ltb_antisym. reflexivity. Qed.

Theorem r136_min_int x y a b : val x = VInt a -> val y = VInt b -> oval (lhs_136_min x y) = oval (rhs_136_min x y).
Proof.
  intros Hx Hy. unfold lhs_136_min, rhs_136_min, py_min2. rewrite Hx, Hy, !int_lt.
  destruct (Z.ltb_spec a b), (Z.ltb_spec b a); cbn [lift_cond oval option_map]; try reflexivity; try lia.
  rewrite Hx, Hy. f_equal. f_equal. lia.
Qed.

Theorem r136_max_int x y a b : val x = VInt a -> val y = VInt b -> oval (lhs_136_max x y) = oval (rhs_136_max x y).
Proof.
  intros Hx Hy. unfold lhs_136_max, rhs_136_max, py_max2. rewrite Hx, Hy, !int_lt.
  destruct (Z.ltb_spec a b), (Z.ltb_spec b a); cbn [lift_cond oval option_map]; try reflexivity; try lia.
  rewrite Hx, Hy. f_equal. f_equal. lia.
Qed.

Lemma list_lt_tri a : forall b, list_lt N.ltb N.eqb a b = false -> list_lt N.ltb N.eqb b a = false -> a = b.
Proof.
  induction a as [|x a IH]; destruct b as [|y b]; cbn [list_lt]; try discriminate; [reflexivity|].
  destruct (N.ltb_spec x y); [discriminate|]. destruct (N.ltb_spec y x); [discriminate|].
  assert (x = y) by lia. subst y. rewrite N.eqb_refl. intros H1 H2. f_equal. now apply IH.
Qed.

Lemma list_lt_asym a : forall b, list_lt N.ltb N.eqb a b = true -> list_lt N.ltb N.eqb b a = true -> False.
Proof.
  induction a as [|x a IH]; destruct b as [|y b]; cbn [list_lt]; try discriminate.
  destruct (N.ltb_spec x y), (N.ltb_spec y x); try lia;
    destruct (N.eqb_spec x y), (N.eqb_spec y x); try lia; try (intros; discriminate).
  subst. apply IH.
Qed.

Theorem r136_min_str x y s t : val x = VStr s -> val y = VStr t -> oval (lhs_136_min x y) = oval (rhs_136_min x y).
Proof.
  intros Hx Hy. unfold lhs_136_min, rhs_136_min, py_min2. rewrite Hx, Hy. cbn [py_lt].
  destruct (list_lt N.ltb N.eqb s t) eqn:E1, (list_lt N.ltb N.eqb t s) eqn:E2; cbn [lift_cond oval option_map]; try reflexivity.
  - exfalso. exact (list_lt_asym s t E1 E2).
  - rewrite Hx, Hy. f_equal. f_equal. now apply list_lt_tri.
Qed.

Definition fzero : obj := fresh (VFloat (FNum 0)).
Definition fnegzero : obj := fresh (VFloat FNegZero).
Theorem r136_refuted_signed_zero : oval (lhs_136_min fzero fnegzero) <> oval (rhs_136_min fzero fnegzero).
Proof. vm_compute. discriminate. Qed.
Theorem r136_refuted_nan : oval (lhs_136_min nan1 int0) <> oval (rhs_136_min nan1 int0).
Proof. vm_compute. discriminate. Qed.

(* FURB143  x or <zero of x's type>  ->  x *)
Definition zero_like (v : value) : option value :=
  match v with
  | VBool _ => Some (VBool false)
  | VInt _ => Some (VInt 0)
  | VStr _ => Some (VStr [])
  | VList _ => Some (VList [])
  | VTuple _ => Some (VTuple [])
  | VFloat _ => Some (VFloat (FNum 0))
  | VNone => None
  end.
Definition lhs_143 (x : obj) (d : value) := ret (py_or x (fresh d)).
Definition rhs_143 (x : obj) (d : value) := ret x.

Definition not_float (v : value) : Prop := match v with VFloat _ => False | _ => True end.

Theorem r143_value x d : zero_like (val x) = Some d -> not_float (val x) -> oval (lhs_143 x d) = oval (rhs_143 x d).
Proof.
  intros Hz Hf. unfold lhs_143, rhs_143, py_or, ret. destruct (py_truthy (val x)) eqn:T; [reflexivity|].
  cbn [oval option_map fresh val]. f_equal.
  destruct (val x) as [|b|z|f|s|l|l]; try contradiction; cbn [zero_like] in Hz; inversion Hz; subst; cbn [py_truthy] in T.
  - now subst.
  - apply negb_false_iff in T. apply Z.eqb_eq in T. now subst.
  - destruct s; [reflexivity|discriminate].
  - destruct l; [reflexivity|discriminate].
  - destruct l; [reflexivity|discriminate].
Qed.

(* the float instance fails on -0.0, and the result is not the same object when x is falsy *)
Theorem r143_refuted_signed_zero : oval (lhs_143 fnegzero (VFloat (FNum 0))) <> oval (rhs_143 fnegzero (VFloat (FNum 0))).
Proof. vm_compute. discriminate. Qed.
Definition empty_list1 : obj := {| lbl := Some 1%nat; val := VList [] |}.
Theorem r143_refuted_identity : lhs_143 empty_list1 (VList []) <> rhs_143 empty_list1 (VList []).
Proof. vm_compute. discriminate. Qed.

(* FURB149  b is True -> b;  b is False -> not b;  b == True -> b   (b a bool) *)
Definition otrue : obj := fresh (VBool true).
Definition ofalse : obj := fresh (VBool false).
Definition lhs_149_is_true (b : obj) := ret (vbool (py_is b otrue)).
Definition lhs_149_is_false (b : obj) := ret (vbool (py_is b ofalse)).
Definition lhs_149_eq_true (b : obj) := ret (vbool (py_eq (val b) (VBool true))).
Definition rhs_149_pos (b : obj) := ret b.
Definition rhs_149_neg (b : obj) := ret (py_not b).

Theorem r149_is_true b c : val b = VBool c -> oval (lhs_149_is_true b) = oval (rhs_149_pos b).
Proof. intros H. unfold lhs_149_is_true, rhs_149_pos, py_is, oval, ret. cbn [option_map]. rewrite H. destruct c; reflexivity. Qed.
Theorem r149_is_false b c : val b = VBool c -> oval (lhs_149_is_false b) = oval (rhs_149_neg b).
Proof. intros H. unfold lhs_149_is_false, rhs_149_neg, py_is, py_not, oval, ret. cbn [option_map]. rewrite H. destruct c; reflexivity. Qed.
Theorem r149_eq_true b c : val b = VBool c -> oval (lhs_149_eq_true b) = oval (rhs_149_pos b).
Proof. intros H. unfold lhs_149_eq_true, rhs_149_pos, oval, ret. cbn [option_map]. rewrite H. destruct c; reflexivity. Qed.

(* FURB168/169  isinstance(x, type(None)) / type(x) is type(None)  ->  x is None *)
Definition is_none_type (v : value) : bool := match v with VNone => true | _ => false end.
Definition onone : obj := fresh VNone.
Definition lhs_168 (x : obj) := ret (vbool (is_none_type (val x))).
Definition rhs_168 (x : obj) := ret (vbool (py_is x onone)).
Theorem r168_all x : lhs_168 x = rhs_168 x.
Proof.
  unfold lhs_168, rhs_168, py_is, onone, fresh. cbn [val lbl].
  destruct (val x); try reflexivity; destruct (lbl x); reflexivity.
Qed.

(* FURB191  b is True or b is False -> isinstance(b, bool), any b;  b in {True, False} -> isinstance(b, bool), b a bool *)
Definition is_bool_type (v : value) : bool := match v with VBool _ => true | _ => false end.
Definition lhs_191_is (b : obj) := ret (py_or (vbool (py_is b otrue)) (vbool (py_is b ofalse))).
Definition lhs_191_in (b : obj) := ret (vbool (py_in b [otrue; ofalse])).
Definition rhs_191 (b : obj) := ret (vbool (is_bool_type (val b))).
Theorem r191_is_all b : oval (lhs_191_is b) = oval (rhs_191 b).
Proof.
  unfold lhs_191_is, rhs_191, py_or, py_is, otrue, ofalse, vbool, fresh. cbn [val lbl py_truthy].
  destruct (val b) as [|[|]| | | | |]; try reflexivity; destruct (lbl b); reflexivity.
Qed.
Theorem r191_in_bool b c : val b = VBool c -> oval (lhs_191_in b) = oval (rhs_191 b).
Proof. intros H. unfold lhs_191_in, rhs_191, py_in, py_is, oval, ret. cbn [option_map existsb]. rewrite H. destruct c; reflexivity. Qed.
Theorem r191_in_refuted_int : oval (lhs_191_in (fresh (VInt 1))) <> oval (rhs_191 (fresh (VInt 1))).
Proof. vm_compute. discriminate. Qed.

(* FURB192  sorted(l)[0] -> min(l);  sorted(l)[-1] -> max(l)    (l a non-empty list of ints) *)
Definition lmin (l : list Z) : option Z := fold_right (fun a acc => match acc with None => Some a | Some b => Some (Z.min a b) end) None l.
Definition lmax (l : list Z) : option Z := fold_right (fun a acc => match acc with None => Some a | Some b => Some (Z.max a b) end) None l.

Lemma hd_insert x s : hd_error (insert_sorted Z.leb x s) = Some (match hd_error s with None => x | Some y => Z.min x y end).
Proof. destruct s as [|y s]; cbn [insert_sorted hd_error]; [reflexivity|]. destruct (Z.leb_spec x y); cbn [hd_error]; f_equal; lia. Qed.

Lemma hd_isort l : hd_error (isort Z.leb l) = lmin l.
Proof.
  induction l as [|x l IH]; [reflexivity|]. change (isort Z.leb (x :: l)) with (insert_sorted Z.leb x (isort Z.leb l)).
  rewrite hd_insert, IH. cbn [lmin fold_right]. fold (lmin l). destruct (lmin l); reflexivity.
Qed.

Lemma zmin_lmin l : forall d, zmin d l = match lmin l with None => d | Some m => Z.min d m end.
Proof.
  induction l as [|x l IH]; intros d; [reflexivity|]. cbn [zmin lmin fold_right]. fold (lmin l). rewrite IH.
  destruct (lmin l) as [m|]; destruct (Z.ltb_spec x d); lia.
Qed.

Definition lhs_192_first (l : list Z) : option Z := hd_error (zsorted l).
Definition rhs_192_min (l : list Z) : option Z := py_min_list l.

Theorem r192_first_min_int l : lhs_192_first l = rhs_192_min l.
Proof.
  unfold lhs_192_first, rhs_192_min, zsorted, py_min_list. rewrite hd_isort. destruct l as [|x r]; [reflexivity|].
  cbn [lmin fold_right]. fold (lmin r). rewrite zmin_lmin. destruct (lmin r); reflexivity.
Qed.

Definition last_error (l : list Z) : option Z := match l with [] => None | x :: r => Some (last r x) end.

Inductive zsortedP : list Z -> Prop :=
| zs_nil : zsortedP []
| zs_one x : zsortedP [x]
| zs_cons x y r : (x <= y)%Z -> zsortedP (y :: r) -> zsortedP (x :: y :: r).

Lemma insert_zsorted x s : zsortedP s -> zsortedP (insert_sorted Z.leb x s).
Proof.
  induction 1 as [|y|y z r Hyz Hs IH]; cbn [insert_sorted].
  - constructor.
  - destruct (Z.leb_spec x y); constructor; try lia; constructor.
  - destruct (Z.leb_spec x y); [constructor; [lia|now constructor]|].
    cbn [insert_sorted] in IH. destruct (Z.leb_spec x z); constructor; try lia; exact IH.
Qed.

Lemma isort_zsorted l : zsortedP (isort Z.leb l).
Proof. induction l as [|x l IH]; [constructor|]. now apply insert_zsorted. Qed.

Lemma zsorted_last_ge l : zsortedP l -> forall x, In x l -> forall d, (x <= last l d)%Z.
Proof.
  induction 1 as [|y|y z r Hyz Hs IH]; intros x Hin d; [destruct Hin| destruct Hin as [->|[]]; cbn; lia|].
  change (last (y :: z :: r) d) with (last (z :: r) d).
  destruct Hin as [->|Hin]; [|now apply IH]. specialize (IH z (or_introl eq_refl) d). lia.
Qed.

Lemma last_In (l : list Z) : forall d, l <> [] -> In (last l d) l.
Proof.
  induction l as [|x [|y r] IH]; intros d H; [congruence|now left|]. right. apply IH. discriminate.
Qed.

Lemma zmax_spec l : forall d, (d <= zmax d l)%Z /\ (forall x, In x l -> (x <= zmax d l)%Z) /\ (zmax d l = d \/ In (zmax d l) l).
Proof.
  induction l as [|x l IH]; intros d; cbn [zmax]; [repeat split; [lia|intros x []|now left]|].
  destruct (IH (if Z.ltb d x then x else d)) as (H1 & H2 & H3).
  destruct (Z.ltb_spec d x) as [L|L]; repeat split; try lia.
  - intros y [->|Hy]; [lia|now apply H2].
  - destruct H3 as [->|H3]; [right; now left|right; now right].
  - intros y [->|Hy]; [lia|now apply H2].
  - destruct H3 as [H3|H3]; [now left|right; now right].
Qed.

Definition lhs_192_last (l : list Z) : option Z := last_error (zsorted l).
Definition rhs_192_max (l : list Z) : option Z := py_max_list l.

Theorem r192_last_max_int l : lhs_192_last l = rhs_192_max l.
Proof.
  unfold lhs_192_last, rhs_192_max, zsorted, py_max_list. destruct l as [|x r]; [reflexivity|].
  pose proof (isort_perm Z Z.leb (x :: r)) as P. pose proof (isort_zsorted (x :: r)) as S.
  destruct (isort Z.leb (x :: r)) as [|h t] eqn:E; [apply Permutation_sym, Permutation_nil in P; discriminate|].
  cbn [last_error]. f_equal.
  assert (Lin : In (last (h :: t) h) (h :: t)) by (apply last_In; discriminate).
  assert (Lh : last (h :: t) h = last t h) by (destruct t; reflexivity).
  rewrite Lh in Lin.
  destruct (zmax_spec r x) as (M1 & M2 & M3).
  assert (Min : In (zmax x r) (h :: t)).
  { apply (Permutation_in _ P). destruct M3 as [->|M3]; [now left|now right]. }
  assert (A : (zmax x r <= last t h)%Z) by (rewrite <- Lh; now apply zsorted_last_ge).
  assert (B : (last t h <= zmax x r)%Z).
  { apply (Permutation_in _ (Permutation_sym P)) in Lin. destruct Lin as [<-|Lin]; [exact M1|now apply M2]. }
  lia.
Qed.

(* FURB115  len(x) == 0 -> not x;  len(x) >= 1 / != 0 / > 0 -> bool(x)     (str, list, tuple) *)
Definition sized (v : value) : Prop := match v with VStr _ | VList _ | VTuple _ => True | _ => False end.
Definition lhs_115_eq0 (x : obj) : option bool := option_map (fun n => Z.eqb n 0) (py_len (val x)).
Definition lhs_115_ge1 (x : obj) : option bool := option_map (fun n => Z.leb 1 n) (py_len (val x)).
Definition rhs_115_not (x : obj) : option bool := Some (negb (py_truthy (val x))).
Definition rhs_115_bool (x : obj) : option bool := Some (py_truthy (val x)).
Theorem r115_eq0 x : sized (val x) -> lhs_115_eq0 x = rhs_115_not x.
Proof. unfold lhs_115_eq0, rhs_115_not. destruct (val x) as [| | | |[|]|[|]|[|]]; try contradiction; intros _; reflexivity. Qed.
Theorem r115_ge1 x : sized (val x) -> lhs_115_ge1 x = rhs_115_bool x.
Proof.
  unfold lhs_115_ge1, rhs_115_bool. destruct (val x) as [| | | |[|]|[|]|[|]]; try contradiction; intros _; try reflexivity;
    cbn [py_len option_map py_truthy negb List.length]; f_equal; apply Z.leb_le; lia.
Qed.

(* ---------------------------------------------------------------- non-vacuity *)
Example guards_satisfiable :
  same_object_same_value int0 nan1 /\ reflexive (val int0) /\ scalar (val nan1) /\
  zero_like (val empty_list1) = Some (VList []) /\ not_float (val empty_list1) /\ sized (val empty_list1).
Proof. repeat split; try reflexivity. intros i H; discriminate. Qed.

(* observational equality of outcomes, used by the correspondence with CPython: finite
   floats are compared as rationals *)
Definition flt_eqb (a b : flt) : bool :=
  match a, b with
  | FNaN, FNaN | FNegZero, FNegZero => true
  | FInf x, FInf y => Bool.eqb x y
  | FNum p, FNum q => Qeq_bool p q
  | _, _ => false
  end.
Fixpoint veq (a b : value) {struct a} : bool :=
  let all2 := fix all2 (l1 l2 : list value) : bool :=
    match l1, l2 with [], [] => true | x :: r1, y :: r2 => veq x y && all2 r1 r2 | _, _ => false end in
  match a, b with
  | VNone, VNone => true
  | VBool x, VBool y => Bool.eqb x y
  | VInt x, VInt y => Z.eqb x y
  | VFloat x, VFloat y => flt_eqb x y
  | VStr s, VStr t => list_eqb N.eqb s t
  | VList l1, VList l2 | VTuple l1, VTuple l2 => all2 l1 l2
  | _, _ => false
  end.
Definition oveq (a : option obj) (b : option value) : bool :=
  match a, b with Some o, Some v => veq (val o) v | None, None => true | _, _ => false end.
