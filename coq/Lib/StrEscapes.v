(* C02 — string literals: the text refurb quotes for a str literal denotes the same
   string.  py_unescape is Python's reading of the body of a double-quoted literal
   (the escape forms repr() can produce). *)
From Lib Require Import Base PyAst Equiv Stringify.
Open Scope list_scope.
Open Scope N_scope.

Definition unhex_digit (c : N) : option N :=
  if (48 <=? c) && (c <=? 57) then Some (c - 48)
  else if (97 <=? c) && (c <=? 102) then Some (c - 87)
  else None.

(* one step of reading a literal body: the decoded code point and the rest *)
Definition unescape_step (l : list N) : option (N * list N) :=
  match l with
  | [] => None
  | c :: r =>
      if negb (c =? 92) then Some (c, r)
      else match r with
           | [] => None
           | d :: r' =>
               if d =? 92 then Some (92, r')
               else if d =? 39 then Some (39, r')
               else if d =? 34 then Some (34, r')
               else if d =? 110 then Some (10, r')
               else if d =? 114 then Some (13, r')
               else if d =? 116 then Some (9, r')
               else if d =? 120 then
                 match r' with
                 | h :: l :: r'' =>
                     match unhex_digit h, unhex_digit l with
                     | Some a, Some b => Some (16 * a + b, r'')
                     | _, _ => None
                     end
                 | _ => None
                 end
               else None                      (* other escapes do not occur *)
           end
  end.

Fixpoint py_unescape (fuel : nat) (l : list N) : option (list N) :=
  match fuel with
  | O => match l with [] => Some [] | _ => None end
  | S f =>
      match l with
      | [] => Some []
      | _ => match unescape_step l with
             | Some (c, r) => match py_unescape f r with Some s => Some (c :: s) | None => None end
             | None => None
             end
      end
  end.

(* the two escaping stages applied to one code point *)
Definition esc2 (q c : N) : list N :=
  flat_map (fun d => if N.eqb d cp_quote2 then [92; 34] else [d]) (repr_char q c).

Lemma str_body_flat s : str_body s = flat_map (esc2 (repr_quote s)) s.
Proof.
  unfold str_body, repr_body, esc2. generalize (repr_quote s). intros q.
  induction s as [|c r IH]; simpl; [reflexivity|]. now rewrite flat_map_app, IH.
Qed.

(* control characters are written \xNN and read back *)
Lemma hex_roundtrip :
  forallb (fun c => match map N_of_ascii (list_ascii_of_string (hex2 c)) with
                    | [h; l] => match unhex_digit h, unhex_digit l with
                                | Some a, Some b => N.eqb (16 * a + b) c | _, _ => false end
                    | _ => false end)
          (map N.of_nat (seq 0 32) ++ [127]) = true.
Proof. vm_compute. reflexivity. Qed.

Definition is_ctrl (c : N) : bool := (c <? 32) || (c =? 127).

Lemma ctrl_cases c : is_ctrl c = true -> In c (map N.of_nat (seq 0 32) ++ [127]).
Proof.
  unfold is_ctrl. intros H. apply orb_true_iff in H as [H|H].
  - apply N.ltb_lt in H. apply in_or_app. left. apply in_map_iff. exists (N.to_nat c).
    split; [apply N2Nat.id|]. apply in_seq. lia.
  - apply N.eqb_eq in H. subst. apply in_or_app. right. now left.
Qed.

Lemma step_ctrl q c rest : (q = 39 \/ q = 34) -> is_ctrl c = true ->
  unescape_step (esc2 q c ++ rest) = Some (c, rest).
Proof.
  intros Hq Hc. apply ctrl_cases in Hc. simpl in Hc.
  destruct Hq; subst q;
    repeat (destruct Hc as [<-|Hc]; [reflexivity|]); destruct Hc.
Qed.

Lemma step_char q c rest : (q = 39 \/ q = 34) -> (q = 39 \/ c <> 34) ->
  unescape_step (esc2 q c ++ rest) = Some (c, rest).
Proof.
  intros Hq Hc.
  destruct (is_ctrl c) eqn:Ectrl; [now apply step_ctrl|].
  unfold is_ctrl in Ectrl. apply orb_false_iff in Ectrl as [E32 E127].
  unfold esc2, repr_char.
  destruct (N.eqb_spec c 92) as [->|N92]; [destruct Hq; subst; reflexivity|].
  destruct (N.eqb_spec c q) as [->|Nq].
  { destruct Hq as [->| ->]; [reflexivity|]. destruct Hc as [Hc|Hc]; [discriminate|congruence]. }
  destruct (N.eqb_spec c 10) as [->|N10]; [discriminate|].
  destruct (N.eqb_spec c 13) as [->|N13]; [discriminate|].
  destruct (N.eqb_spec c 9) as [->|N9]; [discriminate|].
  rewrite E32, E127. simpl.
  destruct (N.eqb_spec c cp_quote2) as [->|N34]; simpl.
  - reflexivity.
  - unfold unescape_step. apply N.eqb_neq in N92. now rewrite N92.
Qed.

Lemma esc2_nonempty q c : exists d r, esc2 q c = d :: r.
Proof.
  unfold esc2, repr_char.
  repeat match goal with |- context [if ?b then _ else _] => destruct b end;
    simpl; try (eexists; eexists; reflexivity).
  all: repeat match goal with |- context [if ?b then _ else _] => destruct b end; eexists; eexists; reflexivity.
Qed.

Lemma unescape_flat q : (q = 39 \/ q = 34) -> forall s, (q = 39 \/ ~ In 34 s) ->
  forall fuel, (List.length (flat_map (esc2 q) s) <= fuel)%nat ->
  py_unescape fuel (flat_map (esc2 q) s) = Some s.
Proof.
  intros Hq. induction s as [|c r IH]; intros Hs fuel Hf.
  - destruct fuel; reflexivity.
  - simpl flat_map in *. destruct (esc2_nonempty q c) as (d & t & E).
    rewrite app_length in Hf. rewrite E in Hf. simpl in Hf.
    destruct fuel as [|f]; [lia|].
    assert (Hstep : unescape_step (esc2 q c ++ flat_map (esc2 q) r) = Some (c, flat_map (esc2 q) r)).
    { apply step_char; [exact Hq|]. destruct Hs as [Hs|Hs]; [now left|]. right. intros ->. apply Hs. now left. }
    rewrite E in *. simpl app in *. cbn [py_unescape]. rewrite Hstep.
    rewrite IH; [reflexivity| |lia].
    destruct Hs as [Hs|Hs]; [now left|]. right. intros Hin. apply Hs. now right.
Qed.

Lemma repr_quote_cases s : (repr_quote s = 39 \/ repr_quote s = 34) /\ (repr_quote s = 39 \/ ~ In 34 s).
Proof.
  unfold repr_quote. destruct (has_cp cp_quote1 s && negb (has_cp cp_quote2 s))%bool eqn:E.
  - split; [now right|]. right. apply andb_true_iff in E as [_ E]. apply negb_true_iff in E.
    intros Hin. unfold has_cp in E.
    assert (H : existsb (N.eqb cp_quote2) s = true).
    { apply existsb_exists. exists 34. split; [exact Hin|reflexivity]. }
    congruence.
  - split; now left.
Qed.

(* every str literal, any code points: what refurb quotes reads back as the same string *)
Theorem str_literal_roundtrip_all :
  forall s, py_unescape (List.length (str_body s)) (str_body s) = Some s.
Proof.
  intros s. rewrite str_body_flat. destruct (repr_quote_cases s) as [Hq Hs].
  apply unescape_flat; auto.
Qed.
