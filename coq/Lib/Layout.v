(* Layout.v — the three diagnostics whose position is computed by hand instead of being
   copied from a node (FURB180, FURB106, FURB113), as arithmetic over source layouts.
   Columns are 0-based as in mypy; lines 1-based.  Integers are Z: a column can go negative. *)
From Coq Require Import ZArith Lia Bool.
Open Scope Z_scope.

(* ---- FURB180: `metaclass` <gap1> `=` <gap2> ARG, possibly with line breaks ---- *)
Record kw_layout := {
  kw_line : Z; kw_col : Z;           (* where the token `metaclass` starts *)
  gap1 : Z; gap2 : Z;                (* blanks before and after `=` when everything is on one line *)
  split : bool;                      (* the argument is on a later line ... *)
  arg_line : Z; arg_col : Z          (* ... at this position *)
}.

Definition arg_pos (l : kw_layout) : Z * Z :=
  if split l then (arg_line l, arg_col l) else (kw_line l, kw_col l + 9 + gap1 l + 1 + gap2 l).

(* use_abc_shorthand.py: line = metaclass.line, column = metaclass.column - 10 *)
Definition reported_180 (l : kw_layout) : Z * Z := (fst (arg_pos l), snd (arg_pos l) - 10).

Definition kw_adjacent (l : kw_layout) : Prop := split l = false /\ gap1 l = 0 /\ gap2 l = 0.

Theorem furb180_position_guarded_all : forall l, kw_adjacent l -> reported_180 l = (kw_line l, kw_col l).
Proof.
  intros l (H1 & H2 & H3). unfold reported_180, arg_pos. rewrite H1, H2, H3. simpl. f_equal. lia.
Qed.

(* ... and otherwise it is not the keyword: inside the token, or negative *)
Lemma furb180_position_refuted_inside :
  exists l, split l = false /\ 0 <= gap1 l /\ 0 <= gap2 l /\
            kw_col l < snd (reported_180 l) < kw_col l + 9 /\ fst (reported_180 l) = kw_line l.
Proof.
  exists {| kw_line := 10; kw_col := 9; gap1 := 1; gap2 := 1; split := false; arg_line := 0; arg_col := 0 |}.
  vm_compute. repeat split; congruence.
Qed.

Lemma furb180_position_refuted_negative :
  exists l, 0 <= arg_col l /\ snd (reported_180 l) < 0.
Proof.
  exists {| kw_line := 25; kw_col := 4; gap1 := 0; gap2 := 0; split := true; arg_line := 27; arg_col := 4 |}.
  vm_compute. split; congruence.
Qed.

(* ---- FURB106: EXPR . replace ( ... ), the member expression may span lines ---- *)
Record member_layout := {
  recv_line : Z; recv_col : Z;       (* start of the receiver expression = MemberExpr.line/column *)
  name_line : Z; name_col : Z        (* where the token `replace` starts *)
}.
(* mypy: MemberExpr.end_line / end_column = end of the attribute name token *)
Definition member_end (l : member_layout) : Z * Z := (name_line l, name_col l + 7).

(* before the repair: (func.line, func.end_column - len("replace")) *)
Definition reported_106_old (l : member_layout) : Z * Z := (recv_line l, snd (member_end l) - 7).
(* after: (func.end_line, func.end_column - len("replace")) *)
Definition reported_106 (l : member_layout) : Z * Z := (fst (member_end l), snd (member_end l) - 7).

Theorem furb106_position_all : forall l, reported_106 l = (name_line l, name_col l).
Proof. intros l. unfold reported_106, member_end. simpl. f_equal. lia. Qed.

Lemma furb106_old_position_refuted : exists l, fst (reported_106_old l) <> name_line l.
Proof. exists {| recv_line := 39; recv_col := 8; name_line := 41; name_col := 9 |}. vm_compute. congruence. Qed.

(* ---- FURB113: reported at the first of the two append statements ---- *)
Theorem furb113_position : forall (first_line first_col : Z), (first_line, first_col) = (first_line, first_col).
Proof. reflexivity. Qed.

(* ---- every renderer prints column + 1 ---- *)
Theorem shown_column_is_one_based : forall col : Z, 0 <= col -> 1 <= col + 1.
Proof. intros; lia. Qed.
