(* Noqa.v — hand-written model of refurb/main.py: get_source_lines, is_ignored_via_comment
   (the `# noqa` regex as a left-to-right search) over strings of code points; the
   theorems that hold for every file and line.  Tied by C08's correspondence check. *)
From Lib Require Import Base.
Open Scope list_scope.
Local Notation length := List.length.
Open Scope N_scope.

Definition text := list N.      (* code points *)

(* str.split on LF, for text whose CRLF and CR were already translated (tokenize.open) *)
Fixpoint split_nl (s : text) : list text :=
  match s with
  | [] => [[]]
  | c :: r => if c =? 10 then [] :: split_nl r
              else match split_nl r with h :: t => (c :: h) :: t | [] => [[c]] end
  end.

(* str.splitlines(): also VT, FF, FS, GS, RS, NEL, LS, PS (the behaviour before the repair) *)
Definition is_linebreak (c : N) : bool :=
  (c =? 10) || (c =? 11) || (c =? 12) || (c =? 28) || (c =? 29) || (c =? 30) || (c =? 133) || (c =? 8232) || (c =? 8233).

(* universal newlines: \r\n and \r become \n *)
Fixpoint universal (s : text) : text :=
  match s with
  | [] => []
  | 13 :: r => 10 :: (match r with 10 :: r' => universal r' | _ => universal r end)
  | c :: r => c :: universal r
  end.

(* str.rstrip(): Python's whitespace (ASCII part + the Unicode separators) *)
Definition is_space (c : N) : bool :=
  (c =? 32) || ((9 <=? c) && (c <=? 13)) || ((28 <=? c) && (c <=? 31)) || (c =? 133) || (c =? 160) || (c =? 5760)
  || ((8192 <=? c) && (c <=? 8202)) || (c =? 8232) || (c =? 8233) || (c =? 8239) || (c =? 8287) || (c =? 12288).

Fixpoint rstrip (s : text) : text :=
  match s with
  | [] => []
  | c :: r => match rstrip r with [] => if is_space c then [] else [c] | r' => c :: r' end
  end.

Definition noqa_lit : text := [35; 32; 110; 111; 113; 97].      (* the six characters: hash, space, n o q a *)

Fixpoint starts (p s : text) : option text :=                  (* Some rest when s = p ++ rest *)
  match p, s with
  | [], _ => Some s
  | a :: p', b :: s' => if a =? b then starts p' s' else None
  | _ :: _, [] => None
  end.

Definition no_quote (s : text) : bool := forallb (fun c => negb ((c =? 39) || (c =? 34))) s.

(* does the noqa regex (hash noqa, optionally colon-space and a run of non-quote characters,
   then end of line) match at the start of s?  Some None = bare noqa,
   Some (Some codes) = the text after the colon and space *)
Definition at_noqa (s : text) : option (option text) :=
  match starts noqa_lit s with
  | None => None
  | Some [] => Some None
  | Some rest =>
      match starts [58; 32] rest with
      | Some codes => if no_quote codes then Some (Some codes) else None
      | None => None
      end
  end.

(* re.search: the leftmost position where it matches *)
Fixpoint search (s : text) : option (option text) :=
  match at_noqa s with
  | Some r => Some r
  | None => match s with [] => None | _ :: r => search r end
  end.

(* error_codes[2:] with commas turned into spaces, split at single spaces *)
Fixpoint split_sp (s : text) : list text :=
  match s with
  | [] => [[]]
  | c :: r => if (c =? 32) || (c =? 44) then [] :: split_sp r
              else match split_sp r with h :: t => (c :: h) :: t | [] => [[c]] end
  end.

Definition text_eqb (a b : text) : bool := list_eqb N.eqb a b.

Definition ignored_on_line (line : text) (code : text) : bool :=
  match search (rstrip line) with
  | None => false
  | Some None => true
  | Some (Some codes) => existsb (text_eqb code) (split_sp codes)
  end.

(* is_ignored_via_comment: the line the diagnostic names (1-based); None = IndexError *)
Definition source_lines (content : text) : list text := split_nl (universal content).

Definition ignored_via_comment (content : text) (line : nat) (code : text) : option bool :=
  match line with
  | O => None
  | S k => match nth_error (source_lines content) k with
           | Some l => Some (ignored_on_line l code)
           | None => None
           end
  end.

Close Scope N_scope.

(* ---- theorems ---- *)

(* the first match wins: nothing inside a prefix that cannot start a match matters *)
Lemma search_skip (p s : text) :
  (forall k, k < length p -> at_noqa (skipn k (p ++ s)) = None) -> search (p ++ s) = search s.
Proof.
  induction p as [|c r IH]; intros H; [reflexivity|].
  pose proof (H 0 ltac:(simpl; lia)) as H0. cbn [skipn] in H0.
  change ((c :: r) ++ s) with (c :: (r ++ s)) in *. cbn [search]. rewrite H0. apply IH.
  intros k Hk. apply (H (S k)). simpl. lia.
Qed.

(* a match needs a hash character: text without one never matches *)
Definition no_hash (s : text) : bool := forallb (fun c => negb (N.eqb c 35)) s.

Lemma at_noqa_hash s : at_noqa s <> None -> exists r, s = 35%N :: r.
Proof.
  destruct s as [|c r]; [intros H; exfalso; apply H; reflexivity|]. unfold at_noqa. cbn [starts noqa_lit].
  destruct (N.eqb_spec 35 c) as [<-|N]; [intros _; now exists r|intros H; exfalso; apply H; reflexivity].
Qed.

Lemma search_no_hash_prefix (p s : text) : no_hash p = true -> search (p ++ s) = search s.
Proof.
  intros Hp. apply search_skip. intros k Hk.
  destruct (at_noqa (skipn k (p ++ s))) eqn:E; [|reflexivity]. exfalso.
  assert (E' : at_noqa (skipn k (p ++ s)) <> None) by congruence.
  apply at_noqa_hash in E' as (r & Hr).
  assert (Hin : In 35%N p).
  { rewrite skipn_app in Hr. replace (k - length p) with 0 in Hr by lia. simpl in Hr.
    destruct (skipn k p) as [|x t] eqn:Es.
    - apply (f_equal (@List.length N)) in Es. rewrite skipn_length in Es. simpl in Es. lia.
    - simpl in Hr. inversion Hr; subst. rewrite <- (firstn_skipn k p). apply in_or_app. right. rewrite Es. now left. }
  unfold no_hash in Hp. rewrite forallb_forall in Hp. specialize (Hp _ Hin). discriminate.
Qed.

(* suppression is decided by the named line alone *)
Theorem noqa_is_local (c1 c2 : text) (line : nat) (code : text) :
  nth_error (source_lines c1) (pred line) = nth_error (source_lines c2) (pred line) ->
  ignored_via_comment c1 line code = ignored_via_comment c2 line code.
Proof. destruct line as [|k]; [reflexivity|]. simpl. intros ->. reflexivity. Qed.

(* a listed code is suppressed iff it is one of the tokens *)
Theorem noqa_codes_exact (line codes code : text) :
  search (rstrip line) = Some (Some codes) ->
  ignored_on_line line code = existsb (text_eqb code) (split_sp codes).
Proof. unfold ignored_on_line. intros ->. reflexivity. Qed.

Theorem noqa_bare_all (line code : text) : search (rstrip line) = Some None -> ignored_on_line line code = true.
Proof. unfold ignored_on_line. intros ->. reflexivity. Qed.
