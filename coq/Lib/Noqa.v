(* Noqa.v — hand-written model of refurb/main.py: get_source_lines, is_ignored_via_comment
   (the `# noqa` regex as a left-to-right search) over strings of code points; the
   theorems that hold for every file and line.  Tied by C08's correspondence check. *)
From Lib Require Import Base.
Open Scope list_scope.
Local Notation length := List.length.
Open Scope N_scope.

Definition text := list N.      (* code points *)

(* str.split on LF, for text whose CRLF and CR were already translated (tokenize.open) *)
Fixpoint split_nl (s : text) : list text :=
  match s with
  | [] => [[]]
  | c :: r => if c =? 10 then [] :: split_nl r
              else match split_nl r with h :: t => (c :: h) :: t | [] => [[c]] end
  end.

(* str.splitlines(): also VT, FF, FS, GS, RS, NEL, LS, PS (the behaviour before the repair) *)
Definition is_linebreak (c : N) : bool :=
  (c =? 10) || (c =? 11) || (c =? 12) || (c =? 28) || (c =? 29) || (c =? 30) || (c =? 133) || (c =? 8232) || (c =? 8233).

(* universal newlines: \r\n and \r become \n *)
Fixpoint universal (s : text) : text :=
  match s with
  | [] => []
  | 13 :: r => 10 :: (match r with 10 :: r' => universal r' | _ => universal r end)
  | c :: r => c :: universal r
  end.

(* str.rstrip(): Python's whitespace (ASCII part + the Unicode separators) *)
Definition is_space (c : N) : bool :=
  (c =? 32) || ((9 <=? c) && (c <=? 13)) || ((28 <=? c) && (c <=? 31)) || (c =? 133) || (c =? 160) || (c =? 5760)
  || ((8192 <=? c) && (c <=? 8202)) || (c =? 8232) || (c =? 8233) || (c =? 8239) || (c =? 8287) || (c =? 12288).

Fixpoint rstrip (s : text) : text :=
  match s with
  | [] => []
  | c :: r => match rstrip r with [] => if is_space c then [] else [c] | r' => c :: r' end
  end.

Definition noqa_lit : text := [35; 32; 110; 111; 113; 97].      (* the six characters: hash, space, n o q a *)

Fixpoint starts (p s : text) : option text :=                  (* Some rest when s = p ++ rest *)
  match p, s with
  | [], _ => Some s
  | a :: p', b :: s' => if a =? b then starts p' s' else None
  | _ :: _, [] => None
  end.

Definition no_quote (s : text) : bool := forallb (fun c => negb ((c =? 39) || (c =? 34))) s.

(* does the regex (hash noqa, then a run of non-quote characters up to the end of the line)
   match at the start of s?  The match is then all of s. *)
Definition at_noqa (s : text) : option text :=
  match starts noqa_lit s with
  | Some rest => if no_quote rest then Some s else None
  | None => None
  end.

(* re.search: the leftmost position where it matches; the result is group() *)
Fixpoint search (s : text) : option text :=
  match at_noqa s with
  | Some r => Some r
  | None => match s with [] => None | _ :: r => search r end
  end.

(* str.split("#") *)
Fixpoint split_hash (s : text) : list text :=
  match s with
  | [] => [[]]
  | c :: r => if c =? 35 then [] :: split_hash r
              else match split_hash r with h :: t => (c :: h) :: t | [] => [[c]] end
  end.

Fixpoint lstrip (s : text) : text :=
  match s with
  | [] => []
  | c :: r => if is_space c then lstrip r else s
  end.

Definition strip (s : text) : text := lstrip (rstrip s).

(* codes.replace(",", " ").split(" ") *)
Fixpoint split_sp (s : text) : list text :=
  match s with
  | [] => [[]]
  | c :: r => if (c =? 32) || (c =? 44) then [] :: split_sp r
              else match split_sp r with h :: t => (c :: h) :: t | [] => [[c]] end
  end.

Definition text_eqb (a b : text) : bool := list_eqb N.eqb a b.

Definition noqa_word : text := [110; 111; 113; 97].             (* n o q a *)
Definition noqa_colon : text := [110; 111; 113; 97; 58; 32].    (* n o q a colon space *)

(* one comment of the line (already stripped): bare `noqa` silences every code,
   `noqa: A, B` the listed ones, anything else nothing *)
Definition comment_ignores (code : text) (c : text) : bool :=
  text_eqb c noqa_word ||
  match starts noqa_colon c with
  | Some codes => existsb (text_eqb code) (split_sp codes)
  | None => false
  end.

Definition verdict (code : text) (tail : text) : bool :=
  existsb (fun c => comment_ignores code (strip c)) (split_hash tail).

Definition ignored_on_line (line : text) (code : text) : bool :=
  match search (rstrip line) with
  | None => false
  | Some tail => verdict code tail
  end.

(* is_ignored_via_comment: the line the diagnostic names (1-based); None = IndexError *)
Definition source_lines (content : text) : list text := split_nl (universal content).

Definition ignored_via_comment (content : text) (line : nat) (code : text) : option bool :=
  match line with
  | O => None
  | S k => match nth_error (source_lines content) k with
           | Some l => Some (ignored_on_line l code)
           | None => None
           end
  end.

Close Scope N_scope.

(* ---- theorems ---- *)

Lemma starts_app (p s : text) : starts p (p ++ s) = Some s.
Proof. induction p as [|a p IH]; [destruct s; reflexivity|]. simpl. now rewrite N.eqb_refl. Qed.

Lemma starts_spec (p s r : text) : starts p s = Some r -> s = p ++ r.
Proof.
  revert s. induction p as [|a p IH]; intros s H; [destruct s; inversion H; reflexivity|].
  destruct s as [|b s]; [discriminate|]. simpl in H. destruct (N.eqb_spec a b) as [->|]; [|discriminate].
  simpl. f_equal. now apply IH.
Qed.

(* the first match wins: nothing inside a prefix that cannot start a match matters *)
Lemma search_skip (p s : text) :
  (forall k, k < length p -> at_noqa (skipn k (p ++ s)) = None) -> search (p ++ s) = search s.
Proof.
  induction p as [|c r IH]; intros H; [reflexivity|].
  pose proof (H 0 ltac:(simpl; lia)) as H0. cbn [skipn] in H0.
  change ((c :: r) ++ s) with (c :: (r ++ s)) in *. cbn [search]. rewrite H0. apply IH.
  intros k Hk. apply (H (S k)). simpl. lia.
Qed.

(* a match needs a hash character: text without one never matches *)
Definition no_hash (s : text) : bool := forallb (fun c => negb (N.eqb c 35)) s.

Lemma at_noqa_hash s : at_noqa s <> None -> exists r, s = 35%N :: r.
Proof.
  destruct s as [|c r]; [intros H; exfalso; apply H; reflexivity|]. unfold at_noqa. cbn [starts noqa_lit].
  destruct (N.eqb_spec 35 c) as [<-|N]; [intros _; now exists r|intros H; exfalso; apply H; reflexivity].
Qed.

Lemma search_no_hash_prefix (p s : text) : no_hash p = true -> search (p ++ s) = search s.
Proof.
  intros Hp. apply search_skip. intros k Hk.
  destruct (at_noqa (skipn k (p ++ s))) eqn:E; [|reflexivity]. exfalso.
  assert (E' : at_noqa (skipn k (p ++ s)) <> None) by congruence.
  apply at_noqa_hash in E' as (r & Hr).
  assert (Hin : In 35%N p).
  { rewrite skipn_app in Hr. replace (k - length p) with 0 in Hr by lia. simpl in Hr.
    destruct (skipn k p) as [|x t'] eqn:Es.
    - apply (f_equal (@List.length N)) in Es. rewrite skipn_length in Es. simpl in Es. lia.
    - simpl in Hr. inversion Hr; subst. rewrite <- (firstn_skipn k p). apply in_or_app. right. rewrite Es. now left. }
  unfold no_hash in Hp. rewrite forallb_forall in Hp. specialize (Hp _ Hin). discriminate.
Qed.

(* suppression is decided by the named line alone *)
Theorem noqa_is_local (c1 c2 : text) (line : nat) (code : text) :
  nth_error (source_lines c1) (pred line) = nth_error (source_lines c2) (pred line) ->
  ignored_via_comment c1 line code = ignored_via_comment c2 line code.
Proof. destruct line as [|k]; [reflexivity|]. simpl. intros ->. reflexivity. Qed.

(* what is found is the rest of the line from a hash-noqa on, and it holds no quote *)
Lemma search_is_suffix (s t : text) : search s = Some t ->
  exists p rest, s = p ++ t /\ t = noqa_lit ++ rest /\ no_quote rest = true.
Proof.
  induction s as [|c r IH]; intros H.
  - discriminate.
  - cbn [search] in H. destruct (at_noqa (c :: r)) as [u|] eqn:E.
    + inversion H; subst u. unfold at_noqa in E. destruct (starts noqa_lit (c :: r)) as [rest|] eqn:Es; [|discriminate].
      destruct (no_quote rest) eqn:Q; [|discriminate]. inversion E; subst t.
      exists [], rest. repeat split; [now apply starts_spec|exact Q].
    + destruct (IH H) as (p & rest & -> & Ht & Q). exists (c :: p), rest. repeat split; assumption.
Qed.

(* a diagnostic is suppressed exactly when one of the comments from the first hash-noqa on is a bare
   noqa or a noqa that lists its code *)
Theorem ignored_iff (line code : text) :
  ignored_on_line line code = true <->
  exists tail c, search (rstrip line) = Some tail /\ In c (split_hash tail) /\
    (strip c = noqa_word \/ exists codes, strip c = noqa_colon ++ codes /\ In code (split_sp codes)).
Proof.
  unfold ignored_on_line, verdict. split.
  - destruct (search (rstrip line)) as [tail|]; [|discriminate]. intros H.
    apply existsb_exists in H as (c & Hin & Hc). exists tail, c. repeat split; [assumption|].
    unfold comment_ignores in Hc. apply orb_true_iff in Hc as [Hc|Hc].
    + left. unfold text_eqb in Hc. now apply (list_eqb_spec N.eqb N.eqb_eq) in Hc.
    + right. destruct (starts noqa_colon (strip c)) as [codes|] eqn:Es; [|discriminate].
      exists codes. split; [now apply starts_spec|].
      apply existsb_exists in Hc as (x & Hx & Hxe). unfold text_eqb in Hxe.
      apply (list_eqb_spec N.eqb N.eqb_eq) in Hxe. now subst x.
  - intros (tail & c & -> & Hin & Hc). apply existsb_exists. exists c. split; [assumption|].
    unfold comment_ignores. destruct Hc as [->|(codes & -> & Hcode)]; [reflexivity|].
    rewrite starts_app. apply orb_true_iff. right. apply existsb_exists. exists code. split; [assumption|].
    unfold text_eqb. now apply (list_eqb_spec N.eqb N.eqb_eq).
Qed.

(* ---- str.split on the hash sign ---- *)
Lemma split_hash_nonempty s : split_hash s <> [].
Proof. destruct s as [|c r]; simpl; [discriminate|]. destruct (c =? 35)%N; [discriminate|]. destruct (split_hash r); discriminate. Qed.

Lemma split_hash_app (a b : text) : split_hash (a ++ 35%N :: b) = split_hash a ++ split_hash b.
Proof.
  induction a as [|c r IH]; [reflexivity|]. cbn [app split_hash]. rewrite IH.
  destruct (c =? 35)%N; [reflexivity|].
  destruct (split_hash r) as [|h t'] eqn:E; [now apply split_hash_nonempty in E|]. reflexivity.
Qed.

Lemma split_hash_no_hash (w : text) : no_hash w = true -> split_hash w = [w].
Proof.
  induction w as [|c r IH]; [reflexivity|]. intros H. cbn [no_hash forallb] in H. apply andb_true_iff in H as [Hc Hr].
  cbn [split_hash]. apply negb_true_iff in Hc. rewrite Hc, (IH Hr). reflexivity.
Qed.

Fixpoint map_last {A} (g : A -> A) (l : list A) : list A :=
  match l with
  | [] => []
  | [x] => [g x]
  | x :: r => x :: map_last g r
  end.

Lemma split_hash_app_no_hash (a w : text) : no_hash w = true ->
  split_hash (a ++ w) = map_last (fun c => c ++ w) (split_hash a).
Proof.
  intros Hw. induction a as [|c r IH]; [simpl; now apply split_hash_no_hash|].
  cbn [app split_hash]. rewrite IH. destruct (split_hash r) as [|h t'] eqn:E; [now apply split_hash_nonempty in E|].
  destruct (c =? 35)%N.
  - reflexivity.
  - destruct t'; reflexivity.
Qed.

Lemma existsb_map_last {A} (f : A -> bool) (g : A -> A) (l : list A) :
  (forall x, f (g x) = f x) -> existsb f (map_last g l) = existsb f l.
Proof.
  intros H. induction l as [|x r IH]; [reflexivity|]. destruct r as [|y r']; [simpl; now rewrite H|].
  change (map_last g (x :: y :: r')) with (x :: map_last g (y :: r')). cbn [existsb]. now rewrite IH.
Qed.
