(* Catalogue.v — hand-written model of the catalogue-facing code:
   refurb/explain.py (lookup + rendering), docs/gen_checks.py (section layout),
   ErrorCode.__str__.  The catalogue itself is generated (Props/C17/GenCatalogue). *)
From Lib Require Import Base.

Record chk := {
  c_mod : string; c_cls : string; c_prefix : string; c_code : N;
  c_name : option string; c_cats : list string; c_enabled : bool;
  c_has_doc : bool;            (* class has a docstring of its own *)
  c_doc : string               (* textwrap.dedent(doc).strip(), computed by the translator *)
}.

Definition code_key (c : chk) : string * N := (c_prefix c, c_code c).
Definition key_eqb (a b : string * N) : bool := String.eqb (fst a) (fst b) && N.eqb (snd a) (snd b).

Lemma key_eqb_spec a b : key_eqb a b = true <-> a = b.
Proof.
  destruct a as [p n], b as [q m]; unfold key_eqb; simpl.
  rewrite andb_true_iff, String.eqb_eq, N.eqb_eq. split; [intros [-> ->]|intros E; inversion E]; auto.
Qed.

(* ErrorCode.__str__ *)
Definition code_str (k : string * N) : string := fst k ++ N_to_dec (snd k).

(* explain.py *)
Definition name_or_unknown (c : chk) : string :=
  match c_name c with Some n => n | None => "<name unknown>" end.

Definition render_explain (c : chk) : string :=
  if c_has_doc c then
    code_str (code_key c) ++ ": " ++ name_or_unknown c ++ " "
      ++ concat_str " " (map (fun x => "[" ++ x ++ "]") (c_cats c)) ++ nl ++ nl ++ c_doc c
  else "refurb: Explanation for """ ++ code_str (code_key c) ++ """ not found".

Definition explain (cat : list chk) (k : string * N) : string :=
  match lookup key_eqb code_key k cat with
  | Some c => render_explain c
  | None => "refurb: Error code """ ++ code_str k ++ """ not found"
  end.

Theorem explain_finds_own_generic (cat : list chk) :
  NoDup (map code_key cat) -> forall c, In c cat -> explain cat (code_key c) = render_explain c.
Proof.
  intros Hnd c Hin. unfold explain.
  now rewrite (lookup_unique _ key_eqb key_eqb_spec _ code_key cat Hnd c Hin).
Qed.

(* docs/gen_checks.py: one section per check, sorted by the code string *)
Record md_entry := { md_header : string; md_cats : string; md_body : string }.

Definition md_of (c : chk) (body : string) : md_entry :=
  {| md_header := "## " ++ code_str (code_key c) ++ ": `" ++ name_or_unknown c ++ "`";
     md_cats := "Categories: " ++ concat_str " " (map (fun x => "`" ++ x ++ "`") (c_cats c));
     md_body := body |}.

Definition md_entry_eqb (a b : md_entry) : bool :=
  String.eqb (md_header a) (md_header b) && String.eqb (md_cats a) (md_cats b)
  && String.eqb (md_body a) (md_body b).

Definition by_code_str (a b : chk) : bool := str_leb (code_str (code_key a)) (code_str (code_key b)).

(* kebab-case names: lower-case letters, digits, single dashes inside *)
Definition kebab_char (c : ascii) : bool :=
  let n := N_of_ascii c in
  (N.leb 97 n && N.leb n 122) || (N.leb 48 n && N.leb n 57) || N.eqb n 45.
Fixpoint all_chars (f : ascii -> bool) (s : string) : bool :=
  match s with EmptyString => true | String c r => f c && all_chars f r end.
Definition is_kebab (s : string) : bool :=
  match s with EmptyString => false | _ => all_chars kebab_char s end.

Definition opt_str_eqb (a b : option string) : bool :=
  match a, b with Some x, Some y => String.eqb x y | None, None => true | _, _ => false end.
Lemma opt_str_eqb_spec a b : opt_str_eqb a b = true <-> a = b.
Proof.
  destruct a, b; simpl; try rewrite String.eqb_eq; split; try congruence; auto.
Qed.
