(* C14 — the file arguments may stand anywhere among the options. *)
From Lib Require Import Base Select Cli.
Open Scope list_scope.
Local Notation length := List.length.
Arguments String.eqb : simpl never.

Definition is_file (f : string) : Prop :=
  flag_of f = None /\ existsb (String.eqb f) valued_options = false /\ String.eqb f "--" = false
  /\ starts_with "-" f = false /\ String.eqb f "" = false.

Definition add_file (s : settings) (f : string) : settings :=
  upd s (files s ++ [f]) (explain s) (ignore s) (load s) (enable s) (disable s).

Lemma step_file s f : is_file f -> cli_step (Ok (s, Normal)) f = Ok (add_file s f, Normal).
Proof.
  intros (H1 & H2 & H3 & H4 & H5). unfold cli_step, bind. rewrite H1, H2, H3, H4, H5. reflexivity.
Qed.

Lemma fold_err m l : fold_left cli_step l (ValueErr m) = ValueErr m.
Proof. induction l as [|a r IH]; simpl; [reflexivity|exact IH]. Qed.
Lemma fold_crash m l : fold_left cli_step l (Crash m) = Crash m.
Proof. induction l as [|a r IH]; simpl; [reflexivity|exact IH]. Qed.

Lemma apply_value_file s f opt v :
  apply_value (add_file s f) opt v = bind (apply_value s opt v) (fun s' => Ok (add_file s' f)).
Proof.
  unfold apply_value.
  repeat match goal with |- context [if String.eqb ?a ?b then _ else _] => destruct (String.eqb a b) end;
    try reflexivity;
    match goal with |- context [bind ?r _] => destruct r; reflexivity end.
Qed.

Inductive seg_ok : list string -> Prop :=
| SFlag a fl : flag_of a = Some fl -> seg_ok [a]
| SVal opt v : flag_of opt = None -> existsb (String.eqb opt) valued_options = true -> seg_ok [opt; v].

Lemma seg_result sg s : seg_ok sg ->
  (exists s', fold_left cli_step sg (Ok (s, Normal)) = Ok (s', Normal)) \/
  (exists m, fold_left cli_step sg (Ok (s, Normal)) = ValueErr m) \/
  (exists m, fold_left cli_step sg (Ok (s, Normal)) = Crash m).
Proof.
  intros [a fl H|opt v H1 H2]; cbn [fold_left].
  - left. unfold cli_step, bind. rewrite H. eexists. reflexivity.
  - assert (E : cli_step (Ok (s, Normal)) opt = Ok (s, Expect opt)).
    { unfold cli_step, bind. rewrite H1, H2. reflexivity. }
    rewrite E. change (cli_step (Ok (s, Expect opt)) v) with (bind (apply_value s opt v) (fun s' => Ok (s', Normal))).
    destruct (apply_value s opt v); [left|right; left|right; right]; eexists; reflexivity.
Qed.

Lemma commute1 sg f s : seg_ok sg -> is_file f ->
  fold_left cli_step (f :: sg) (Ok (s, Normal)) = fold_left cli_step (sg ++ [f]) (Ok (s, Normal)).
Proof.
  intros Hs Hf. destruct Hs as [a fl H|opt v H1 H2].
  - cbn [fold_left app]. rewrite (step_file s f Hf).
    assert (Ea : forall x, cli_step (Ok (x, Normal)) a = Ok (set_flag x fl, Normal)).
    { intros x. unfold cli_step, bind. rewrite H. reflexivity. }
    rewrite !Ea. rewrite (step_file (set_flag s fl) f Hf). destruct fl; reflexivity.
  - cbn [fold_left app]. rewrite (step_file _ _ Hf).
    assert (E : forall x, cli_step (Ok (x, Normal)) opt = Ok (x, Expect opt)).
    { intros x. unfold cli_step, bind. rewrite H1, H2. reflexivity. }
    rewrite !E.
    assert (E2 : forall x, cli_step (Ok (x, Expect opt)) v = bind (apply_value x opt v) (fun s' => Ok (s', Normal))) by reflexivity.
    rewrite !E2, apply_value_file.
    destruct (apply_value s opt v); cbn [bind]; [now rewrite (step_file _ _ Hf)|reflexivity|reflexivity].
Qed.

(* any number of complete option segments: moving a file argument across them changes nothing *)
Theorem file_moves_across_options : forall sgs f s, Forall seg_ok sgs -> is_file f ->
  fold_left cli_step (f :: List.concat sgs) (Ok (s, Normal)) = fold_left cli_step (List.concat sgs ++ [f]) (Ok (s, Normal)).
Proof.
  induction sgs as [|sg r IH]; intros f s Hs Hf; [reflexivity|].
  inversion Hs as [|? ? Hsg Hr]; subst. cbn [List.concat].
  change (f :: sg ++ List.concat r) with ((f :: sg) ++ List.concat r). rewrite <- app_assoc, !fold_left_app.
  rewrite (commute1 _ _ _ Hsg Hf), fold_left_app.
  destruct (seg_result sg s Hsg) as [(s' & E)|[(m & E)|(m & E)]]; rewrite E.
  - change (fold_left cli_step (List.concat r) (fold_left cli_step [f] (Ok (s', Normal))))
      with (fold_left cli_step (f :: List.concat r) (Ok (s', Normal))).
    rewrite (IH f s' Hr Hf), fold_left_app. reflexivity.
  - rewrite ?fold_left_app. cbn [fold_left]. change (cli_step (ValueErr m) f) with (@ValueErr (settings * mode) m).
    rewrite !fold_err. reflexivity.
  - rewrite ?fold_left_app. cbn [fold_left]. change (cli_step (Crash m) f) with (@Crash (settings * mode) m).
    rewrite !fold_crash. reflexivity.
Qed.

(* non-vacuity *)
Example file_example : is_file "src/app.py" /\ seg_ok ["--quiet"] /\ seg_ok ["--enable"; "FURB123"].
Proof. split; [repeat split; reflexivity|]. split; [eapply SFlag; reflexivity|apply SVal; reflexivity]. Qed.
